#!/usr/bin/env python3
"""Regenerates /verif/MANIFEST.json from the table below (kept next to the checks)."""
import json, os
V = '/verif'
props = [json.loads(l) for l in open(f'{V}/properties.jsonl')]

# property -> (level text, level_note, technique, design_ref)
CLAIMED = json.load(open(f'{V}/tools/claims.json'))
NA = json.load(open(f'{V}/tools/not_applicable.json'))

checks = []
for p in props:
    pid = p['id']
    if pid not in CLAIMED:
        continue
    c = CLAIMED[pid]
    checks.append({
        "property_id": pid,
        "quick_cmd": f"./check {pid} --tier quick",
        "thorough_cmd": f"./check {pid} --tier thorough",
        "evidence_file": f"/verif/evidence/{pid}.json",
        "replay_cmd_template": "./check --replay {path}",
        "engine": "gosym",
        "level_claimed": {"category": "model_checking", "text": c["text"], "design_ref": c.get("design_ref", f"DESIGN.md §5 {pid}")},
        "level_note": c["note"],
        "technique": c.get("technique", "bounded symbolic execution of the Go SSA of the real code, SMT (z3/cvc5) decides every path condition and assertion; counterexamples replayed natively"),
    })
na = [{"property_id": p['id'], "reason": NA.get(p['id'], "check not built yet")} for p in props if p['id'] not in CLAIMED]
m = {
    "version": 1,
    "setup_cmd": "cd /verif/engine && GOFLAGS=-mod=mod GOPROXY=off GOSUMDB=off GOTOOLCHAIN=local GOWORK=off go build -o /verif/bin/gosym ./cmd/gosym",
    "hooks": {
        "guard": "verif",
        "enable": "harness files (build tag verif) and the virtual package internal/verifrt are injected with a go/packages overlay for the engine and `go test -overlay` for native replay; no file under /repo is modified",
        "baseline_off_cmd": "cd /repo && GOFLAGS=-mod=mod GOWORK=off go test -vet=off -count=1 ./...",
        "source_commits": [],
        "add_only": True,
    },
    "engines": [{
        "name": "gosym",
        "path": "/verif/engine",
        "serves_properties": [c["property_id"] for c in checks],
        "kind_free_text": "own symbolic executor over go/ssa (x/tools v0.29.0): concrete heap shape, symbolic scalars as SMT bit-vectors/floats, forking by decision replay, z3 -in / cvc5 --incremental back ends, native replay of every counterexample through `go test -overlay`",
    }],
    "checks": checks,
    "notes": "All checks are bounded symbolic execution of /repo's current working tree; bounds per harness are in the evidence files and DESIGN.md.",
    "not_applicable": na,
}
json.dump(m, open(f'{V}/MANIFEST.json', 'w'), indent=1)
print("claimed:", [c["property_id"] for c in checks])
