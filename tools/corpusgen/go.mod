module corpusgen

go 1.23.0

toolchain go1.23.5

require github.com/risor-io/risor v0.0.0

replace github.com/risor-io/risor => /repo
