#!/bin/sh
# regenerates harness/vm/zz_verif_corpus_data.go from /repo's test files
cd /verif/tools/corpusgen && GOFLAGS=-mod=mod GOWORK=off GOPROXY=off GOSUMDB=off GOTOOLCHAIN=local \
  go run . /verif/harness/vm/zz_verif_corpus_data.go /repo/vm/vm_test.go /repo/risor_test.go /repo/compiler/compiler_test.go /repo/vm/vm_benchmark_test.go 2>&1 | tail -n 3
