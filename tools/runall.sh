#!/bin/sh
# runs every claimed check (quick by default) and prints a one-line summary each
tier=${1:-quick}
cd /verif
for id in $(python3 -c "import json;print(' '.join(c['property_id'] for c in json.load(open('MANIFEST.json'))['checks']))"); do
  s=$(date +%s)
  ./check $id --tier $tier > out/run_$id.log 2>&1
  rc=$?
  e=$(date +%s)
  echo "$id rc=$rc $((e-s))s $(tail -n 1 out/run_$id.log)"
done
