#!/usr/bin/env python3
"""Confirm a seeded change in a scratch worktree, run the property's check against it, record the result.
usage: seedtest.py <PROP> <seed_dir> <name> [--tier quick|thorough] [--skip-confirm]"""
import json, os, re, shutil, subprocess, sys, time
prop, sdir, name = sys.argv[1], sys.argv[2], sys.argv[3]
tier = 'quick'
if '--tier' in sys.argv: tier = sys.argv[sys.argv.index('--tier')+1]
skip_confirm = '--skip-confirm' in sys.argv
confirm_only = '--confirm-only' in sys.argv
env = dict(os.environ, GOFLAGS='-mod=mod', GOPROXY='off', GOSUMDB='off', GOTOOLCHAIN='local', GOWORK='off')
def run(cmd, cwd=None, timeout=1800):
    p = subprocess.run(cmd, shell=True, cwd=cwd, env=env, capture_output=True, text=True, timeout=timeout)
    return p.returncode, p.stdout + p.stderr
patch = os.path.join(sdir, 'patch.diff')
demo = os.path.join(sdir, 'demo_test.go')
meta = {"property": prop, "name": name, "tier_run": tier}
old_meta_path = f'/verif/seeded/{name}/meta.json'
if skip_confirm and os.path.exists(old_meta_path):
    old = json.load(open(old_meta_path))
    for k in ('compiles', 'suite_passes_with_change', 'demo_fails_with_change', 'demo_passes_without_change'):
        if k in old: meta[k] = old[k]
    if 'detected' in old and 'first_run_detected' not in old:
        meta['first_run_detected'] = old['detected']
    elif 'first_run_detected' in old:
        meta['first_run_detected'] = old['first_run_detected']
    ran = [r for r in old.get('what_i_ran', []) if 'check' not in r]
else:
    ran = []
notes = open(os.path.join(sdir, 'notes.txt')).read() if os.path.exists(os.path.join(sdir, 'notes.txt')) else ''
meta["needs_to_manifest"] = notes.strip()
if not skip_confirm:
    ran = []
    wt = f'/tmp/wt_confirm_{name}'
    run(f'git -C /repo worktree remove --force {wt}')
    rc, out = run(f'git -C /repo worktree add -q {wt} HEAD'); assert rc == 0, out
    try:
        head = open(demo).read().split('\n')[:5]
        m = re.search(r'copy to:\s*(\S+)', '\n'.join(head))
        dest = m.group(1) if m else 'zz_demo_test.go'
        tname = re.search(r'func (Test\w+)', open(demo).read()).group(1)
        pkgdir = os.path.dirname(dest) or '.'
        rc, out = run(f'git apply {patch}', cwd=wt); assert rc == 0, 'patch does not apply: ' + out
        rc, out = run('go build ./...', cwd=wt); meta['compiles'] = rc == 0
        rc, out = run('go test -vet=off -count=1 ./... 2>&1 | grep -v "^ok\\|no test files" | head -20', cwd=wt)
        meta['suite_passes_with_change'] = out.strip() == ''
        if out.strip(): meta['suite_output'] = out[:500]
        shutil.copy(demo, os.path.join(wt, dest))
        rc1, out1 = run(f'go test -vet=off -count=1 -run "^{tname}$" ./{pkgdir}/', cwd=wt)
        meta['demo_fails_with_change'] = rc1 != 0
        run(f'git apply -R {patch}', cwd=wt)
        rc2, out2 = run(f'go test -vet=off -count=1 -run "^{tname}$" ./{pkgdir}/', cwd=wt)
        meta['demo_passes_without_change'] = rc2 == 0
        ran += ['git apply patch.diff (scratch worktree)', 'go build ./...', 'go test -vet=off -count=1 ./...', f'go test -run {tname} ./{pkgdir}/ (with and without the change)']
    finally:
        run(f'git -C /repo worktree remove --force {wt}')
if confirm_only:
    meta['what_i_ran'] = ran
    d = f'/verif/seeded/{name}'
    os.makedirs(d, exist_ok=True)
    shutil.copy(patch, d + '/patch.diff')
    if os.path.exists(demo): shutil.copy(demo, d + '/demo_test.go')
    json.dump(meta, open(d + '/meta.json', 'w'), indent=1)
    print(name, 'confirmed=', meta.get('compiles'), meta.get('suite_passes_with_change'), meta.get('demo_fails_with_change'), meta.get('demo_passes_without_change'))
    sys.exit(0)
# run the check against /repo with the change
rc, out = run('git -C /repo status --porcelain --untracked-files=no'); assert out.strip() == '', 'repo dirty: ' + out
rc, out = run(f'git -C /repo apply {patch}'); assert rc == 0, out
try:
    t0 = time.time()
    rc, out = run(f'./check {prop} --tier {tier}', cwd='/verif', timeout=3600)
    meta['check_exit'] = rc
    meta['check_wall_s'] = round(time.time() - t0, 1)
    meta['violation_lines'] = [l[:300] for l in out.split('\n') if l.startswith('VIOLATION')][:6]
    meta['inconclusive_lines'] = [l[:300] for l in out.split('\n') if l.startswith('INCONCLUSIVE')][:4]
    meta['detected'] = rc == 1 and len(meta['violation_lines']) > 0
    ran.append(f'git -C /repo apply patch.diff; ./check {prop} --tier {tier}; git -C /repo checkout -- .')
finally:
    run('git -C /repo checkout -- .')
meta['what_i_ran'] = ran
d = f'/verif/seeded/{name}'
os.makedirs(d, exist_ok=True)
shutil.copy(patch, d + '/patch.diff')
if os.path.exists(demo): shutil.copy(demo, d + '/demo_test.go')
json.dump(meta, open(d + '/meta.json', 'w'), indent=1)
print(name, 'confirmed=', meta.get('suite_passes_with_change'), meta.get('demo_fails_with_change'), meta.get('demo_passes_without_change'), 'detected=', meta['detected'], meta['violation_lines'][:1], meta['inconclusive_lines'][:1])
