#!/bin/bash
# runs the repository's pinned test suite (all modules) on /repo's working tree and
# compares with the 1246 stable-pass tests of /root/.vp/BASELINE.json
unset GOFLAGS GOWORK GOPROXY GOSUMDB
. /w/out/goenv.sh
tmp=$(mktemp)
for m in $(cat /w/out/gomods.txt); do
  MF=$(cd /repo/$m && gomodflag)
  (cd /repo/$m && go test $MF -json -vet=off -count=1 -timeout 25m ./... 2>/dev/null) >> $tmp
done
python3 - $tmp <<'PY'
import json,sys
res={}
for l in open(sys.argv[1]):
    try: d=json.loads(l)
    except Exception: continue
    if d.get('Test') and d.get('Action') in ('pass','fail','skip'):
        res[d['Package']+'::'+d['Test']]=d['Action']
sp=json.load(open('/root/.vp/BASELINE.json'))['stable_pass']
bad=[t for t in sp if res.get(t)!='pass']
for t in bad[:40]: print('NOT PASSING:',t,res.get(t))
print("SUITE OK" if not bad else "SUITE FAILED", len(sp)-len(bad),"/",len(sp)); sys.exit(1 if bad else 0)
PY
rc=$?; rm -f $tmp; exit $rc
