#!/bin/bash
# re-runs every kept seeded change against the committed checks (regression):
# applies seeded/<name>/patch.diff to /repo, runs the property's quick check, reverts.
# Prints one line per seed; seeds marked superseded are skipped.
cd /verif
for d in seeded/*/; do
  n=$(basename $d)
  [ -f $d/meta.json ] || continue
  if python3 -c "import json,sys; m=json.load(open('$d/meta.json')); sys.exit(0 if m.get('status')=='superseded' else 1)"; then echo "$n superseded"; continue; fi
  p=${n%_*}
  if ! git -C /repo apply --check $d/patch.diff 2>/dev/null; then echo "$n PATCH-DOES-NOT-APPLY"; continue; fi
  git -C /repo apply $d/patch.diff
  out=$(./check $p --tier quick 2>&1)
  rc=$?
  git -C /repo checkout -- . ; git -C /repo clean -fdq
  v=$(echo "$out" | grep -c '^VIOLATION')
  echo "$n rc=$rc violations=$v $(echo "$out" | grep '^VIOLATION' | head -n 1 | sed 's/.*(\(Harness[^:]*: *[^:]*\).*/\1/' | cut -c1-120)"
done
