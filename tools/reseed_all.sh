#!/bin/bash
# re-runs every kept seeded change against the committed checks (regression):
# applies seeded/<name>/patch.diff to /repo, runs the property's quick check, reverts.
# Prints one line per seed; seeds marked superseded are skipped. By default only the harness that
# caught the change last time is run (FULL=1 runs the whole property check). SKIP=<n> skips the first n seeds.
cd /verif
i=0
for d in seeded/*/; do
  n=$(basename $d)
  i=$((i+1)); if [ -n "$SKIP" ] && [ $i -le $SKIP ]; then continue; fi
  [ -f $d/meta.json ] || continue
  if python3 -c "import json,sys; m=json.load(open('$d/meta.json')); sys.exit(0 if m.get('status')=='superseded' else 1)"; then echo "$n superseded"; continue; fi
  p=${n%_*}
  if ! git -C /repo apply --check /verif/$d/patch.diff 2>/dev/null; then echo "$n PATCH-DOES-NOT-APPLY"; continue; fi
  git -C /repo apply /verif/$d/patch.diff
  h=$(python3 -c "
import json,re
m=json.load(open('$d/meta.json'))
for l in m.get('violation_lines') or []:
    mm=re.search(r'\((Harness\w+) ', l)
    if mm: print(mm.group(1)); break
")
  if [ -n "$h" ] && [ "$FULL" != "1" ]; then out=$(./check $p --tier quick --only $h 2>&1); else out=$(./check $p --tier quick 2>&1); fi
  rc=$?
  git -C /repo checkout -- . ; git -C /repo clean -fdq
  v=$(echo "$out" | grep -c '^VIOLATION')
  echo "$n rc=$rc violations=$v $(echo "$out" | grep '^VIOLATION' | head -n 1 | sed 's/.*(\(Harness[^:]*: *[^:]*\).*/\1/' | cut -c1-120)"
done
