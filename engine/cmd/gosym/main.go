package main

import (
	"encoding/json"
	"flag"
	"fmt"
	"os"
	"path/filepath"
	"strings"

	"verif/engine/ssaexec"
)

func overlay(harnessDir, repoDir string) map[string][]byte {
	ov := map[string][]byte{}
	filepath.Walk(harnessDir, func(p string, info os.FileInfo, err error) error {
		if err != nil || info.IsDir() || !strings.HasSuffix(p, ".go") {
			return nil
		}
		rel, _ := filepath.Rel(harnessDir, p)
		b, _ := os.ReadFile(p)
		ov[filepath.Join(repoDir, rel)] = b
		return nil
	})
	return ov
}

func main() {
	if len(os.Args) > 1 && os.Args[1] == "check" {
		os.Exit(runCheck(os.Args[2:]))
	}
	repo := flag.String("repo", "/repo", "repository")
	hdir := flag.String("harness", "/verif/harness", "harness dir")
	pkg := flag.String("pkg", "", "package import path")
	hn := flag.String("h", "", "harness function (comma separated; empty = all Harness*)")
	nw := flag.Int("j", 8, "workers")
	solver := flag.String("solver", "z3", "z3|z3-new|cvc5")
	verbose := flag.Bool("v", false, "verbose")
	maxPaths := flag.Int("maxpaths", 200000, "")
	maxSteps := flag.Int("maxsteps", 2000000, "")
	flag.Parse()
	eng, err := ssaexec.Load(ssaexec.LoadConfig{RepoDir: *repo, Patterns: []string{*pkg}, Overlay: overlay(*hdir, *repo), Tags: []string{"verif"}})
	if err != nil {
		fmt.Fprintln(os.Stderr, "load:", err)
		os.Exit(2)
	}
	eng.SolverKind = *solver
	eng.Verbose = *verbose
	fmt.Fprintf(os.Stderr, "loaded in %v\n", eng.LoadTime)
	machines, problems := eng.Machines(*nw)
	for _, p := range problems {
		fmt.Fprintln(os.Stderr, "init problem:", p)
	}
	names := eng.HarnessNames(*pkg)
	if *hn != "" {
		names = strings.Split(*hn, ",")
	}
	b := ssaexec.DefaultBounds()
	b.MaxPaths = *maxPaths
	b.MaxSteps = *maxSteps
	for _, n := range names {
		hr := eng.Explore(*pkg, n, b, *nw, machines)
		hr.Funcs = nil
		out, _ := json.MarshalIndent(hr, "", " ")
		fmt.Println(string(out))
	}
}
