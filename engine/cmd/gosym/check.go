package main

import (
	"bufio"
	"encoding/json"
	"fmt"
	"go/ast"
	"go/parser"
	"go/token"
	"os"
	"os/exec"
	"path/filepath"
	"regexp"
	"sort"
	"strconv"
	"strings"
	"time"

	"verif/engine/ssaexec"
)

const modPath = "github.com/risor-io/risor"

type harnessInfo struct {
	Name   string
	PkgRel string // "object"
	PkgDir string // package name clause
	File   string
	Labels []string // Reach labels that must be hit
}

type hSettings struct {
	Tier      string `json:"tier"`   // "" both | "thorough"
	Solver    string `json:"solver"` // default z3
	MaxPaths  int    `json:"max_paths"`
	MaxPathsT int    `json:"max_paths_thorough"`
	MaxSteps  int    `json:"max_steps"`
	MaxDec    int    `json:"max_decisions"`
	MaxDepth  int    `json:"max_depth"`
	TimeoutMs int    `json:"timeout_ms"`
	Repeat    int    `json:"replay_repeat"` // native replay repetitions (map order)
	Race      bool   `json:"race"`          // native replay under the Go race detector, one process per case
	Note      string `json:"note"`
}

type knownFinding struct {
	Property string `json:"property"`
	Harness  string `json:"harness"`
	Label    string `json:"label"`
	Match    string `json:"match,omitempty"` // regexp on message
	What     string `json:"what"`
	Fixed    string `json:"fixed,omitempty"`
}

var reHarness = regexp.MustCompile(`^Harness(C[0-9]+)`)

func discover(hdir string) (map[string][]harnessInfo, error) {
	out := map[string][]harnessInfo{}
	fset := token.NewFileSet()
	err := filepath.Walk(hdir, func(p string, info os.FileInfo, err error) error {
		if err != nil || info.IsDir() || !strings.HasSuffix(p, ".go") || strings.HasSuffix(p, "_test.go") {
			return nil
		}
		rel, _ := filepath.Rel(hdir, filepath.Dir(p))
		if strings.HasPrefix(rel, "internal/verifrt") {
			return nil
		}
		f, err := parser.ParseFile(fset, p, nil, 0)
		if err != nil {
			return err
		}
		for _, d := range f.Decls {
			fd, ok := d.(*ast.FuncDecl)
			if !ok || fd.Recv != nil {
				continue
			}
			mm := reHarness.FindStringSubmatch(fd.Name.Name)
			if mm == nil {
				continue
			}
			hi := harnessInfo{Name: fd.Name.Name, PkgRel: rel, PkgDir: f.Name.Name, File: p}
			ast.Inspect(fd, func(n ast.Node) bool {
				c, ok := n.(*ast.CallExpr)
				if !ok {
					return true
				}
				sel, ok := c.Fun.(*ast.SelectorExpr)
				if !ok || sel.Sel.Name != "Reach" || len(c.Args) != 1 {
					return true
				}
				if lit, ok := c.Args[0].(*ast.BasicLit); ok && lit.Kind == token.STRING {
					s, _ := strconv.Unquote(lit.Value)
					if !strings.HasPrefix(s, "opt:") {
						hi.Labels = append(hi.Labels, s)
					}
				}
				return true
			})
			out[mm[1]] = append(out[mm[1]], hi)
		}
		return nil
	})
	return out, err
}

func loadJSON(path string, v interface{}) {
	b, err := os.ReadFile(path)
	if err != nil {
		return
	}
	if err := json.Unmarshal(b, v); err != nil {
		fmt.Fprintf(os.Stderr, "warning: %s: %v\n", path, err)
	}
}

func loadKnown(path string) []knownFinding {
	var out []knownFinding
	f, err := os.Open(path)
	if err != nil {
		return nil
	}
	defer f.Close()
	sc := bufio.NewScanner(f)
	sc.Buffer(make([]byte, 1<<20), 1<<20)
	for sc.Scan() {
		line := strings.TrimSpace(sc.Text())
		if line == "" || strings.HasPrefix(line, "#") || strings.HasPrefix(line, "fixed:") {
			continue
		}
		var k knownFinding
		if err := json.Unmarshal([]byte(line), &k); err == nil {
			out = append(out, k)
		}
	}
	return out
}

// ---- native replay ----

type nativeCase struct {
	Harness  string               `json:"harness"`
	Vector   []ssaexec.ReplayItem `json:"vector"`
	Thorough bool                 `json:"thorough"`
	Repeat   int                  `json:"repeat"`
	ID       string               `json:"id"`
	Race     bool                 `json:"race,omitempty"`
}

// raceLabel is the assertion label a race-mode harness passes to verifrt.RaceDetect.
const raceLabel = "no-data-race"

type nativeOutcome struct {
	ID         string   `json:"id"`
	Harness    string   `json:"harness"`
	Failed     []string `json:"failed"`
	Panic      string   `json:"panic"`
	Infeasible bool     `json:"infeasible"`
	Observed   []string `json:"observed"`
	Reached    []string `json:"reached"`
	Runs       int      `json:"runs"`
	Missing    bool     `json:"missing"`
}

type nativeRunner struct {
	verif, repo, hdir string
	all               map[string][]harnessInfo
	bins              map[string]string // pkgRel -> test binary
	overlayPath       string
	buildErr          map[string]string
	seed              int
}

func (nr *nativeRunner) prepare() error {
	gen := filepath.Join(nr.verif, "out", "gen")
	os.RemoveAll(gen)
	repl := map[string]string{}
	filepath.Walk(nr.hdir, func(p string, info os.FileInfo, err error) error {
		if err != nil || info.IsDir() || !strings.HasSuffix(p, ".go") {
			return nil
		}
		rel, _ := filepath.Rel(nr.hdir, p)
		repl[filepath.Join(nr.repo, rel)] = p
		return nil
	})
	// generated replay test per package
	byPkg := map[string][]harnessInfo{}
	for _, hs := range nr.all {
		for _, h := range hs {
			byPkg[h.PkgRel] = append(byPkg[h.PkgRel], h)
		}
	}
	for rel, hs := range byPkg {
		sort.Slice(hs, func(i, j int) bool { return hs[i].Name < hs[j].Name })
		var sb strings.Builder
		fmt.Fprintf(&sb, "//go:build verif\n\npackage %s\n\nimport (\n\t\"testing\"\n\n\t\"%s/internal/verifrt\"\n)\n\n", hs[0].PkgDir, modPath)
		sb.WriteString("func TestVerifReplay(t *testing.T) {\n\th := map[string]func(){\n")
		for _, h := range hs {
			fmt.Fprintf(&sb, "\t\t%q: %s,\n", h.Name, h.Name)
		}
		sb.WriteString("\t}\n\tif err := verifrt.ReplayMain(h); err != nil {\n\t\tt.Fatal(err)\n\t}\n}\n")
		dir := filepath.Join(gen, rel)
		os.MkdirAll(dir, 0755)
		fp := filepath.Join(dir, "zz_verif_replay_test.go")
		if err := os.WriteFile(fp, []byte(sb.String()), 0644); err != nil {
			return err
		}
		repl[filepath.Join(nr.repo, rel, "zz_verif_replay_test.go")] = fp
	}
	ob, _ := json.MarshalIndent(map[string]interface{}{"Replace": repl}, "", " ")
	nr.overlayPath = filepath.Join(nr.verif, "out", "overlay.json")
	os.MkdirAll(filepath.Dir(nr.overlayPath), 0755)
	return os.WriteFile(nr.overlayPath, ob, 0644)
}

func goEnv() []string {
	return append(os.Environ(), "GOFLAGS=-mod=mod", "GOWORK=off", "GOPROXY=off", "GOSUMDB=off", "GOTOOLCHAIN=local")
}

func (nr *nativeRunner) binFor(pkgRel string) (string, error) {
	return nr.binForMode(pkgRel, false)
}

func (nr *nativeRunner) binForMode(pkgRelIn string, race bool) (string, error) {
	pkgRel := pkgRelIn
	if race {
		pkgRel = pkgRelIn + "#race"
	}
	if b, ok := nr.bins[pkgRel]; ok {
		return b, nil
	}
	if e, ok := nr.buildErr[pkgRel]; ok {
		return "", fmt.Errorf("%s", e)
	}
	if nr.overlayPath == "" {
		if err := nr.prepare(); err != nil {
			return "", err
		}
	}
	bin := filepath.Join(nr.verif, "out", "bin", strings.ReplaceAll(strings.ReplaceAll(pkgRel, "/", "_"), "#", "_")+".test")
	os.MkdirAll(filepath.Dir(bin), 0755)
	args := []string{"test", "-c", "-vet=off", "-tags", "verif", "-overlay", nr.overlayPath, "-o", bin}
	if race {
		args = append(args, "-race")
	}
	args = append(args, "./"+pkgRelIn)
	cmd := exec.Command("go", args...)
	cmd.Dir = nr.repo
	cmd.Env = goEnv()
	out, err := cmd.CombinedOutput()
	if err != nil {
		msg := fmt.Sprintf("native build of %s failed: %v\n%s", pkgRel, err, out)
		nr.buildErr[pkgRel] = msg
		return "", fmt.Errorf("%s", msg)
	}
	nr.bins[pkgRel] = bin
	return bin, nil
}

func (nr *nativeRunner) run(pkgRel string, cases []nativeCase) ([]nativeOutcome, error) {
	if len(cases) == 0 {
		return nil, nil
	}
	if cases[0].Race {
		// one process per case: the race detector halts the process at the first report
		var outs []nativeOutcome
		for _, c := range cases {
			o, err := nr.runRace(pkgRel, c)
			if err != nil {
				return outs, err
			}
			outs = append(outs, o)
		}
		return outs, nil
	}
	bin, err := nr.binFor(pkgRel)
	if err != nil {
		return nil, err
	}
	dir := filepath.Join(nr.verif, "out", "replay")
	os.MkdirAll(dir, 0755)
	in := filepath.Join(dir, fmt.Sprintf("batch_%d_in.json", time.Now().UnixNano()))
	outp := strings.Replace(in, "_in.json", "_out.json", 1)
	b, _ := json.Marshal(cases)
	os.WriteFile(in, b, 0644)
	defer os.Remove(in)
	defer os.Remove(outp)
	cmd := exec.Command(bin, "-test.run", "^TestVerifReplay$", "-test.timeout", "900s")
	cmd.Dir = filepath.Join(nr.repo, pkgRel)
	if _, serr := os.Stat(cmd.Dir); serr != nil {
		cmd.Dir = nr.repo // overlay-only package directory
	}
	cmd.Env = append(os.Environ(), "VERIF_REPLAY_IN="+in, "VERIF_REPLAY_OUT="+outp, fmt.Sprintf("VERIF_SEED=%d", nr.seed))
	co, err := cmd.CombinedOutput()
	ob, rerr := os.ReadFile(outp)
	if rerr != nil {
		return nil, fmt.Errorf("native replay produced no output (%v): %s", err, co)
	}
	var outs []nativeOutcome
	if err := json.Unmarshal(ob, &outs); err != nil {
		return nil, err
	}
	return outs, nil
}

// runRace replays one case in a binary built with -race. A report of the Go
// race detector ends the process with exit code 66 and counts as a failure of
// the label "no-data-race".
func (nr *nativeRunner) runRace(pkgRel string, c nativeCase) (nativeOutcome, error) {
	bin, err := nr.binForMode(pkgRel, true)
	if err != nil {
		return nativeOutcome{}, err
	}
	dir := filepath.Join(nr.verif, "out", "replay")
	os.MkdirAll(dir, 0755)
	in := filepath.Join(dir, fmt.Sprintf("race_%d_in.json", time.Now().UnixNano()))
	outp := strings.Replace(in, "_in.json", "_out.json", 1)
	b, _ := json.Marshal([]nativeCase{c})
	os.WriteFile(in, b, 0644)
	defer os.Remove(in)
	defer os.Remove(outp)
	cmd := exec.Command(bin, "-test.run", "^TestVerifReplay$", "-test.timeout", "900s")
	cmd.Dir = filepath.Join(nr.repo, pkgRel)
	if _, serr := os.Stat(cmd.Dir); serr != nil {
		cmd.Dir = nr.repo
	}
	cmd.Env = append(os.Environ(), "VERIF_REPLAY_IN="+in, "VERIF_REPLAY_OUT="+outp, fmt.Sprintf("VERIF_SEED=%d", nr.seed),
		"GORACE=halt_on_error=1 exitcode=66")
	co, rerr := cmd.CombinedOutput()
	raced := strings.Contains(string(co), "WARNING: DATA RACE")
	if ob, e := os.ReadFile(outp); e == nil {
		var outs []nativeOutcome
		if json.Unmarshal(ob, &outs) == nil && len(outs) == 1 {
			o := outs[0]
			if raced && !containsStr(o.Failed, raceLabel) {
				o.Failed = append(o.Failed, raceLabel)
			}
			return o, nil
		}
	}
	if raced {
		rep := string(co)
		if i := strings.Index(rep, "WARNING: DATA RACE"); i >= 0 {
			rep = rep[i:]
		}
		if len(rep) > 4000 {
			rep = rep[:4000]
		}
		os.WriteFile(filepath.Join(dir, "last_race_report.txt"), []byte(rep), 0644)
		return nativeOutcome{ID: c.ID, Harness: c.Harness, Failed: []string{raceLabel}, Runs: 1}, nil
	}
	return nativeOutcome{}, fmt.Errorf("race-mode replay produced no output (%v): %s", rerr, firstLine(string(co)))
}

// ---- evidence ----

type harnessEvidence struct {
	*ssaexec.HarnessResult
	Tier              string   `json:"tier"`
	Solver            string   `json:"solver"`
	Clean             bool     `json:"clean"`
	MissingReach      []string `json:"missing_reach_labels,omitempty"`
	Confirmed         int      `json:"confirmed_counterexamples"`
	Unconfirmed       int      `json:"unconfirmed_counterexamples"`
	KnownMatched      []string `json:"known_findings_matched,omitempty"`
	TracesValidated   int      `json:"traces_validated_against_impl"`
	TraceMismatches   []string `json:"trace_mismatches,omitempty"`
	Note              string   `json:"note,omitempty"`
}

func containsStr(l []string, s string) bool {
	for _, x := range l {
		if x == s {
			return true
		}
	}
	return false
}

func runCheck(args []string) int {
	t0 := time.Now()
	verif := "/verif"
	repo := "/repo"
	tier := "quick"
	if t := os.Getenv("VERIF_TIER"); t == "thorough" || t == "quick" {
		tier = t
	}
	var prop, replay string
	nw := 16
	only := ""
	verbose := false
	for i := 0; i < len(args); i++ {
		switch args[i] {
		case "--tier":
			i++
			tier = args[i]
		case "--replay":
			i++
			replay = args[i]
		case "-j":
			i++
			nw, _ = strconv.Atoi(args[i])
		case "--only":
			i++
			only = args[i]
		case "-v":
			verbose = true
		case "--repo":
			i++
			repo = args[i]
		default:
			prop = args[i]
		}
	}
	seed := 0
	if s := os.Getenv("VERIF_SEED"); s != "" {
		seed, _ = strconv.Atoi(s)
	}
	hdir := filepath.Join(verif, "harness")
	all, err := discover(hdir)
	if err != nil {
		fmt.Fprintln(os.Stderr, "discover:", err)
		return 2
	}
	nr := &nativeRunner{verif: verif, repo: repo, hdir: hdir, all: all, bins: map[string]string{}, buildErr: map[string]string{}, seed: seed}
	if replay != "" {
		return runReplay(nr, replay)
	}
	hs := all[prop]
	if len(hs) == 0 {
		fmt.Fprintf(os.Stderr, "no harness for property %q\n", prop)
		return 2
	}
	settings := map[string]hSettings{}
	loadJSON(filepath.Join(hdir, "registry.json"), &settings)
	known := loadKnown(filepath.Join(verif, "known_findings.jsonl"))

	pkgSet := map[string]bool{}
	var patterns []string
	for _, h := range hs {
		if !pkgSet[h.PkgRel] {
			pkgSet[h.PkgRel] = true
			patterns = append(patterns, modPath+"/"+h.PkgRel)
		}
	}
	sort.Strings(patterns)
	eng, err := ssaexec.Load(ssaexec.LoadConfig{RepoDir: repo, Patterns: patterns, Overlay: overlay(hdir, repo), Tags: []string{"verif"}})
	if err != nil {
		fmt.Fprintln(os.Stderr, "load failed (repository does not build with harness overlay):", err)
		return 2
	}
	eng.Verbose = verbose
	eng.Thorough = tier == "thorough"
	eng.Seed = seed
	machines, problems := eng.Machines(nw)
	for _, p := range problems {
		fmt.Fprintln(os.Stderr, "init problem:", p)
	}

	sort.Slice(hs, func(i, j int) bool { return hs[i].Name < hs[j].Name })
	var evs []*harnessEvidence
	violations := 0
	var violationLines, knownLines, inconclLines []string
	totalPaths, totalTrans, totalTraces := 0, 0, 0
	var samples []interface{}
	funcsAll := map[string]bool{}
	stubsAll := map[string]bool{}
	allClean := true
	var solverMs int64
	queries := 0

	for _, h := range hs {
		st := settings[h.Name]
		if st.Tier == "thorough" && tier != "thorough" {
			continue
		}
		if only != "" && !strings.Contains(h.Name, only) {
			continue
		}
		b := ssaexec.DefaultBounds()
		if st.MaxPaths > 0 {
			b.MaxPaths = st.MaxPaths
		}
		if tier == "thorough" && st.MaxPathsT > 0 {
			b.MaxPaths = st.MaxPathsT
		}
		if st.MaxSteps > 0 {
			b.MaxSteps = st.MaxSteps
		}
		if st.MaxDec > 0 {
			b.MaxDecisions = st.MaxDec
		}
		if st.MaxDepth > 0 {
			b.MaxDepth = st.MaxDepth
		}
		eng.SolverKind = "z3"
		if st.Solver != "" {
			eng.SolverKind = st.Solver
		}
		eng.TimeoutMs = 30000
		if st.TimeoutMs > 0 {
			eng.TimeoutMs = st.TimeoutMs
		}
		pkgPath := modPath + "/" + h.PkgRel
		hr := eng.Explore(pkgPath, h.Name, b, nw, machines)
		ev := &harnessEvidence{HarnessResult: hr, Tier: tier, Solver: eng.SolverKind, Note: st.Note}
		evs = append(evs, ev)
		for _, l := range h.Labels {
			if hr.Reach[l] == 0 {
				ev.MissingReach = append(ev.MissingReach, l)
			}
		}
		// --- confirm counterexamples natively ---
		var cases []nativeCase
		rep := st.Repeat
		if rep == 0 {
			rep = 1
		}
		perLabel := map[string]int{}
		for i, ce := range hr.CEs {
			if rep > 100 || strings.HasPrefix(ce.Message, "did not terminate") {
				// many repetitions per case, or cases that natively run into the
				// watchdog (seconds each): a few counterexamples per label are
				// enough (confirmation is per label)
				perLabel[ce.Label]++
				if perLabel[ce.Label] > 2 {
					continue
				}
			}
			cases = append(cases, nativeCase{Harness: h.Name, Vector: ce.Vector, Thorough: tier == "thorough", Repeat: rep, ID: fmt.Sprintf("ce%d", i), Race: st.Race})
		}
		prRep := rep
		if prRep > 50 {
			prRep = 50 // sampled paths are expected to pass: repeating them is only a flake check
		}
		for i, p := range hr.Predictions {
			cases = append(cases, nativeCase{Harness: h.Name, Vector: p.Vector, Thorough: tier == "thorough", Repeat: prRep, ID: fmt.Sprintf("pr%d", i), Race: st.Race})
		}
		outs, nerr := nr.run(h.PkgRel, cases)
		if nerr != nil {
			ev.Note += " native replay unavailable: " + nerr.Error()
			inconclLines = append(inconclLines, fmt.Sprintf("INCONCLUSIVE harness=%s native replay unavailable: %v", h.Name, firstLine(nerr.Error())))
		}
		byID := map[string]nativeOutcome{}
		for _, o := range outs {
			byID[o.ID] = o
		}
		seenKey := map[string]bool{}
		// first pass: which labels have at least one natively confirmed counterexample
		confirmedByLabel := map[string]bool{}
		isConfirmed := func(i int, ce ssaexec.CounterExample) (bool, nativeOutcome) {
			o, ok := byID[fmt.Sprintf("ce%d", i)]
			if !ok {
				return false, o
			}
			if ce.Kind == "assert" {
				return containsStr(o.Failed, ce.Label), o
			}
			return o.Panic != "", o
		}
		for i, ce := range hr.CEs {
			if c, _ := isConfirmed(i, ce); c {
				confirmedByLabel[ce.Label] = true
			}
		}
		for i, ce := range hr.CEs {
			confirmed, o := isConfirmed(i, ce)
			if !confirmed {
				if confirmedByLabel[ce.Label] {
					// another counterexample of the same assertion reproduces; this one is
					// not observable natively (e.g. the OS refuses the operation)
					continue
				}
				ev.Unconfirmed++
				fmt.Printf("UNCONFIRMED harness=%s label=%s (native: failed=%v panic=%q infeasible=%v)\n", h.Name, ce.Label, o.Failed, o.Panic, o.Infeasible)
				continue
			}
			ev.Confirmed++
			msg := ce.Message
			if ce.Kind == "panic" {
				msg = o.Panic
			}
			// known finding?
			var kf *knownFinding
			for k := range known {
				kk := &known[k]
				if kk.Property != prop || kk.Harness != h.Name || kk.Label != ce.Label {
					continue
				}
				if kk.Match != "" {
					if ok, _ := regexp.MatchString(kk.Match, msg); !ok {
						continue
					}
				}
				kf = kk
				break
			}
			key := h.Name + "/" + ce.Label
			if kf != nil {
				if !seenKey[key] {
					seenKey[key] = true
					knownLines = append(knownLines, fmt.Sprintf("KNOWN-FINDING: property=%s %s [%s]", prop, kf.What, key))
					ev.KnownMatched = append(ev.KnownMatched, key)
				}
				continue
			}
			// new violation: write replay file
			rdir := filepath.Join(verif, "out", "replay", prop)
			os.MkdirAll(rdir, 0755)
			rp := filepath.Join(rdir, fmt.Sprintf("%s_%s_%d.json", h.Name, sanitize(ce.Label), i))
			rb, _ := json.MarshalIndent(map[string]interface{}{
				"property": prop, "harness": h.Name, "pkg": h.PkgRel, "label": ce.Label, "kind": ce.Kind,
				"message": msg, "vector": ce.Vector, "thorough": tier == "thorough", "repeat": rep, "race": st.Race, "where": ce.Where,
			}, "", " ")
			os.WriteFile(rp, rb, 0644)
			violations++
			if !seenKey[key] {
				seenKey[key] = true
				violationLines = append(violationLines, fmt.Sprintf("VIOLATION property=%s replay=%s  (%s %s: %s)", prop, rp, h.Name, ce.Label, firstLine(msg)))
			}
		}
		// --- translator validation ---
		for i, p := range hr.Predictions {
			o, ok := byID[fmt.Sprintf("pr%d", i)]
			if !ok {
				continue
			}
			good := !o.Infeasible && o.Panic == "" && len(o.Failed) == 0 && len(o.Observed) == len(p.Observed)
			if good {
				for k := range p.Observed {
					if strings.HasSuffix(p.Observed[k], "=?") {
						continue
					}
					if p.Observed[k] != o.Observed[k] {
						good = false
					}
				}
			}
			if good {
				ev.TracesValidated++
			} else {
				ev.TraceMismatches = append(ev.TraceMismatches, fmt.Sprintf("vector=%v predicted=%v native: observed=%v failed=%v panic=%q infeasible=%v", p.Vector, p.Observed, o.Observed, o.Failed, o.Panic, o.Infeasible))
			}
		}
		ev.Clean = hr.Unwind == 0 && len(hr.Unsupported) == 0 && len(hr.Traps) == 0 && len(hr.Faults) == 0 && len(hr.Inconcl) == 0 &&
			!hr.PathsCapped && len(ev.MissingReach) == 0 && ev.Unconfirmed == 0 && len(ev.TraceMismatches) == 0 && hr.SolverErrs == 0
		if !ev.Clean {
			allClean = false
			why := []string{}
			if hr.Unwind > 0 {
				why = append(why, fmt.Sprintf("unwinding_failures=%d", hr.Unwind))
			}
			if len(hr.Unsupported) > 0 {
				why = append(why, "unsupported: "+firstLine(hr.Unsupported[0]))
			}
			if len(hr.Faults) > 0 {
				why = append(why, "engine fault: "+firstLine(hr.Faults[0]))
			}
			if len(hr.Traps) > 0 {
				why = append(why, strings.Join(hr.Traps, "; "))
			}
			if len(hr.Inconcl) > 0 {
				why = append(why, "solver inconclusive: "+firstLine(hr.Inconcl[0]))
			}
			if hr.PathsCapped {
				why = append(why, "path cap reached")
			}
			if len(ev.MissingReach) > 0 {
				why = append(why, "vacuity: unreached labels "+strings.Join(ev.MissingReach, ","))
			}
			if ev.Unconfirmed > 0 {
				why = append(why, fmt.Sprintf("unconfirmed counterexamples=%d", ev.Unconfirmed))
			}
			if len(ev.TraceMismatches) > 0 {
				why = append(why, "translator validation mismatch: "+firstLine(ev.TraceMismatches[0]))
			}
			if hr.SolverErrs > 0 {
				why = append(why, fmt.Sprintf("solver errors=%d", hr.SolverErrs))
			}
			inconclLines = append(inconclLines, fmt.Sprintf("INCONCLUSIVE harness=%s %s", h.Name, strings.Join(why, "; ")))
		}
		totalPaths += hr.Paths
		totalTrans += hr.Decisions + hr.Queries
		totalTraces += ev.TracesValidated
		solverMs += hr.SolverMs
		queries += hr.Queries
		for _, s := range hr.Samples {
			if len(samples) < 12 {
				samples = append(samples, map[string]interface{}{"harness": h.Name, "path_input_model": s})
			}
		}
		for _, f := range hr.Funcs {
			funcsAll[f] = true
		}
		for _, f := range hr.Stubs {
			stubsAll[f] = true
		}
		fmt.Printf("harness %-44s paths=%-6d queries=%-6d ces=%d confirmed=%d clean=%v %dms\n", h.Name, hr.Paths, hr.Queries, len(hr.CEs), ev.Confirmed, ev.Clean, hr.WallMs)
	}
	for _, l := range inconclLines {
		fmt.Println(l)
	}
	for _, l := range knownLines {
		fmt.Println(l)
	}
	for _, l := range violationLines {
		fmt.Println(l)
	}
	// evidence
	if len(samples) == 0 {
		samples = append(samples, "no path produced a sample")
	}
	var funcs, stubs []string
	for f := range funcsAll {
		if !strings.Contains(f, "internal/verifrt") {
			funcs = append(funcs, f)
		}
	}
	sort.Strings(funcs)
	for f := range stubsAll {
		stubs = append(stubs, f)
	}
	sort.Strings(stubs)
	var assumptions []string
	loadJSON(filepath.Join(hdir, "assumptions_"+prop+".json"), &assumptions)
	assumptions = append(assumptions,
		"bounded symbolic execution: verdict covers all input values within each harness's stated bounds, nothing outside",
		"go/ssa (x/tools v0.29.0) translation of the current /repo working tree is the program that was executed",
		"engine models listed under stubs_used are trusted and validated only by native replay of sampled paths")
	ev := map[string]interface{}{
		"property_id": prop,
		"tier":        tier,
		"seed":        seed,
		"level":       "model_checking",
		"coverage": map[string]interface{}{
			"states":                        max1(totalPaths),
			"transitions":                   max1(totalTrans),
			"traces_validated_against_impl": totalTraces,
			"samples":                       samples,
			"exhaustive":                    allClean,
			"explanation":                   "states = symbolic paths explored (each covers every input satisfying its path condition); transitions = symbolic decisions + solver queries",
			"harnesses":                     evs,
			"functions_encoded":             funcs,
			"stubs_used":                    stubs,
			"solver_queries":                queries,
			"solver_ms":                     solverMs,
			"load_ms":                       eng.LoadTime.Milliseconds(),
			"known_findings_matched":        knownLines,
		},
		"assumptions": assumptions,
		"wall_s":      time.Since(t0).Seconds(),
		"violations":  violations,
	}
	eb, _ := json.MarshalIndent(ev, "", " ")
	os.MkdirAll(filepath.Join(verif, "evidence"), 0755)
	os.WriteFile(filepath.Join(verif, "evidence", prop+".json"), eb, 0644)
	fmt.Printf("property %s tier=%s paths=%d violations=%d known=%d clean=%v wall=%.1fs\n", prop, tier, totalPaths, violations, len(knownLines), allClean, time.Since(t0).Seconds())
	if violations > 0 {
		return 1
	}
	return 0
}

func max1(n int) int {
	if n < 1 {
		return 1
	}
	return n
}

func firstLine(s string) string {
	if i := strings.IndexByte(s, '\n'); i >= 0 {
		s = s[:i]
	}
	if len(s) > 300 {
		s = s[:300]
	}
	return s
}

func sanitize(s string) string {
	var sb strings.Builder
	for _, c := range s {
		if (c >= 'a' && c <= 'z') || (c >= 'A' && c <= 'Z') || (c >= '0' && c <= '9') || c == '-' || c == '_' {
			sb.WriteRune(c)
		} else {
			sb.WriteByte('_')
		}
	}
	if sb.Len() > 60 {
		return sb.String()[:60]
	}
	return sb.String()
}

func runReplay(nr *nativeRunner, path string) int {
	var rf struct {
		Property string               `json:"property"`
		Harness  string               `json:"harness"`
		Pkg      string               `json:"pkg"`
		Label    string               `json:"label"`
		Kind     string               `json:"kind"`
		Vector   []ssaexec.ReplayItem `json:"vector"`
		Thorough bool                 `json:"thorough"`
		Repeat   int                  `json:"repeat"`
		Race     bool                 `json:"race"`
	}
	b, err := os.ReadFile(path)
	if err != nil {
		fmt.Fprintln(os.Stderr, err)
		return 2
	}
	if err := json.Unmarshal(b, &rf); err != nil {
		fmt.Fprintln(os.Stderr, err)
		return 2
	}
	outs, err := nr.run(rf.Pkg, []nativeCase{{Harness: rf.Harness, Vector: rf.Vector, Thorough: rf.Thorough, Repeat: rf.Repeat, ID: "r", Race: rf.Race}})
	if err != nil {
		fmt.Fprintln(os.Stderr, err)
		return 2
	}
	o := outs[0]
	ob, _ := json.MarshalIndent(o, "", " ")
	fmt.Println(string(ob))
	if (rf.Kind == "assert" && containsStr(o.Failed, rf.Label)) || (rf.Kind == "panic" && o.Panic != "") {
		fmt.Printf("VIOLATION property=%s replay=%s\n", rf.Property, path)
		return 1
	}
	fmt.Println("not reproduced")
	return 0
}
