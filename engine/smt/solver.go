package smt

import (
	"bufio"
	"fmt"
	"io"
	"os"
	"os/exec"
	"strconv"
	"strings"
	"time"
)

type Result int

const (
	Unknown Result = iota
	Sat
	Unsat
)

func (r Result) String() string { return [...]string{"unknown", "sat", "unsat"}[r] }

// Solver is a persistent SMT-LIB2 process in print-success mode.
type Solver struct {
	Kind    string // z3 | z3-new | cvc5
	cmd     *exec.Cmd
	in      io.WriteCloser
	out     *bufio.Reader
	pending int
	buf     strings.Builder
	Queries int
	Errors  int
	Time    time.Duration
	Log     io.Writer
	timeout int
	dead    bool
	LastErr string
	syncN   int
}

func Start(kind string, timeoutMs int) (*Solver, error) {
	s := &Solver{Kind: kind, timeout: timeoutMs}
	if p := os.Getenv("GOSYM_SMTLOG"); p != "" {
		f, _ := os.OpenFile(p, os.O_CREATE|os.O_WRONLY|os.O_APPEND, 0644)
		s.Log = f
	}
	if err := s.start(); err != nil {
		return nil, err
	}
	return s, nil
}

func (s *Solver) start() error {
	var c *exec.Cmd
	switch s.Kind {
	case "z3":
		c = exec.Command("z3", "-in", "-smt2")
	case "z3-new":
		c = exec.Command("z3-new", "-in", "-smt2")
	case "cvc5":
		c = exec.Command("cvc5", "--incremental", "--produce-models", "--lang", "smt2",
			fmt.Sprintf("--tlimit-per=%d", s.timeout))
	default:
		return fmt.Errorf("unknown solver %q", s.Kind)
	}
	in, err := c.StdinPipe()
	if err != nil {
		return err
	}
	out, err := c.StdoutPipe()
	if err != nil {
		return err
	}
	c.Stderr = nil
	if err := c.Start(); err != nil {
		return err
	}
	s.cmd, s.in, s.out = c, in, bufio.NewReaderSize(out, 1<<16)
	s.pending = 0
	s.buf.Reset()
	s.dead = false
	s.preamble()
	return nil
}

func (s *Solver) preamble() {
	if s.Kind == "cvc5" {
		s.Cmd("(set-logic ALL)")
	} else {
		s.Cmd(fmt.Sprintf("(set-option :timeout %d)", s.timeout))
	}
}

func (s *Solver) raw(t string) {
	s.buf.WriteString(t)
}

// Cmd queues one command (exactly one top-level s-expression).
func (s *Solver) Cmd(t string) {
	s.buf.WriteString(t)
	s.buf.WriteByte('\n')
	s.pending++
}

// Cmds queues text containing n commands.
func (s *Solver) Cmds(t string, n int) {
	s.buf.WriteString(t)
	s.pending += n
}

func (s *Solver) flush() error {
	if s.dead {
		return fmt.Errorf("solver dead")
	}
	if s.pending == 0 && s.buf.Len() == 0 {
		return nil
	}
	s.syncN++
	mark := fmt.Sprintf("SYNC-%d", s.syncN)
	s.buf.WriteString("(echo \"" + mark + "\")\n")
	txt := s.buf.String()
	s.buf.Reset()
	s.pending = 0
	if s.Log != nil {
		io.WriteString(s.Log, txt)
	}
	if _, err := io.WriteString(s.in, txt); err != nil {
		s.dead = true
		return err
	}
	var firstErr error
	for {
		line, err := s.readResp()
		if err != nil {
			s.dead = true
			return err
		}
		if strings.Trim(line, "\"") == mark {
			break
		}
		if line == "success" {
			continue
		}
		s.Errors++
		s.LastErr = line
		if firstErr == nil {
			firstErr = fmt.Errorf("solver: %s", line)
		}
	}
	return firstErr
}

func (s *Solver) readResp() (string, error) {
	var sb strings.Builder
	depth := 0
	for {
		line, err := s.out.ReadString('\n')
		if err != nil {
			return sb.String(), err
		}
		t := strings.TrimSpace(line)
		if t == "" && sb.Len() == 0 {
			continue
		}
		inStr := false
		for _, c := range t {
			switch {
			case c == '"':
				inStr = !inStr
			case inStr:
			case c == '(':
				depth++
			case c == ')':
				depth--
			}
		}
		if sb.Len() > 0 {
			sb.WriteByte(' ')
		}
		sb.WriteString(t)
		if depth <= 0 {
			return sb.String(), nil
		}
	}
}

// CheckSat flushes queued commands and runs (check-sat).
func (s *Solver) CheckSat() (Result, error) { return s.CheckSatAssuming("") }

// CheckSatAssuming runs (check-sat-assuming (lit)) or (check-sat) when lit is empty.
func (s *Solver) CheckSatAssuming(lit string) (Result, error) {
	t0 := time.Now()
	defer func() { s.Time += time.Since(t0); s.Queries++ }()
	if err := s.flush(); err != nil {
		return Unknown, err
	}
	cmd := "(check-sat)\n"
	if lit != "" {
		cmd = "(check-sat-assuming (" + lit + "))\n"
	}
	if s.Log != nil {
		io.WriteString(s.Log, cmd)
	}
	if _, err := io.WriteString(s.in, cmd); err != nil {
		s.dead = true
		return Unknown, err
	}
	r, err := s.readResp()
	if err != nil {
		s.dead = true
		return Unknown, err
	}
	if s.Log != nil {
		io.WriteString(s.Log, "; -> "+r+"\n")
	}
	switch r {
	case "sat":
		return Sat, nil
	case "unsat":
		return Unsat, nil
	case "unknown", "timeout":
		return Unknown, nil
	}
	s.Errors++
	s.LastErr = r
	return Unknown, fmt.Errorf("solver check-sat: %s", r)
}

// GetValues returns the model values of the named Bool/BV constants.
func (s *Solver) GetValues(names []string) (map[string]uint64, error) {
	res := map[string]uint64{}
	if len(names) == 0 {
		return res, nil
	}
	if err := s.flush(); err != nil {
		return nil, err
	}
	q := "(get-value (" + strings.Join(names, " ") + "))\n"
	if s.Log != nil {
		io.WriteString(s.Log, q)
	}
	if _, err := io.WriteString(s.in, q); err != nil {
		s.dead = true
		return nil, err
	}
	r, err := s.readResp()
	if err != nil {
		s.dead = true
		return nil, err
	}
	if s.Log != nil {
		io.WriteString(s.Log, "; -> "+r+"\n")
	}
	if strings.HasPrefix(r, "(error") {
		s.Errors++
		return nil, fmt.Errorf("solver get-value: %s", r)
	}
	// parse ((name val) (name val) ...)
	toks := tokenize(r)
	i := 0
	if i < len(toks) && toks[i] == "(" {
		i++
	}
	for i < len(toks) && toks[i] == "(" {
		i++
		name := toks[i]
		i++
		// value: atom or s-expr (skip)
		if toks[i] == "(" {
			// e.g. (_ bv5 8)
			d := 0
			var parts []string
			for ; i < len(toks); i++ {
				if toks[i] == "(" {
					d++
				} else if toks[i] == ")" {
					d--
				}
				parts = append(parts, toks[i])
				if d == 0 {
					i++
					break
				}
			}
			if len(parts) >= 4 && parts[1] == "_" && strings.HasPrefix(parts[2], "bv") {
				v, _ := strconv.ParseUint(parts[2][2:], 10, 64)
				res[name] = v
			}
		} else {
			v := toks[i]
			i++
			switch {
			case v == "true":
				res[name] = 1
			case v == "false":
				res[name] = 0
			case strings.HasPrefix(v, "#x"):
				u, _ := strconv.ParseUint(v[2:], 16, 64)
				res[name] = u
			case strings.HasPrefix(v, "#b"):
				u, _ := strconv.ParseUint(v[2:], 2, 64)
				res[name] = u
			}
		}
		if i < len(toks) && toks[i] == ")" {
			i++
		}
	}
	return res, nil
}

func tokenize(s string) []string {
	var toks []string
	i := 0
	for i < len(s) {
		c := s[i]
		switch {
		case c == '(' || c == ')':
			toks = append(toks, string(c))
			i++
		case c == ' ' || c == '\t' || c == '\n':
			i++
		default:
			j := i
			for j < len(s) && s[j] != '(' && s[j] != ')' && s[j] != ' ' {
				j++
			}
			toks = append(toks, s[i:j])
			i = j
		}
	}
	return toks
}

// Reset clears all solver state (restarting the process if needed).
func (s *Solver) Reset() error {
	if s.dead {
		s.Close()
		return s.start()
	}
	// queued commands were never sent: dropping them cannot desynchronise
	s.buf.Reset()
	s.pending = 0
	s.raw("(reset)\n")
	s.pending++
	s.preamble()
	return nil
}

func (s *Solver) Dead() bool { return s.dead }

func (s *Solver) Close() {
	if s.cmd != nil {
		s.in.Close()
		s.cmd.Process.Kill()
		s.cmd.Wait()
		s.cmd = nil
	}
}
