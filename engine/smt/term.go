// Package smt is a small hash-consed term library that prints SMT-LIB2.
// Bit-vectors up to 64 bits, Bool, IEEE floats (32/64), with constant folding.
package smt

import (
	"fmt"
	"math"
	"math/bits"
	"strings"
)

type SortKind uint8

const (
	KBool SortKind = iota
	KBV
	KFP
)

type Sort struct {
	Kind SortKind
	W    int // bit-vector width, or total FP width (32/64)
}

var (
	Bool = Sort{KBool, 0}
	F64  = Sort{KFP, 64}
	F32  = Sort{KFP, 32}
)

func BV(w int) Sort { return Sort{KBV, w} }

func (s Sort) String() string {
	switch s.Kind {
	case KBool:
		return "Bool"
	case KBV:
		return fmt.Sprintf("(_ BitVec %d)", s.W)
	case KFP:
		if s.W == 32 {
			return "(_ FloatingPoint 8 24)"
		}
		return "(_ FloatingPoint 11 53)"
	}
	return "?"
}

type Op uint8

const (
	OConst Op = iota
	OVar
	ONot
	OAnd
	OOr
	OEq
	OIte
	OBVNeg
	OBVNot
	OBVAdd
	OBVSub
	OBVMul
	OBVUDiv
	OBVURem
	OBVSDiv
	OBVSRem
	OBVAnd
	OBVOr
	OBVXor
	OBVShl
	OBVLshr
	OBVAshr
	OBVUlt
	OBVUle
	OBVSlt
	OBVSle
	OConcat
	OExtract // P1=hi P2=lo
	OZext    // P1=extra bits
	OSext    // P1=extra bits
	OFPAdd
	OFPSub
	OFPMul
	OFPDiv
	OFPNeg
	OFPAbs
	OFPEq
	OFPLt
	OFPLe
	OFPIsNaN
	OFPIsInf
	OFPFromSBV // to_fp from signed bv
	OFPFromUBV
	OFPToSBV // P1 = width (RTZ)
	OFPToUBV
	OFPToFP  // fp->fp conversion (RNE)
	OFPFromBits
	OFPRound // fp.roundToIntegral, P1 = mode (0 RNA, 1 RNE, 2 RTZ, 3 RTP, 4 RTN)
	OUF // uninterpreted function application: Name, Args
	OFPStructEq
)

var opNames = map[Op]string{
	ONot: "not", OAnd: "and", OOr: "or", OEq: "=", OIte: "ite",
	OBVNeg: "bvneg", OBVNot: "bvnot", OBVAdd: "bvadd", OBVSub: "bvsub", OBVMul: "bvmul",
	OBVUDiv: "bvudiv", OBVURem: "bvurem", OBVSDiv: "bvsdiv", OBVSRem: "bvsrem",
	OBVAnd: "bvand", OBVOr: "bvor", OBVXor: "bvxor", OBVShl: "bvshl", OBVLshr: "bvlshr", OBVAshr: "bvashr",
	OBVUlt: "bvult", OBVUle: "bvule", OBVSlt: "bvslt", OBVSle: "bvsle", OConcat: "concat",
	OFPNeg: "fp.neg", OFPAbs: "fp.abs", OFPEq: "fp.eq", OFPLt: "fp.lt", OFPLe: "fp.leq",
	OFPIsNaN: "fp.isNaN", OFPIsInf: "fp.isInfinite", OFPStructEq: "=",
}

type Term struct {
	Op   Op
	Args []*Term
	Sort Sort
	U    uint64 // BV const value (masked), Bool const (0/1), FP const bits
	Name string
	P1   int
	P2   int
	ID   int
}

func (t *Term) IsConst() bool { return t.Op == OConst }
func (t *Term) IsTrue() bool  { return t.Op == OConst && t.Sort.Kind == KBool && t.U == 1 }
func (t *Term) IsFalse() bool { return t.Op == OConst && t.Sort.Kind == KBool && t.U == 0 }

// Factory hash-conses terms. Not safe for concurrent use.
type Factory struct {
	tab    map[string]*Term
	nextID int
	Vars   []*Term // declared variables in order
	UFs    map[string]string // name -> declaration
	UFOrder []string
}

func NewFactory() *Factory {
	return &Factory{tab: map[string]*Term{}, UFs: map[string]string{}}
}

func (f *Factory) intern(t *Term) *Term {
	var sb strings.Builder
	fmt.Fprintf(&sb, "%d|%d|%d|%x|%s|%d|%d", t.Op, t.Sort.Kind, t.Sort.W, t.U, t.Name, t.P1, t.P2)
	for _, a := range t.Args {
		fmt.Fprintf(&sb, "|%d", a.ID)
	}
	k := sb.String()
	if x, ok := f.tab[k]; ok {
		return x
	}
	f.nextID++
	t.ID = f.nextID
	f.tab[k] = t
	return t
}

func mask(w int) uint64 {
	if w >= 64 {
		return ^uint64(0)
	}
	return (uint64(1) << uint(w)) - 1
}

func sext(v uint64, w int) int64 {
	if w >= 64 {
		return int64(v)
	}
	sh := uint(64 - w)
	return int64(v<<sh) >> sh
}

func (f *Factory) BoolConst(b bool) *Term {
	u := uint64(0)
	if b {
		u = 1
	}
	return f.intern(&Term{Op: OConst, Sort: Bool, U: u})
}

func (f *Factory) BVConst(v uint64, w int) *Term {
	return f.intern(&Term{Op: OConst, Sort: BV(w), U: v & mask(w)})
}

func (f *Factory) FPConst64(x float64) *Term {
	return f.intern(&Term{Op: OConst, Sort: F64, U: math.Float64bits(x)})
}
func (f *Factory) FPConst32(x float32) *Term {
	return f.intern(&Term{Op: OConst, Sort: F32, U: uint64(math.Float32bits(x))})
}

func (f *Factory) Var(name string, s Sort) *Term {
	t := f.intern(&Term{Op: OVar, Sort: s, Name: name})
	if t.ID == f.nextID { // new
		seen := false
		for _, v := range f.Vars {
			if v == t {
				seen = true
			}
		}
		if !seen {
			f.Vars = append(f.Vars, t)
		}
	}
	return t
}

// UF applies an uninterpreted function (congruence only).
func (f *Factory) UF(name string, ret Sort, args ...*Term) *Term {
	if _, ok := f.UFs[name]; !ok {
		var sb strings.Builder
		fmt.Fprintf(&sb, "(declare-fun %s (", name)
		for i, a := range args {
			if i > 0 {
				sb.WriteByte(' ')
			}
			sb.WriteString(a.Sort.String())
		}
		fmt.Fprintf(&sb, ") %s)", ret.String())
		f.UFs[name] = sb.String()
		f.UFOrder = append(f.UFOrder, name)
	}
	return f.intern(&Term{Op: OUF, Sort: ret, Name: name, Args: args})
}

func (f *Factory) mk(op Op, s Sort, args ...*Term) *Term {
	return f.intern(&Term{Op: op, Sort: s, Args: args})
}

// ---------- Bool ----------

func (f *Factory) Not(a *Term) *Term {
	if a.IsConst() {
		return f.BoolConst(a.U == 0)
	}
	if a.Op == ONot {
		return a.Args[0]
	}
	return f.mk(ONot, Bool, a)
}

func (f *Factory) And(a, b *Term) *Term {
	if a.IsConst() {
		if a.U == 0 {
			return a
		}
		return b
	}
	if b.IsConst() {
		if b.U == 0 {
			return b
		}
		return a
	}
	if a == b {
		return a
	}
	return f.mk(OAnd, Bool, a, b)
}

func (f *Factory) Or(a, b *Term) *Term {
	if a.IsConst() {
		if a.U == 1 {
			return a
		}
		return b
	}
	if b.IsConst() {
		if b.U == 1 {
			return b
		}
		return a
	}
	if a == b {
		return a
	}
	return f.mk(OOr, Bool, a, b)
}

func (f *Factory) Implies(a, b *Term) *Term { return f.Or(f.Not(a), b) }

func (f *Factory) Eq(a, b *Term) *Term {
	if a.Sort != b.Sort {
		panic(fmt.Sprintf("smt.Eq sort mismatch %v %v", a.Sort, b.Sort))
	}
	if a.Sort.Kind == KFP {
		panic("smt.Eq on FP: use FPEq or bit equality")
	}
	if a == b {
		return f.BoolConst(true)
	}
	if a.IsConst() && b.IsConst() {
		return f.BoolConst(a.U == b.U)
	}
	if a.Sort.Kind == KBool {
		if a.IsConst() {
			if a.U == 1 {
				return b
			}
			return f.Not(b)
		}
		if b.IsConst() {
			if b.U == 1 {
				return a
			}
			return f.Not(a)
		}
	}
	if b.IsConst() && !a.IsConst() {
		a, b = b, a
	}
	// (= c (ite p x y)) with const branches
	if a.IsConst() && b.Op == OIte && b.Args[1].IsConst() && b.Args[2].IsConst() {
		return f.Ite(b.Args[0], f.Eq(a, b.Args[1]), f.Eq(a, b.Args[2]))
	}
	return f.mk(OEq, Bool, a, b)
}

func (f *Factory) Ite(c, a, b *Term) *Term {
	if a.Sort != b.Sort {
		panic(fmt.Sprintf("smt.Ite sort mismatch %v %v", a.Sort, b.Sort))
	}
	if c.IsConst() {
		if c.U == 1 {
			return a
		}
		return b
	}
	if a == b {
		return a
	}
	if a.Sort.Kind == KBool {
		if a.IsConst() && b.IsConst() {
			if a.U == 1 {
				return c
			}
			return f.Not(c)
		}
		if a.IsConst() {
			if a.U == 1 {
				return f.Or(c, b)
			}
			return f.And(f.Not(c), b)
		}
		if b.IsConst() {
			if b.U == 1 {
				return f.Or(f.Not(c), a)
			}
			return f.And(c, a)
		}
	}
	return f.mk(OIte, a.Sort, c, a, b)
}

// ---------- BV ----------

func (f *Factory) bvBin(op Op, a, b *Term) *Term {
	if a.Sort != b.Sort || a.Sort.Kind != KBV {
		panic(fmt.Sprintf("smt bv op %d sort mismatch %v %v", op, a.Sort, b.Sort))
	}
	w := a.Sort.W
	if a.IsConst() && b.IsConst() {
		x, y := a.U, b.U
		var r uint64
		switch op {
		case OBVAdd:
			r = x + y
		case OBVSub:
			r = x - y
		case OBVMul:
			r = x * y
		case OBVAnd:
			r = x & y
		case OBVOr:
			r = x | y
		case OBVXor:
			r = x ^ y
		case OBVUDiv:
			if y == 0 {
				r = mask(w)
			} else {
				r = x / y
			}
		case OBVURem:
			if y == 0 {
				r = x
			} else {
				r = x % y
			}
		case OBVSDiv:
			sx, sy := sext(x, w), sext(y, w)
			if sy == 0 {
				if sx < 0 {
					r = 1
				} else {
					r = mask(w)
				}
			} else if sy == -1 {
				r = uint64(-sx)
			} else {
				r = uint64(sx / sy)
			}
		case OBVSRem:
			sx, sy := sext(x, w), sext(y, w)
			if sy == 0 {
				r = x
			} else if sy == -1 {
				r = 0
			} else {
				r = uint64(sx % sy)
			}
		case OBVShl:
			if y >= uint64(w) {
				r = 0
			} else {
				r = x << y
			}
		case OBVLshr:
			if y >= uint64(w) {
				r = 0
			} else {
				r = x >> y
			}
		case OBVAshr:
			sx := sext(x, w)
			if y >= uint64(w) {
				if sx < 0 {
					r = mask(w)
				} else {
					r = 0
				}
			} else {
				r = uint64(sx >> y)
			}
		default:
			panic("bvBin fold")
		}
		return f.BVConst(r, w)
	}
	// light simplifications
	switch op {
	case OBVAdd, OBVOr, OBVXor:
		if a.IsConst() && a.U == 0 {
			return b
		}
		if b.IsConst() && b.U == 0 {
			return a
		}
	case OBVSub, OBVShl, OBVLshr, OBVAshr:
		if b.IsConst() && b.U == 0 {
			return a
		}
	case OBVAnd:
		if a.IsConst() && a.U == mask(w) {
			return b
		}
		if b.IsConst() && b.U == mask(w) {
			return a
		}
		if (a.IsConst() && a.U == 0) || (b.IsConst() && b.U == 0) {
			return f.BVConst(0, w)
		}
	case OBVMul:
		if a.IsConst() && a.U == 1 {
			return b
		}
		if b.IsConst() && b.U == 1 {
			return a
		}
		if (a.IsConst() && a.U == 0) || (b.IsConst() && b.U == 0) {
			return f.BVConst(0, w)
		}
	}
	if a == b {
		switch op {
		case OBVSub, OBVXor:
			return f.BVConst(0, w)
		case OBVAnd, OBVOr:
			return a
		}
	}
	return f.mk(op, a.Sort, a, b)
}

func (f *Factory) BVAdd(a, b *Term) *Term  { return f.bvBin(OBVAdd, a, b) }
func (f *Factory) BVSub(a, b *Term) *Term  { return f.bvBin(OBVSub, a, b) }
func (f *Factory) BVMul(a, b *Term) *Term  { return f.bvBin(OBVMul, a, b) }
func (f *Factory) BVAnd(a, b *Term) *Term  { return f.bvBin(OBVAnd, a, b) }
func (f *Factory) BVOr(a, b *Term) *Term   { return f.bvBin(OBVOr, a, b) }
func (f *Factory) BVXor(a, b *Term) *Term  { return f.bvBin(OBVXor, a, b) }
func (f *Factory) BVUDiv(a, b *Term) *Term { return f.bvBin(OBVUDiv, a, b) }
func (f *Factory) BVURem(a, b *Term) *Term { return f.bvBin(OBVURem, a, b) }
func (f *Factory) BVSDiv(a, b *Term) *Term { return f.bvBin(OBVSDiv, a, b) }
func (f *Factory) BVSRem(a, b *Term) *Term { return f.bvBin(OBVSRem, a, b) }
func (f *Factory) BVShl(a, b *Term) *Term  { return f.bvBin(OBVShl, a, b) }
func (f *Factory) BVLshr(a, b *Term) *Term { return f.bvBin(OBVLshr, a, b) }
func (f *Factory) BVAshr(a, b *Term) *Term { return f.bvBin(OBVAshr, a, b) }

func (f *Factory) BVNeg(a *Term) *Term {
	if a.IsConst() {
		return f.BVConst(-a.U, a.Sort.W)
	}
	return f.mk(OBVNeg, a.Sort, a)
}
func (f *Factory) BVNot(a *Term) *Term {
	if a.IsConst() {
		return f.BVConst(^a.U, a.Sort.W)
	}
	return f.mk(OBVNot, a.Sort, a)
}

func (f *Factory) bvCmp(op Op, a, b *Term) *Term {
	if a.Sort != b.Sort || a.Sort.Kind != KBV {
		panic(fmt.Sprintf("smt bv cmp sort mismatch %v %v", a.Sort, b.Sort))
	}
	w := a.Sort.W
	if a.IsConst() && b.IsConst() {
		var r bool
		switch op {
		case OBVUlt:
			r = a.U < b.U
		case OBVUle:
			r = a.U <= b.U
		case OBVSlt:
			r = sext(a.U, w) < sext(b.U, w)
		case OBVSle:
			r = sext(a.U, w) <= sext(b.U, w)
		}
		return f.BoolConst(r)
	}
	if a == b {
		return f.BoolConst(op == OBVUle || op == OBVSle)
	}
	// range-based folding for zero-extended values vs constants
	if op == OBVUlt || op == OBVUle {
		if b.IsConst() && a.Op == OZext {
			iw := a.Args[0].Sort.W
			if b.U > mask(iw) {
				return f.BoolConst(true)
			}
		}
		if b.IsConst() && op == OBVUlt && b.U == 0 {
			return f.BoolConst(false)
		}
		if a.IsConst() && op == OBVUle && a.U == 0 {
			return f.BoolConst(true)
		}
	}
	if op == OBVSlt || op == OBVSle {
		// zero-extended value is non-negative and < 2^iw
		if a.Op == OZext && b.IsConst() {
			iw := a.Args[0].Sort.W
			sb := sext(b.U, w)
			if sb < 0 {
				return f.BoolConst(false)
			}
			if uint64(sb) > mask(iw) {
				return f.BoolConst(true)
			}
		}
		if b.Op == OZext && a.IsConst() {
			iw := b.Args[0].Sort.W
			sa := sext(a.U, w)
			if sa < 0 {
				return f.BoolConst(true)
			}
			if uint64(sa) > mask(iw) {
				return f.BoolConst(false)
			}
		}
	}
	return f.mk(op, Bool, a, b)
}

func (f *Factory) BVUlt(a, b *Term) *Term { return f.bvCmp(OBVUlt, a, b) }
func (f *Factory) BVUle(a, b *Term) *Term { return f.bvCmp(OBVUle, a, b) }
func (f *Factory) BVSlt(a, b *Term) *Term { return f.bvCmp(OBVSlt, a, b) }
func (f *Factory) BVSle(a, b *Term) *Term { return f.bvCmp(OBVSle, a, b) }

func (f *Factory) Extract(a *Term, hi, lo int) *Term {
	if a.Sort.Kind != KBV || hi >= a.Sort.W || lo < 0 || hi < lo {
		panic("smt.Extract bad range")
	}
	if lo == 0 && hi == a.Sort.W-1 {
		return a
	}
	if a.IsConst() {
		return f.BVConst(a.U>>uint(lo), hi-lo+1)
	}
	if (a.Op == OZext || a.Op == OSext) && lo == 0 {
		iw := a.Args[0].Sort.W
		if hi+1 == iw {
			return a.Args[0]
		}
		if hi+1 < iw {
			return f.Extract(a.Args[0], hi, 0)
		}
	}
	return f.intern(&Term{Op: OExtract, Sort: BV(hi - lo + 1), Args: []*Term{a}, P1: hi, P2: lo})
}

func (f *Factory) ZExt(a *Term, to int) *Term {
	w := a.Sort.W
	if to == w {
		return a
	}
	if to < w {
		panic("smt.ZExt shrink")
	}
	if a.IsConst() {
		return f.BVConst(a.U, to)
	}
	if a.Op == OZext {
		return f.ZExt(a.Args[0], to)
	}
	return f.intern(&Term{Op: OZext, Sort: BV(to), Args: []*Term{a}, P1: to - w})
}

func (f *Factory) SExt(a *Term, to int) *Term {
	w := a.Sort.W
	if to == w {
		return a
	}
	if to < w {
		panic("smt.SExt shrink")
	}
	if a.IsConst() {
		return f.BVConst(uint64(sext(a.U, w)), to)
	}
	if a.Op == OZext { // zero-extended value stays non-negative
		return f.ZExt(a.Args[0], to)
	}
	return f.intern(&Term{Op: OSext, Sort: BV(to), Args: []*Term{a}, P1: to - w})
}

func (f *Factory) Concat(hi, lo *Term) *Term {
	w := hi.Sort.W + lo.Sort.W
	if w > 64 {
		panic("smt.Concat >64")
	}
	if hi.IsConst() && lo.IsConst() {
		return f.BVConst(hi.U<<uint(lo.Sort.W)|lo.U, w)
	}
	return f.mk(OConcat, BV(w), hi, lo)
}

// ---------- FP ----------

func fpOf(t *Term) float64 {
	if t.Sort.W == 32 {
		return float64(math.Float32frombits(uint32(t.U)))
	}
	return math.Float64frombits(t.U)
}

func (f *Factory) fpConst(s Sort, x float64) *Term {
	if s.W == 32 {
		return f.FPConst32(float32(x))
	}
	return f.FPConst64(x)
}

func (f *Factory) FPBin(op Op, a, b *Term) *Term {
	if a.Sort != b.Sort || a.Sort.Kind != KFP {
		panic("smt fp op sort mismatch")
	}
	if a.IsConst() && b.IsConst() {
		x, y := fpOf(a), fpOf(b)
		var r float64
		if a.Sort.W == 32 {
			x32, y32 := float32(x), float32(y)
			switch op {
			case OFPAdd:
				r = float64(x32 + y32)
			case OFPSub:
				r = float64(x32 - y32)
			case OFPMul:
				r = float64(x32 * y32)
			case OFPDiv:
				r = float64(x32 / y32)
			}
		} else {
			switch op {
			case OFPAdd:
				r = x + y
			case OFPSub:
				r = x - y
			case OFPMul:
				r = x * y
			case OFPDiv:
				r = x / y
			}
		}
		return f.fpConst(a.Sort, r)
	}
	return f.mk(op, a.Sort, a, b)
}

func (f *Factory) FPNeg(a *Term) *Term {
	if a.IsConst() {
		return f.fpConst(a.Sort, -fpOf(a))
	}
	return f.mk(OFPNeg, a.Sort, a)
}

func (f *Factory) FPAbs(a *Term) *Term {
	if a.IsConst() {
		return f.fpConst(a.Sort, math.Abs(fpOf(a)))
	}
	return f.mk(OFPAbs, a.Sort, a)
}

var fpRoundModes = []string{"RNA", "RNE", "RTZ", "RTP", "RTN"}

// FPRound rounds a float to an integral value in the given mode
// (0 nearest-ties-away = math.Round, 1 nearest-even, 2 toward zero = Trunc,
// 3 up = Ceil, 4 down = Floor).
func (f *Factory) FPRound(a *Term, mode int) *Term {
	if a.IsConst() {
		x := fpOf(a)
		switch mode {
		case 0:
			x = math.Round(x)
		case 1:
			x = math.RoundToEven(x)
		case 2:
			x = math.Trunc(x)
		case 3:
			x = math.Ceil(x)
		case 4:
			x = math.Floor(x)
		}
		return f.fpConst(a.Sort, x)
	}
	return f.intern(&Term{Op: OFPRound, Sort: a.Sort, P1: mode, Args: []*Term{a}})
}

func (f *Factory) FPCmp(op Op, a, b *Term) *Term {
	if a.Sort != b.Sort || a.Sort.Kind != KFP {
		panic("smt fp cmp sort mismatch")
	}
	if a.IsConst() && b.IsConst() {
		x, y := fpOf(a), fpOf(b)
		var r bool
		switch op {
		case OFPEq:
			r = x == y
		case OFPLt:
			r = x < y
		case OFPLe:
			r = x <= y
		}
		return f.BoolConst(r)
	}
	return f.mk(op, Bool, a, b)
}

// FPStructEq is SMT-LIB "=" on floats (NaN = NaN, +0 != -0).
func (f *Factory) FPStructEq(a, b *Term) *Term {
	if a == b {
		return f.BoolConst(true)
	}
	if a.IsConst() && b.IsConst() {
		x, y := fpOf(a), fpOf(b)
		if x != x || y != y {
			return f.BoolConst(x != x && y != y)
		}
		return f.BoolConst(a.U == b.U)
	}
	return f.mk(OFPStructEq, Bool, a, b)
}

func (f *Factory) FPIsNaN(a *Term) *Term {
	if a.IsConst() {
		return f.BoolConst(math.IsNaN(fpOf(a)))
	}
	return f.mk(OFPIsNaN, Bool, a)
}

func (f *Factory) FPIsInf(a *Term) *Term {
	if a.IsConst() {
		return f.BoolConst(math.IsInf(fpOf(a), 0))
	}
	return f.mk(OFPIsInf, Bool, a)
}

// FPFromBV converts an integer bit-vector to float (RNE).
func (f *Factory) FPFromBV(a *Term, signed bool, to Sort) *Term {
	if a.IsConst() {
		var x float64
		if signed {
			x = float64(sext(a.U, a.Sort.W))
		} else {
			x = float64(a.U)
		}
		if to.W == 32 {
			if signed {
				return f.FPConst32(float32(sext(a.U, a.Sort.W)))
			}
			return f.FPConst32(float32(a.U))
		}
		return f.FPConst64(x)
	}
	op := OFPFromUBV
	if signed {
		op = OFPFromSBV
	}
	return f.intern(&Term{Op: op, Sort: to, Args: []*Term{a}})
}

// FPToBV converts float to integer (RTZ). Result unspecified for NaN/out of range.
func (f *Factory) FPToBV(a *Term, signed bool, w int) *Term {
	op := OFPToUBV
	if signed {
		op = OFPToSBV
	}
	return f.intern(&Term{Op: op, Sort: BV(w), Args: []*Term{a}, P1: w})
}

func (f *Factory) FPToFP(a *Term, to Sort) *Term {
	if a.Sort == to {
		return a
	}
	if a.IsConst() {
		return f.fpConst(to, fpOf(a))
	}
	return f.intern(&Term{Op: OFPToFP, Sort: to, Args: []*Term{a}})
}

// FPFromBits reinterprets a bit-vector as IEEE float (math.Float64frombits).
func (f *Factory) FPFromBits(a *Term) *Term {
	s := F64
	if a.Sort.W == 32 {
		s = F32
	}
	if a.IsConst() {
		return f.intern(&Term{Op: OConst, Sort: s, U: a.U})
	}
	return f.intern(&Term{Op: OFPFromBits, Sort: s, Args: []*Term{a}})
}

// ---------- printing ----------

// Printer emits define-funs for shared nodes, once per solver scope.
type Printer struct {
	defined map[int]bool
}

func NewPrinter() *Printer { return &Printer{defined: map[int]bool{}} }

func (p *Printer) Reset() { p.defined = map[int]bool{} }

func leafStr(t *Term) (string, bool) {
	switch t.Op {
	case OConst:
		switch t.Sort.Kind {
		case KBool:
			if t.U == 1 {
				return "true", true
			}
			return "false", true
		case KBV:
			if t.Sort.W%4 == 0 {
				return fmt.Sprintf("#x%0*x", t.Sort.W/4, t.U), true
			}
			return fmt.Sprintf("#b%0*b", t.Sort.W, t.U), true
		case KFP:
			if t.Sort.W == 32 {
				return fmt.Sprintf("((_ to_fp 8 24) #x%08x)", t.U), true
			}
			return fmt.Sprintf("((_ to_fp 11 53) #x%016x)", t.U), true
		}
	case OVar:
		return t.Name, true
	}
	return "", false
}

func ref(t *Term) string {
	if s, ok := leafStr(t); ok {
		return s
	}
	return fmt.Sprintf("t!%d", t.ID)
}

// Define writes define-funs for t's DAG (not yet defined) into sb and returns
// the name by which t can be referenced.
func (p *Printer) Define(sb *strings.Builder, t *Term) string {
	if s, ok := leafStr(t); ok {
		return s
	}
	if p.defined[t.ID] {
		return ref(t)
	}
	// iterative post-order
	type fr struct {
		t *Term
		i int
	}
	stack := []fr{{t, 0}}
	for len(stack) > 0 {
		top := &stack[len(stack)-1]
		if top.i < len(top.t.Args) {
			a := top.t.Args[top.i]
			top.i++
			if _, leaf := leafStr(a); !leaf && !p.defined[a.ID] {
				stack = append(stack, fr{a, 0})
			}
			continue
		}
		n := top.t
		stack = stack[:len(stack)-1]
		if p.defined[n.ID] {
			continue
		}
		p.defined[n.ID] = true
		fmt.Fprintf(sb, "(define-fun t!%d () %s %s)\n", n.ID, n.Sort.String(), body(n))
	}
	return ref(t)
}

func body(n *Term) string {
	var sb strings.Builder
	args := func() {
		for _, a := range n.Args {
			sb.WriteByte(' ')
			sb.WriteString(ref(a))
		}
	}
	switch n.Op {
	case OExtract:
		fmt.Fprintf(&sb, "((_ extract %d %d)", n.P1, n.P2)
	case OZext:
		fmt.Fprintf(&sb, "((_ zero_extend %d)", n.P1)
	case OSext:
		fmt.Fprintf(&sb, "((_ sign_extend %d)", n.P1)
	case OFPAdd:
		sb.WriteString("(fp.add RNE")
	case OFPSub:
		sb.WriteString("(fp.sub RNE")
	case OFPMul:
		sb.WriteString("(fp.mul RNE")
	case OFPDiv:
		sb.WriteString("(fp.div RNE")
	case OFPFromSBV:
		fmt.Fprintf(&sb, "(%s RNE", toFP(n.Sort))
	case OFPFromUBV:
		fmt.Fprintf(&sb, "(%s RNE", toFPU(n.Sort))
	case OFPToSBV:
		fmt.Fprintf(&sb, "((_ fp.to_sbv %d) RTZ", n.P1)
	case OFPToUBV:
		fmt.Fprintf(&sb, "((_ fp.to_ubv %d) RTZ", n.P1)
	case OFPToFP:
		fmt.Fprintf(&sb, "(%s RNE", toFP(n.Sort))
	case OFPFromBits:
		fmt.Fprintf(&sb, "(%s", toFP(n.Sort))
	case OFPRound:
		fmt.Fprintf(&sb, "(fp.roundToIntegral %s", fpRoundModes[n.P1])
	case OUF:
		if len(n.Args) == 0 {
			return n.Name
		}
		fmt.Fprintf(&sb, "(%s", n.Name)
	default:
		name, ok := opNames[n.Op]
		if !ok {
			panic(fmt.Sprintf("smt print: op %d", n.Op))
		}
		fmt.Fprintf(&sb, "(%s", name)
	}
	args()
	sb.WriteByte(')')
	return sb.String()
}

func toFP(s Sort) string {
	if s.W == 32 {
		return "(_ to_fp 8 24)"
	}
	return "(_ to_fp 11 53)"
}
func toFPU(s Sort) string {
	if s.W == 32 {
		return "(_ to_fp_unsigned 8 24)"
	}
	return "(_ to_fp_unsigned 11 53)"
}

var _ = bits.Len64

// ---------- evaluation under a model ----------

// Eval evaluates t under an assignment of variables (by name). ok=false when
// the value cannot be determined (uninterpreted functions, unspecified
// conversions, missing variables).
func (f *Factory) Eval(t *Term, model map[string]uint64, memo map[int]*Term) (*Term, bool) {
	if t.Op == OConst {
		return t, true
	}
	if r, ok := memo[t.ID]; ok {
		return r, r != nil
	}
	var res *Term
	switch t.Op {
	case OVar:
		v, ok := model[t.Name]
		if !ok {
			memo[t.ID] = nil
			return nil, false
		}
		switch t.Sort.Kind {
		case KBool:
			res = f.BoolConst(v != 0)
		case KBV:
			res = f.BVConst(v, t.Sort.W)
		default:
			memo[t.ID] = nil
			return nil, false
		}
	case OUF, OFPToSBV, OFPToUBV:
		memo[t.ID] = nil
		return nil, false
	case OIte:
		c, ok := f.Eval(t.Args[0], model, memo)
		if !ok {
			memo[t.ID] = nil
			return nil, false
		}
		if c.U == 1 {
			res, ok = f.Eval(t.Args[1], model, memo)
		} else {
			res, ok = f.Eval(t.Args[2], model, memo)
		}
		if !ok {
			memo[t.ID] = nil
			return nil, false
		}
	case OAnd, OOr:
		a, ok := f.Eval(t.Args[0], model, memo)
		if ok && ((t.Op == OAnd && a.U == 0) || (t.Op == OOr && a.U == 1)) {
			res = a
			break
		}
		b, ok2 := f.Eval(t.Args[1], model, memo)
		if ok2 && ((t.Op == OAnd && b.U == 0) || (t.Op == OOr && b.U == 1)) {
			res = b
			break
		}
		if !ok || !ok2 {
			memo[t.ID] = nil
			return nil, false
		}
		res = b
	default:
		args := make([]*Term, len(t.Args))
		for i, a := range t.Args {
			v, ok := f.Eval(a, model, memo)
			if !ok {
				memo[t.ID] = nil
				return nil, false
			}
			args[i] = v
		}
		res = f.rebuild(t, args)
		if res == nil || !res.IsConst() {
			memo[t.ID] = nil
			return nil, false
		}
	}
	memo[t.ID] = res
	return res, true
}

func (f *Factory) rebuild(t *Term, a []*Term) *Term {
	switch t.Op {
	case ONot:
		return f.Not(a[0])
	case OEq:
		return f.Eq(a[0], a[1])
	case OBVNeg:
		return f.BVNeg(a[0])
	case OBVNot:
		return f.BVNot(a[0])
	case OBVAdd, OBVSub, OBVMul, OBVUDiv, OBVURem, OBVSDiv, OBVSRem, OBVAnd, OBVOr, OBVXor, OBVShl, OBVLshr, OBVAshr:
		return f.bvBin(t.Op, a[0], a[1])
	case OBVUlt, OBVUle, OBVSlt, OBVSle:
		return f.bvCmp(t.Op, a[0], a[1])
	case OConcat:
		return f.Concat(a[0], a[1])
	case OExtract:
		return f.Extract(a[0], t.P1, t.P2)
	case OZext:
		return f.ZExt(a[0], t.Sort.W)
	case OSext:
		return f.SExt(a[0], t.Sort.W)
	case OFPAdd, OFPSub, OFPMul, OFPDiv:
		return f.FPBin(t.Op, a[0], a[1])
	case OFPNeg:
		return f.FPNeg(a[0])
	case OFPAbs:
		return f.FPAbs(a[0])
	case OFPRound:
		return f.FPRound(a[0], t.P1)
	case OFPEq, OFPLt, OFPLe:
		return f.FPCmp(t.Op, a[0], a[1])
	case OFPIsNaN:
		return f.FPIsNaN(a[0])
	case OFPIsInf:
		return f.FPIsInf(a[0])
	case OFPFromSBV:
		return f.FPFromBV(a[0], true, t.Sort)
	case OFPFromUBV:
		return f.FPFromBV(a[0], false, t.Sort)
	case OFPToFP:
		return f.FPToFP(a[0], t.Sort)
	case OFPFromBits:
		return f.FPFromBits(a[0])
	case OFPStructEq:
		return f.FPStructEq(a[0], a[1])
	}
	return nil
}
