package ssaexec

import (
	"fmt"
	"go/types"
	"math"
	"strings"
	"sync"

	"golang.org/x/tools/go/ssa"

	"verif/engine/smt"
)

// Value model (see DESIGN §2.1): concrete heap shape, symbolic scalars.
//
//   bool                 Go bool | *Sym(Bool)
//   every integer kind   int64 (sign- or zero-extended by static type) | *Sym(BV w)
//   float32/float64      float64 | *Sym(FP)
//   string               string | *SymStr
//   pointer              *value (nil pointer = (*value)(nil))
//   slice                []value
//   array / struct       array / structure (value semantics: copied on load/store)
//   interface            iface{t, v}
//   map                  *Map
//   chan                 *Chan
//   func                 *ssa.Function | *ssa.Builtin | *closure
//   tuple                tuple
//   reflect.Type         rtype (inside iface)
type value = interface{}

type tuple []value
type array []value
type structure []value

type iface struct {
	t types.Type
	v value
}

type closure struct {
	Fn  *ssa.Function
	Env []value
}

// Sym is a symbolic scalar.
type Sym struct{ T *smt.Term }

// SymStr is a string of concrete length with (partly) symbolic bytes.
// Each element is int64 (0..255) or *Sym of sort BV8.
type SymStr struct{ B []value }

// poison marks a value the engine could not compute (unsupported init code).
type poison struct{ why string }

// rtype is the engine's reflect.Type.
type rtype struct{ t types.Type }

// unsafePtr models unsafe.Pointer conversions of ordinary pointers.
type unsafePtr struct{ p value }

type bad struct{}

// ---- type helpers ----

var typeStrCache sync.Map

func typeString(t types.Type) string {
	if s, ok := typeStrCache.Load(t); ok {
		return s.(string)
	}
	s := types.TypeString(t, nil)
	typeStrCache.Store(t, s)
	return s
}

func under(t types.Type) types.Type { return t.Underlying() }

func deref(t types.Type) types.Type {
	if p, ok := t.Underlying().(*types.Pointer); ok {
		return p.Elem()
	}
	panic(fmt.Sprintf("deref: not a pointer: %v", t))
}

type intInfo struct {
	w      int
	signed bool
}

func basicKind(t types.Type) (types.BasicKind, bool) {
	b, ok := t.Underlying().(*types.Basic)
	if !ok {
		return 0, false
	}
	return b.Kind(), true
}

// intOf reports width/signedness when t is an integer kind.
func intOf(t types.Type) (intInfo, bool) {
	k, ok := basicKind(t)
	if !ok {
		return intInfo{}, false
	}
	switch k {
	case types.Int, types.Int64, types.UntypedInt:
		return intInfo{64, true}, true
	case types.Int8:
		return intInfo{8, true}, true
	case types.Int16:
		return intInfo{16, true}, true
	case types.Int32, types.UntypedRune:
		return intInfo{32, true}, true
	case types.Uint, types.Uint64, types.Uintptr:
		return intInfo{64, false}, true
	case types.Uint8:
		return intInfo{8, false}, true
	case types.Uint16:
		return intInfo{16, false}, true
	case types.Uint32:
		return intInfo{32, false}, true
	}
	return intInfo{}, false
}

func isFloat(t types.Type) (int, bool) {
	k, ok := basicKind(t)
	if !ok {
		return 0, false
	}
	switch k {
	case types.Float64, types.UntypedFloat:
		return 64, true
	case types.Float32:
		return 32, true
	}
	return 0, false
}

func isString(t types.Type) bool {
	k, ok := basicKind(t)
	return ok && (k == types.String || k == types.UntypedString)
}

func isBool(t types.Type) bool {
	k, ok := basicKind(t)
	return ok && (k == types.Bool || k == types.UntypedBool)
}

// norm truncates x to the integer type and re-extends it.
func (ii intInfo) norm(x int64) int64 {
	if ii.w == 64 {
		return x
	}
	sh := uint(64 - ii.w)
	if ii.signed {
		return (x << sh) >> sh
	}
	return int64(uint64(x<<sh) >> sh)
}

// ---- zero values ----

func zero(t types.Type) value {
	switch t := t.(type) {
	case *types.Basic:
		if t.Kind() == types.UntypedNil {
			panic("untyped nil has no zero value")
		}
		if t.Info()&types.IsUntyped != 0 {
			t = types.Default(t).(*types.Basic)
		}
		switch {
		case t.Kind() == types.Bool:
			return false
		case t.Info()&types.IsInteger != 0:
			return int64(0)
		case t.Info()&types.IsFloat != 0:
			return float64(0)
		case t.Kind() == types.String:
			return ""
		case t.Kind() == types.UnsafePointer:
			return unsafePtr{nil}
		case t.Info()&types.IsComplex != 0:
			return poison{"complex"}
		}
		panic(fmt.Sprint("zero for unexpected basic type: ", t))
	case *types.Pointer:
		return (*value)(nil)
	case *types.Array:
		a := make(array, t.Len())
		for i := range a {
			a[i] = zero(t.Elem())
		}
		return a
	case *types.Named:
		return zero(t.Underlying())
	case *types.Alias:
		return zero(types.Unalias(t))
	case *types.Interface:
		return iface{}
	case *types.Slice:
		return []value(nil)
	case *types.Struct:
		s := make(structure, t.NumFields())
		for i := range s {
			s[i] = zero(t.Field(i).Type())
		}
		return s
	case *types.Tuple:
		if t.Len() == 1 {
			return zero(t.At(0).Type())
		}
		s := make(tuple, t.Len())
		for i := range s {
			s[i] = zero(t.At(i).Type())
		}
		return s
	case *types.Chan:
		return (*Chan)(nil)
	case *types.Map:
		return (*Map)(nil)
	case *types.Signature:
		return (*ssa.Function)(nil)
	}
	panic(fmt.Sprint("zero: unexpected ", t))
}

// copyVal copies aggregates (value semantics).
func copyVal(v value) value {
	switch v := v.(type) {
	case array:
		a := make(array, len(v))
		for i := range v {
			a[i] = copyVal(v[i])
		}
		return a
	case structure:
		a := make(structure, len(v))
		for i := range v {
			a[i] = copyVal(v[i])
		}
		return a
	}
	return v
}

// ---- journal (undo log) ----

type undoRec struct {
	addr *value
	old  value
	fn   func()
}

// write stores v at addr, journaling the old content when a path is active.
func (m *Machine) write(addr *value, v value) {
	if m.raceActive {
		m.raceWrite(addr)
	}
	if m.journaling {
		m.journal = append(m.journal, undoRec{addr: addr, old: *addr})
	}
	*addr = v
}

func (m *Machine) logUndo(fn func()) {
	if m.journaling {
		m.journal = append(m.journal, undoRec{fn: fn})
	}
}

func (m *Machine) rollback() {
	for i := len(m.journal) - 1; i >= 0; i-- {
		r := m.journal[i]
		if r.fn != nil {
			r.fn()
		} else {
			*r.addr = r.old
		}
	}
	m.journal = m.journal[:0]
}

// store implements *addr = v with copy semantics for aggregates. Struct and
// array cells are updated in place so that pointers to fields stay valid.
func (m *Machine) store(addr *value, v value) {
	if addr == nil {
		m.rtPanic("invalid memory address or nil pointer dereference")
	}
	switch nv := v.(type) {
	case structure:
		if old, ok := (*addr).(structure); ok && len(old) == len(nv) {
			for i := range nv {
				m.store(&old[i], nv[i])
			}
			return
		}
		m.write(addr, copyVal(v))
	case array:
		if old, ok := (*addr).(array); ok && len(old) == len(nv) {
			for i := range nv {
				m.store(&old[i], nv[i])
			}
			return
		}
		m.write(addr, copyVal(v))
	default:
		m.write(addr, v)
	}
}

func (m *Machine) load(addr *value) value {
	if addr == nil {
		m.rtPanic("invalid memory address or nil pointer dereference")
	}
	if m.raceActive {
		m.raceRead(addr)
	}
	return copyVal(*addr)
}

// ---- printing ----

func toString(v value) string {
	var sb strings.Builder
	writeValue(&sb, v, 0)
	return sb.String()
}

func writeValue(sb *strings.Builder, v value, depth int) {
	if depth > 4 {
		sb.WriteString("...")
		return
	}
	switch v := v.(type) {
	case nil:
		sb.WriteString("<nil>")
	case bool, int64, float64:
		fmt.Fprintf(sb, "%v", v)
	case string:
		fmt.Fprintf(sb, "%q", v)
	case *Sym:
		fmt.Fprintf(sb, "<sym t!%d>", v.T.ID)
	case *SymStr:
		fmt.Fprintf(sb, "<symstr len=%d>", len(v.B))
	case *value:
		if v == nil {
			sb.WriteString("nil-ptr")
		} else {
			fmt.Fprintf(sb, "%p", v)
		}
	case []value:
		sb.WriteString("[")
		for i, e := range v {
			if i > 0 {
				sb.WriteString(" ")
			}
			if i > 8 {
				sb.WriteString("...")
				break
			}
			writeValue(sb, e, depth+1)
		}
		sb.WriteString("]")
	case array:
		writeValue(sb, []value(v), depth)
	case structure:
		sb.WriteString("{")
		for i, e := range v {
			if i > 0 {
				sb.WriteString(" ")
			}
			writeValue(sb, e, depth+1)
		}
		sb.WriteString("}")
	case tuple:
		sb.WriteString("(")
		for i, e := range v {
			if i > 0 {
				sb.WriteString(", ")
			}
			writeValue(sb, e, depth+1)
		}
		sb.WriteString(")")
	case iface:
		if v.t == nil {
			sb.WriteString("nil-iface")
		} else {
			fmt.Fprintf(sb, "(%s)", typeString(v.t))
			writeValue(sb, v.v, depth+1)
		}
	case *Map:
		if v == nil {
			sb.WriteString("nil-map")
		} else {
			fmt.Fprintf(sb, "map[%d]", v.Len())
		}
	case *ssa.Function:
		if v == nil {
			sb.WriteString("nil-func")
		} else {
			sb.WriteString(v.String())
		}
	case *closure:
		sb.WriteString("closure:" + v.Fn.String())
	case poison:
		sb.WriteString("poison(" + v.why + ")")
	case rtype:
		sb.WriteString("rtype(" + typeString(v.t) + ")")
	default:
		fmt.Fprintf(sb, "%T", v)
	}
}

// ---- scalars: lifting to terms ----

func (m *Machine) F() *smt.Factory { return m.path.F }

func (m *Machine) intTerm(v value, ii intInfo) *smt.Term {
	switch v := v.(type) {
	case int64:
		return m.F().BVConst(uint64(v), ii.w)
	case *Sym:
		if v.T.Sort.Kind != smt.KBV || v.T.Sort.W != ii.w {
			panic(engineFault(fmt.Sprintf("intTerm: sort %v for width %d", v.T.Sort, ii.w)))
		}
		return v.T
	}
	panic(engineFault(fmt.Sprintf("intTerm: %T", v)))
}

func (m *Machine) boolTerm(v value) *smt.Term {
	switch v := v.(type) {
	case bool:
		return m.F().BoolConst(v)
	case *Sym:
		return v.T
	}
	panic(engineFault(fmt.Sprintf("boolTerm: %T", v)))
}

func (m *Machine) floatTerm(v value, w int) *smt.Term {
	switch v := v.(type) {
	case float64:
		if w == 32 {
			return m.F().FPConst32(float32(v))
		}
		return m.F().FPConst64(v)
	case *Sym:
		return v.T
	}
	panic(engineFault(fmt.Sprintf("floatTerm: %T", v)))
}

// fromTerm turns a term back into a value, collapsing constants.
func fromTerm(t *smt.Term, signed bool) value {
	if t.IsConst() {
		switch t.Sort.Kind {
		case smt.KBool:
			return t.U == 1
		case smt.KBV:
			ii := intInfo{t.Sort.W, signed}
			return ii.norm(int64(t.U))
		case smt.KFP:
			if t.Sort.W == 32 {
				return float64(math.Float32frombits(uint32(t.U)))
			}
			return math.Float64frombits(t.U)
		}
	}
	return &Sym{t}
}

func isSym(v value) bool {
	switch v.(type) {
	case *Sym, *SymStr:
		return true
	}
	return false
}

// ---- strings ----

func strLen(v value) int {
	switch s := v.(type) {
	case string:
		return len(s)
	case *SymStr:
		return len(s.B)
	}
	panic(engineFault(fmt.Sprintf("strLen: %T", v)))
}

func strBytes(v value) []value {
	switch s := v.(type) {
	case string:
		b := make([]value, len(s))
		for i := 0; i < len(s); i++ {
			b[i] = int64(s[i])
		}
		return b
	case *SymStr:
		return s.B
	}
	panic(engineFault(fmt.Sprintf("strBytes: %T", v)))
}

// mkStr builds a string value from bytes, collapsing to a Go string when concrete.
func mkStr(b []value) value {
	conc := true
	for _, x := range b {
		if _, ok := x.(int64); !ok {
			conc = false
			break
		}
	}
	if conc {
		bs := make([]byte, len(b))
		for i, x := range b {
			bs[i] = byte(x.(int64))
		}
		return string(bs)
	}
	cp := make([]value, len(b))
	copy(cp, b)
	return &SymStr{cp}
}
