package ssaexec

import (
	"fmt"
	"go/constant"
	"go/token"
	"go/types"
	"math"
	"unicode/utf8"

	"golang.org/x/tools/go/ssa"

	"verif/engine/smt"
)

func (m *Machine) constValue(c *ssa.Const) value {
	if c.Value == nil {
		return zero(c.Type()) // typed zero
	}
	t := c.Type().Underlying()
	if b, ok := t.(*types.Basic); ok {
		switch {
		case b.Kind() == types.Bool || b.Kind() == types.UntypedBool:
			return constant.BoolVal(c.Value)
		case b.Info()&types.IsInteger != 0:
			ii, _ := intOf(b)
			if ii.signed {
				return ii.norm(c.Int64())
			}
			return ii.norm(int64(c.Uint64()))
		case b.Info()&types.IsFloat != 0:
			f := c.Float64()
			if b.Kind() == types.Float32 {
				return float64(float32(f))
			}
			return f
		case b.Info()&types.IsString != 0:
			if c.Value.Kind() == constant.String {
				return constant.StringVal(c.Value)
			}
			return string(rune(c.Int64()))
		case b.Info()&types.IsComplex != 0:
			return poison{"complex"}
		case b.Kind() == types.UnsafePointer:
			return unsafePtr{nil}
		}
	}
	panic(engineFault(fmt.Sprintf("constValue: %v", c)))
}

// ---------- integer binops ----------

func (m *Machine) intBinop(op token.Token, ii intInfo, x, y value, yt types.Type) value {
	xc, xok := x.(int64)
	yc, yok := y.(int64)
	if xok && yok {
		return m.intBinopConc(op, ii, xc, yc, yt)
	}
	F := m.F()
	a := m.intTerm(x, ii)
	switch op {
	case token.SHL, token.SHR:
		yi, _ := intOf(yt)
		b := m.intTerm(y, yi)
		if yi.signed {
			// negative shift count panics
			neg := F.BVSlt(b, F.BVConst(0, yi.w))
			if m.branch(neg) {
				m.rtPanic("negative shift amount")
			}
		}
		// bring shift amount to operand width, saturating
		var amt *smt.Term
		if yi.w > ii.w {
			big := F.Not(F.BVUlt(b, F.BVConst(uint64(ii.w), yi.w)))
			amt = F.Ite(big, F.BVConst(uint64(ii.w), ii.w), F.Extract(b, ii.w-1, 0))
		} else {
			amt = F.ZExt(b, ii.w)
		}
		var r *smt.Term
		if op == token.SHL {
			r = F.BVShl(a, amt)
		} else if ii.signed {
			r = F.BVAshr(a, amt)
		} else {
			r = F.BVLshr(a, amt)
		}
		return fromTerm(r, ii.signed)
	}
	b := m.intTerm(y, ii)
	var r *smt.Term
	switch op {
	case token.ADD:
		r = F.BVAdd(a, b)
	case token.SUB:
		r = F.BVSub(a, b)
	case token.MUL:
		r = F.BVMul(a, b)
	case token.QUO, token.REM:
		z := F.Eq(b, F.BVConst(0, ii.w))
		if m.branch(z) {
			m.rtPanic("integer divide by zero")
		}
		switch {
		case op == token.QUO && ii.signed:
			r = F.BVSDiv(a, b)
		case op == token.QUO:
			r = F.BVUDiv(a, b)
		case ii.signed:
			r = F.BVSRem(a, b)
		default:
			r = F.BVURem(a, b)
		}
	case token.AND:
		r = F.BVAnd(a, b)
	case token.OR:
		r = F.BVOr(a, b)
	case token.XOR:
		r = F.BVXor(a, b)
	case token.AND_NOT:
		r = F.BVAnd(a, F.BVNot(b))
	case token.EQL:
		r = F.Eq(a, b)
	case token.NEQ:
		r = F.Not(F.Eq(a, b))
	case token.LSS:
		if ii.signed {
			r = F.BVSlt(a, b)
		} else {
			r = F.BVUlt(a, b)
		}
	case token.LEQ:
		if ii.signed {
			r = F.BVSle(a, b)
		} else {
			r = F.BVUle(a, b)
		}
	case token.GTR:
		if ii.signed {
			r = F.BVSlt(b, a)
		} else {
			r = F.BVUlt(b, a)
		}
	case token.GEQ:
		if ii.signed {
			r = F.BVSle(b, a)
		} else {
			r = F.BVUle(b, a)
		}
	default:
		panic(engineFault("intBinop op " + op.String()))
	}
	return fromTerm(r, ii.signed)
}

func (m *Machine) intBinopConc(op token.Token, ii intInfo, x, y int64, yt types.Type) value {
	switch op {
	case token.ADD:
		return ii.norm(x + y)
	case token.SUB:
		return ii.norm(x - y)
	case token.MUL:
		return ii.norm(x * y)
	case token.QUO:
		if y == 0 {
			m.rtPanic("integer divide by zero")
		}
		if ii.signed {
			if y == -1 {
				return ii.norm(-x)
			}
			return ii.norm(x / y)
		}
		return ii.norm(int64(uint64(x) / uint64(y)))
	case token.REM:
		if y == 0 {
			m.rtPanic("integer divide by zero")
		}
		if ii.signed {
			if y == -1 {
				return int64(0)
			}
			return ii.norm(x % y)
		}
		return ii.norm(int64(uint64(x) % uint64(y)))
	case token.AND:
		return ii.norm(x & y)
	case token.OR:
		return ii.norm(x | y)
	case token.XOR:
		return ii.norm(x ^ y)
	case token.AND_NOT:
		return ii.norm(x &^ y)
	case token.SHL, token.SHR:
		yi, _ := intOf(yt)
		if yi.signed && y < 0 {
			m.rtPanic("negative shift amount")
		}
		amt := uint64(y)
		if op == token.SHL {
			if amt >= 64 {
				return int64(0)
			}
			return ii.norm(x << amt)
		}
		if ii.signed {
			if amt >= 64 {
				amt = 63
			}
			return ii.norm(x >> amt)
		}
		if amt >= 64 {
			return int64(0)
		}
		return ii.norm(int64(uint64(x) >> amt))
	case token.EQL:
		return x == y
	case token.NEQ:
		return x != y
	}
	var lt, eq bool
	eq = x == y
	if ii.signed {
		lt = x < y
	} else {
		lt = uint64(x) < uint64(y)
	}
	switch op {
	case token.LSS:
		return lt
	case token.LEQ:
		return lt || eq
	case token.GTR:
		return !lt && !eq
	case token.GEQ:
		return !lt
	}
	panic(engineFault("intBinopConc op " + op.String()))
}

// ---------- float binops ----------

func (m *Machine) floatBinop(op token.Token, w int, x, y value) value {
	xc, xok := x.(float64)
	yc, yok := y.(float64)
	if xok && yok {
		var r float64
		switch op {
		case token.ADD:
			r = xc + yc
		case token.SUB:
			r = xc - yc
		case token.MUL:
			r = xc * yc
		case token.QUO:
			r = xc / yc
		case token.EQL:
			return xc == yc
		case token.NEQ:
			return xc != yc
		case token.LSS:
			return xc < yc
		case token.LEQ:
			return xc <= yc
		case token.GTR:
			return xc > yc
		case token.GEQ:
			return xc >= yc
		default:
			panic(engineFault("floatBinop op " + op.String()))
		}
		if w == 32 {
			r = float64(float32(r))
		}
		return r
	}
	F := m.F()
	a, b := m.floatTerm(x, w), m.floatTerm(y, w)
	var r *smt.Term
	switch op {
	case token.ADD:
		r = F.FPBin(smt.OFPAdd, a, b)
	case token.SUB:
		r = F.FPBin(smt.OFPSub, a, b)
	case token.MUL:
		r = F.FPBin(smt.OFPMul, a, b)
	case token.QUO:
		r = F.FPBin(smt.OFPDiv, a, b)
	case token.EQL:
		r = F.FPCmp(smt.OFPEq, a, b)
	case token.NEQ:
		r = F.Not(F.FPCmp(smt.OFPEq, a, b))
	case token.LSS:
		r = F.FPCmp(smt.OFPLt, a, b)
	case token.LEQ:
		r = F.FPCmp(smt.OFPLe, a, b)
	case token.GTR:
		r = F.FPCmp(smt.OFPLt, b, a)
	case token.GEQ:
		r = F.FPCmp(smt.OFPLe, b, a)
	default:
		panic(engineFault("floatBinop op " + op.String()))
	}
	return fromTerm(r, true)
}

// ---------- string binops ----------

func (m *Machine) strEqTerm(x, y value) *smt.Term {
	F := m.F()
	if strLen(x) != strLen(y) {
		return F.BoolConst(false)
	}
	xs, xok := x.(string)
	ys, yok := y.(string)
	if xok && yok {
		return F.BoolConst(xs == ys)
	}
	xb, yb := strBytes(x), strBytes(y)
	r := F.BoolConst(true)
	b8 := intInfo{8, false}
	for i := range xb {
		r = F.And(r, F.Eq(m.intTerm(xb[i], b8), m.intTerm(yb[i], b8)))
		if r.IsFalse() {
			break
		}
	}
	return r
}

// strLtTerm: lexicographic x < y.
func (m *Machine) strLtTerm(x, y value) *smt.Term {
	F := m.F()
	xb, yb := strBytes(x), strBytes(y)
	b8 := intInfo{8, false}
	n := len(xb)
	if len(yb) < n {
		n = len(yb)
	}
	// build from the end: lt(i) = x[i]<y[i] || (x[i]==y[i] && lt(i+1))
	r := F.BoolConst(len(xb) < len(yb))
	for i := n - 1; i >= 0; i-- {
		a, b := m.intTerm(xb[i], b8), m.intTerm(yb[i], b8)
		r = F.Or(F.BVUlt(a, b), F.And(F.Eq(a, b), r))
	}
	return r
}

func (m *Machine) strBinop(op token.Token, x, y value) value {
	xs, xok := x.(string)
	ys, yok := y.(string)
	if xok && yok {
		switch op {
		case token.ADD:
			return xs + ys
		case token.EQL:
			return xs == ys
		case token.NEQ:
			return xs != ys
		case token.LSS:
			return xs < ys
		case token.LEQ:
			return xs <= ys
		case token.GTR:
			return xs > ys
		case token.GEQ:
			return xs >= ys
		}
	}
	F := m.F()
	switch op {
	case token.ADD:
		b := append(append([]value{}, strBytes(x)...), strBytes(y)...)
		return mkStr(b)
	case token.EQL:
		return fromTerm(m.strEqTerm(x, y), false)
	case token.NEQ:
		return fromTerm(F.Not(m.strEqTerm(x, y)), false)
	case token.LSS:
		return fromTerm(m.strLtTerm(x, y), false)
	case token.GTR:
		return fromTerm(m.strLtTerm(y, x), false)
	case token.LEQ:
		return fromTerm(F.Not(m.strLtTerm(y, x)), false)
	case token.GEQ:
		return fromTerm(F.Not(m.strLtTerm(x, y)), false)
	}
	panic(engineFault("strBinop op " + op.String()))
}

// ---------- binop dispatch ----------

func (m *Machine) binop(op token.Token, t types.Type, yt types.Type, x, y value) value {
	if p, ok := x.(poison); ok {
		return p
	}
	if p, ok := y.(poison); ok {
		return p
	}
	if ii, ok := intOf(t); ok {
		return m.intBinop(op, ii, x, y, yt)
	}
	if w, ok := isFloat(t); ok {
		return m.floatBinop(op, w, x, y)
	}
	if isString(t) {
		return m.strBinop(op, x, y)
	}
	switch op {
	case token.EQL:
		return m.equals(t, x, y)
	case token.NEQ:
		return m.not(m.equals(t, x, y))
	}
	if isBool(t) {
		F := m.F()
		a, b := m.boolTerm(x), m.boolTerm(y)
		switch op {
		case token.AND, token.LAND:
			return fromTerm(F.And(a, b), false)
		case token.OR, token.LOR:
			return fromTerm(F.Or(a, b), false)
		}
	}
	panic(engineFault(fmt.Sprintf("binop %s on %v (%T, %T)", op, t, x, y)))
}

func (m *Machine) not(v value) value {
	switch v := v.(type) {
	case bool:
		return !v
	case *Sym:
		return fromTerm(m.F().Not(v.T), false)
	}
	panic(engineFault(fmt.Sprintf("not: %T", v)))
}

// equals implements == for type t; the result is bool or *Sym.
func (m *Machine) equals(t types.Type, x, y value) value {
	if _, ok := x.(poison); ok {
		return false
	}
	if _, ok := y.(poison); ok {
		return false
	}
	switch tt := t.Underlying().(type) {
	case *types.Basic:
		if tt.Kind() == types.UnsafePointer {
			return x.(unsafePtr).p == y.(unsafePtr).p
		}
		if ii, ok := intOf(t); ok {
			return m.intBinop(token.EQL, ii, x, y, t)
		}
		if w, ok := isFloat(t); ok {
			return m.floatBinop(token.EQL, w, x, y)
		}
		if isString(t) {
			return m.strBinop(token.EQL, x, y)
		}
		if isBool(t) {
			xb, xok := x.(bool)
			yb, yok := y.(bool)
			if xok && yok {
				return xb == yb
			}
			return fromTerm(m.F().Eq(m.boolTerm(x), m.boolTerm(y)), false)
		}
		if tt.Kind() == types.UntypedNil {
			return true
		}
	case *types.Pointer:
		return x.(*value) == y.(*value)
	case *types.Chan:
		return x.(*Chan) == y.(*Chan)
	case *types.Map:
		// only comparable to nil
		return x.(*Map) == y.(*Map)
	case *types.Slice:
		xs, ys := x.([]value), y.([]value)
		return xs == nil && ys == nil
	case *types.Signature:
		return isNilFunc(x) && isNilFunc(y)
	case *types.Struct:
		xs, ys := x.(structure), y.(structure)
		var r value = true
		for i := range xs {
			if tt.Field(i).Name() == "_" {
				continue
			}
			r = m.and(r, m.equals(tt.Field(i).Type(), xs[i], ys[i]))
			if r == false {
				return false
			}
		}
		return r
	case *types.Array:
		xs, ys := x.(array), y.(array)
		var r value = true
		for i := range xs {
			r = m.and(r, m.equals(tt.Elem(), xs[i], ys[i]))
			if r == false {
				return false
			}
		}
		return r
	case *types.Interface:
		xi, yi := x.(iface), y.(iface)
		if xi.t == nil || yi.t == nil {
			return xi.t == nil && yi.t == nil
		}
		if !types.Identical(xi.t, yi.t) {
			return false
		}
		if !types.Comparable(xi.t) {
			m.rtPanic("comparing uncomparable type " + typeString(xi.t))
		}
		if _, ok := xi.v.(rtype); ok {
			yr, ok2 := yi.v.(rtype)
			return ok2 && types.Identical(xi.v.(rtype).t, yr.t)
		}
		return m.equals(xi.t, xi.v, yi.v)
	}
	panic(engineFault(fmt.Sprintf("equals: %v (%T, %T)", t, x, y)))
}

func isNilFunc(v value) bool {
	switch f := v.(type) {
	case *ssa.Function:
		return f == nil
	case *closure:
		return f == nil
	case *ssa.Builtin:
		return f == nil
	case nil:
		return true
	}
	return false
}

func (m *Machine) and(a, b value) value {
	if ab, ok := a.(bool); ok {
		if !ab {
			return false
		}
		return b
	}
	if bb, ok := b.(bool); ok {
		if !bb {
			return false
		}
		return a
	}
	return fromTerm(m.F().And(m.boolTerm(a), m.boolTerm(b)), false)
}

func (m *Machine) or(a, b value) value {
	if ab, ok := a.(bool); ok {
		if ab {
			return true
		}
		return b
	}
	if bb, ok := b.(bool); ok {
		if bb {
			return true
		}
		return a
	}
	return fromTerm(m.F().Or(m.boolTerm(a), m.boolTerm(b)), false)
}

// ---------- unop ----------

func (m *Machine) unop(instr *ssa.UnOp, x value) value {
	if p, ok := x.(poison); ok && instr.Op != token.MUL {
		return p
	}
	switch instr.Op {
	case token.ARROW:
		return m.chanRecv(x.(*Chan), instr.CommaOk, instr.X.Type().Underlying().(*types.Chan).Elem())
	case token.MUL:
		if p, ok := x.(poison); ok {
			panic(unsupported("dereference of poison value: " + p.why))
		}
		return m.load(x.(*value))
	case token.SUB:
		t := instr.X.Type()
		if ii, ok := intOf(t); ok {
			if c, ok := x.(int64); ok {
				return ii.norm(-c)
			}
			return fromTerm(m.F().BVNeg(m.intTerm(x, ii)), ii.signed)
		}
		if w, ok := isFloat(t); ok {
			if c, ok := x.(float64); ok {
				return -c
			}
			return fromTerm(m.F().FPNeg(m.floatTerm(x, w)), true)
		}
	case token.NOT:
		return m.not(x)
	case token.XOR:
		t := instr.X.Type()
		if ii, ok := intOf(t); ok {
			if c, ok := x.(int64); ok {
				return ii.norm(^c)
			}
			return fromTerm(m.F().BVNot(m.intTerm(x, ii)), ii.signed)
		}
	}
	panic(engineFault(fmt.Sprintf("unop %s on %T", instr.Op, x)))
}

// ---------- conversions ----------

func (m *Machine) conv(tdst, tsrc types.Type, x value) value {
	if p, ok := x.(poison); ok {
		return p
	}
	ud, us := tdst.Underlying(), tsrc.Underlying()
	// int -> *
	if si, ok := intOf(tsrc); ok {
		if di, ok := intOf(tdst); ok {
			return m.convInt(di, si, x)
		}
		if w, ok := isFloat(tdst); ok {
			if c, ok := x.(int64); ok {
				var f float64
				if si.signed {
					f = float64(c)
				} else {
					f = float64(uint64(c))
				}
				if w == 32 {
					if si.signed {
						f = float64(float32(c))
					} else {
						f = float64(float32(uint64(c)))
					}
				}
				return f
			}
			s := smt.F64
			if w == 32 {
				s = smt.F32
			}
			return fromTerm(m.F().FPFromBV(m.intTerm(x, si), si.signed, s), true)
		}
		if isString(tdst) {
			return m.runeToString(x, si)
		}
		if b, ok := ud.(*types.Basic); ok && b.Kind() == types.UnsafePointer {
			if c, ok := x.(int64); ok && c == 0 {
				return unsafePtr{nil}
			}
			return unsafePtr{x}
		}
	}
	if sw, ok := isFloat(tsrc); ok {
		if dw, ok := isFloat(tdst); ok {
			if c, ok := x.(float64); ok {
				if dw == 32 {
					return float64(float32(c))
				}
				return c
			}
			s := smt.F64
			if dw == 32 {
				s = smt.F32
			}
			_ = sw
			return fromTerm(m.F().FPToFP(x.(*Sym).T, s), true)
		}
		if di, ok := intOf(tdst); ok {
			if c, ok := x.(float64); ok {
				return convFloatToInt(c, di)
			}
			// Go leaves NaN / out-of-range implementation-defined; fp.to_sbv is
			// unspecified there too, which matches "any value".
			return fromTerm(m.F().FPToBV(x.(*Sym).T, di.signed, di.w), di.signed)
		}
	}
	if isString(tsrc) {
		if isString(tdst) {
			return x
		}
		if sl, ok := ud.(*types.Slice); ok {
			ek, _ := basicKind(sl.Elem())
			if ek == types.Uint8 {
				b := strBytes(x)
				out := make([]value, len(b))
				copy(out, b)
				return out
			}
			if ek == types.Int32 {
				return m.stringToRunes(x)
			}
		}
	}
	if sl, ok := us.(*types.Slice); ok {
		if isString(tdst) {
			ek, _ := basicKind(sl.Elem())
			xs := x.([]value)
			if ek == types.Uint8 {
				return mkStr(xs)
			}
			if ek == types.Int32 {
				var out []value
				for _, r := range xs {
					out = append(out, strBytes(m.runeToString(r, intInfo{32, true}))...)
				}
				return mkStr(out)
			}
		}
		if _, ok := ud.(*types.Slice); ok {
			return x
		}
	}
	if b, ok := ud.(*types.Basic); ok && b.Kind() == types.UnsafePointer {
		if up, ok := x.(unsafePtr); ok {
			return up
		}
		return unsafePtr{x}
	}
	if b, ok := us.(*types.Basic); ok && b.Kind() == types.UnsafePointer {
		up := x.(unsafePtr)
		if _, ok := ud.(*types.Pointer); ok {
			if up.p == nil {
				return (*value)(nil)
			}
			if p, ok := up.p.(*value); ok {
				return p
			}
			panic(unsupported("unsafe.Pointer cast to " + typeString(tdst)))
		}
		if _, ok := intOf(tdst); ok {
			if up.p == nil {
				return int64(0)
			}
			if c, ok := up.p.(int64); ok {
				return c
			}
			return int64(0x1000) // opaque non-zero address
		}
	}
	if isBool(tsrc) && isBool(tdst) {
		return x
	}
	if types.Identical(ud, us) {
		return x
	}
	panic(engineFault(fmt.Sprintf("conv %v <- %v (%T)", tdst, tsrc, x)))
}

func convFloatToInt(c float64, di intInfo) int64 {
	if di.signed {
		switch di.w {
		case 64:
			return int64(c)
		case 32:
			return int64(int32(c))
		case 16:
			return int64(int16(c))
		case 8:
			return int64(int8(c))
		}
	}
	switch di.w {
	case 64:
		return int64(uint64(c))
	case 32:
		return int64(uint32(c))
	case 16:
		return int64(uint16(c))
	}
	return int64(uint8(c))
}

func (m *Machine) convInt(di, si intInfo, x value) value {
	if c, ok := x.(int64); ok {
		return di.norm(c)
	}
	F := m.F()
	t := x.(*Sym).T
	var r *smt.Term
	switch {
	case di.w == si.w:
		r = t
	case di.w < si.w:
		r = F.Extract(t, di.w-1, 0)
	case si.signed:
		r = F.SExt(t, di.w)
	default:
		r = F.ZExt(t, di.w)
	}
	return fromTerm(r, di.signed)
}

// runeToString implements string(rune) including symbolic runes (forks on the
// UTF-8 length class; invalid runes become U+FFFD).
func (m *Machine) runeToString(x value, si intInfo) value {
	if c, ok := x.(int64); ok {
		if si.signed {
			if c < 0 || c > math.MaxInt32 {
				return string(utf8.RuneError)
			}
			return string(rune(c))
		}
		if uint64(c) > math.MaxInt32 {
			return string(utf8.RuneError)
		}
		return string(rune(c))
	}
	F := m.F()
	t := x.(*Sym).T
	// widen to 32 bits (values beyond int32 range are invalid anyway)
	var r32 *smt.Term
	var tooBig *smt.Term = F.BoolConst(false)
	switch {
	case si.w == 32:
		r32 = t
	case si.w < 32:
		if si.signed {
			r32 = F.SExt(t, 32)
		} else {
			r32 = F.ZExt(t, 32)
		}
	default:
		r32 = F.Extract(t, 31, 0)
		if si.signed {
			tooBig = F.Not(F.Eq(F.SExt(r32, si.w), t))
		} else {
			tooBig = F.Not(F.Eq(F.ZExt(r32, si.w), t))
		}
	}
	if !si.signed && si.w >= 32 {
		tooBig = F.Or(tooBig, F.BVSlt(r32, F.BVConst(0, 32)))
	}
	return m.encodeRuneSym(r32, tooBig)
}

// encodeRuneSym encodes the symbolic rune r (BV32, signed) as UTF-8.
func (m *Machine) encodeRuneSym(r *smt.Term, forceInvalid *smt.Term) value {
	F := m.F()
	c := func(v uint64) *smt.Term { return F.BVConst(v, 32) }
	b := func(t *smt.Term) value { return fromTerm(F.Extract(t, 7, 0), false) }
	invalid := F.Or(forceInvalid, F.Or(F.BVSlt(r, c(0)), F.Or(F.BVSlt(c(0x10FFFF), r),
		F.And(F.BVSle(c(0xD800), r), F.BVSle(r, c(0xDFFF))))))
	if m.branch(invalid) {
		return string(utf8.RuneError)
	}
	if m.branch(F.BVSlt(r, c(0x80))) {
		return mkStr([]value{b(r)})
	}
	if m.branch(F.BVSlt(r, c(0x800))) {
		return mkStr([]value{
			b(F.BVOr(c(0xC0), F.BVLshr(r, c(6)))),
			b(F.BVOr(c(0x80), F.BVAnd(r, c(0x3F)))),
		})
	}
	if m.branch(F.BVSlt(r, c(0x10000))) {
		return mkStr([]value{
			b(F.BVOr(c(0xE0), F.BVLshr(r, c(12)))),
			b(F.BVOr(c(0x80), F.BVAnd(F.BVLshr(r, c(6)), c(0x3F)))),
			b(F.BVOr(c(0x80), F.BVAnd(r, c(0x3F)))),
		})
	}
	return mkStr([]value{
		b(F.BVOr(c(0xF0), F.BVLshr(r, c(18)))),
		b(F.BVOr(c(0x80), F.BVAnd(F.BVLshr(r, c(12)), c(0x3F)))),
		b(F.BVOr(c(0x80), F.BVAnd(F.BVLshr(r, c(6)), c(0x3F)))),
		b(F.BVOr(c(0x80), F.BVAnd(r, c(0x3F)))),
	})
}

// decodeRuneAt decodes one UTF-8 sequence of s at i, Go semantics
// (invalid -> U+FFFD, width 1). Forks on the class of the bytes when symbolic.
func (m *Machine) decodeRuneAt(bs []value, i int) (value, int) {
	n := len(bs) - i
	// concrete fast path
	allc := true
	lim := n
	if lim > 4 {
		lim = 4
	}
	var tmp [4]byte
	for k := 0; k < lim; k++ {
		c, ok := bs[i+k].(int64)
		if !ok {
			allc = false
			break
		}
		tmp[k] = byte(c)
	}
	if allc {
		r, sz := utf8.DecodeRune(tmp[:lim])
		return int64(r), sz
	}
	F := m.F()
	b8 := intInfo{8, false}
	bt := func(k int) *smt.Term { return F.ZExt(m.intTerm(bs[i+k], b8), 32) }
	c := func(v uint64) *smt.Term { return F.BVConst(v, 32) }
	inr := func(t *smt.Term, lo, hi uint64) *smt.Term {
		return F.And(F.BVUle(c(lo), t), F.BVUle(t, c(hi)))
	}
	bad := func() (value, int) { return int64(utf8.RuneError), 1 }
	b0 := bt(0)
	if m.branch(F.BVUlt(b0, c(0x80))) {
		return fromTerm(b0, true), 1
	}
	// 2-byte: C2..DF
	if m.branch(inr(b0, 0xC2, 0xDF)) {
		if n < 2 {
			return bad()
		}
		b1 := bt(1)
		if !m.branch(inr(b1, 0x80, 0xBF)) {
			return bad()
		}
		r := F.BVOr(F.BVShl(F.BVAnd(b0, c(0x1F)), c(6)), F.BVAnd(b1, c(0x3F)))
		return fromTerm(r, true), 2
	}
	// 3-byte: E0..EF
	if m.branch(inr(b0, 0xE0, 0xEF)) {
		if n < 2 {
			return bad()
		}
		b1 := bt(1)
		lo := F.Ite(F.Eq(b0, c(0xE0)), c(0xA0), c(0x80))
		hi := F.Ite(F.Eq(b0, c(0xED)), c(0x9F), c(0xBF))
		if !m.branch(F.And(F.BVUle(lo, b1), F.BVUle(b1, hi))) {
			return bad()
		}
		if n < 3 {
			return bad()
		}
		b2 := bt(2)
		if !m.branch(inr(b2, 0x80, 0xBF)) {
			return bad()
		}
		r := F.BVOr(F.BVOr(F.BVShl(F.BVAnd(b0, c(0x0F)), c(12)), F.BVShl(F.BVAnd(b1, c(0x3F)), c(6))), F.BVAnd(b2, c(0x3F)))
		return fromTerm(r, true), 3
	}
	// 4-byte: F0..F4
	if m.branch(inr(b0, 0xF0, 0xF4)) {
		if n < 2 {
			return bad()
		}
		b1 := bt(1)
		lo := F.Ite(F.Eq(b0, c(0xF0)), c(0x90), c(0x80))
		hi := F.Ite(F.Eq(b0, c(0xF4)), c(0x8F), c(0xBF))
		if !m.branch(F.And(F.BVUle(lo, b1), F.BVUle(b1, hi))) {
			return bad()
		}
		if n < 3 {
			return bad()
		}
		b2 := bt(2)
		if !m.branch(inr(b2, 0x80, 0xBF)) {
			return bad()
		}
		if n < 4 {
			return bad()
		}
		b3 := bt(3)
		if !m.branch(inr(b3, 0x80, 0xBF)) {
			return bad()
		}
		r := F.BVOr(F.BVOr(F.BVShl(F.BVAnd(b0, c(0x07)), c(18)), F.BVShl(F.BVAnd(b1, c(0x3F)), c(12))),
			F.BVOr(F.BVShl(F.BVAnd(b2, c(0x3F)), c(6)), F.BVAnd(b3, c(0x3F))))
		return fromTerm(r, true), 4
	}
	return bad()
}

func (m *Machine) stringToRunes(x value) value {
	bs := strBytes(x)
	var out []value
	for i := 0; i < len(bs); {
		r, sz := m.decodeRuneAt(bs, i)
		out = append(out, r)
		i += sz
	}
	if out == nil {
		out = []value{}
	}
	return out
}
