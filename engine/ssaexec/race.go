package ssaexec

import (
	"fmt"
)

// Happens-before race detection over the task model (DESIGN §10.5, C09).
//
// When a harness calls verifrt.RaceDetect(label), every task carries a vector
// clock; the synchronisation operations the engine models (go statement,
// channel send/receive/close, sync.Mutex/RWMutex, sync.WaitGroup, sync/atomic)
// transfer clocks, and every load and store of an interpreted heap cell and
// every read and write of a Go map is checked against the last write / the
// reads since. Two conflicting accesses not ordered by happens-before are a
// data race under the Go memory model whatever the schedule; the schedule only
// decides which accesses happen. Synchronisation edges are over-approximated
// (a channel or an atomic location orders every earlier operation on it before
// every later one), so the detector can miss a race but does not invent one out
// of modelled synchronisation; a report is a counterexample for `label` and is
// believed only after the native replay under the Go race detector confirms it.

type vclock []uint32

func (v vclock) get(i int) uint32 {
	if i < len(v) {
		return v[i]
	}
	return 0
}

func (v vclock) join(o vclock) vclock {
	if len(o) > len(v) {
		nv := make(vclock, len(o))
		copy(nv, v)
		v = nv
	}
	for i, c := range o {
		if c > v[i] {
			v[i] = c
		}
	}
	return v
}

func (v vclock) clone() vclock { return append(vclock(nil), v...) }

type raceAccess struct {
	task  int
	clk   uint32
	where string
}

type shadowCell struct {
	w     raceAccess
	hasW  bool
	reads []raceAccess // at most one per task
}

type raceState struct {
	label    string
	vc       map[*task]vclock
	objVC    map[interface{}]vclock
	cells    map[interface{}]*shadowCell
	reported map[string]bool
	suppress int
}

func (m *Machine) race() *raceState {
	if m.path == nil || m.path.sched == nil {
		return nil
	}
	rs := m.path.sched.race
	if rs == nil || rs.suppress > 0 || len(m.path.sched.tasks) < 2 {
		return nil
	}
	return rs
}

func (rs *raceState) clockOf(t *task) vclock {
	v, ok := rs.vc[t]
	if !ok || len(v) <= t.id {
		nv := make(vclock, t.id+1)
		copy(nv, v)
		if nv[t.id] == 0 {
			nv[t.id] = 1
		}
		rs.vc[t] = nv
		return nv
	}
	return v
}

func (rs *raceState) tick(t *task) {
	v := rs.clockOf(t)
	v[t.id]++
}

// raceFork: a go statement — the child starts with the parent's clock.
func (m *Machine) raceFork(child *task) {
	if m.path == nil || m.path.sched == nil || m.path.sched.race == nil {
		return
	}
	rs := m.path.sched.race
	cur := m.path.sched.cur
	pv := rs.clockOf(cur)
	cv := pv.clone()
	if len(cv) <= child.id {
		nv := make(vclock, child.id+1)
		copy(nv, cv)
		cv = nv
	}
	cv[child.id] = 1
	rs.vc[child] = cv
	rs.tick(cur)
}

// raceSync: acquire from and release into the clock of a synchronisation
// object (mutex, atomic location, channel, wait group).
func (m *Machine) raceSync(obj interface{}, acquire, release bool) {
	if m.path == nil || m.path.sched == nil || m.path.sched.race == nil {
		return
	}
	rs := m.path.sched.race
	cur := m.path.sched.cur
	v := rs.clockOf(cur)
	if acquire {
		if ov, ok := rs.objVC[obj]; ok {
			v = v.join(ov)
			rs.vc[cur] = v
		}
	}
	if release {
		ov := rs.objVC[obj]
		rs.objVC[obj] = ov.clone().join(v)
		rs.tick(cur)
	}
}

func (m *Machine) raceWhere() string {
	return m.where()
}

func (m *Machine) raceReport(kind string, prev raceAccess, now string) {
	rs := m.path.sched.race
	key := kind + "|" + prev.where + "|" + now
	if rs.reported[key] {
		return
	}
	rs.reported[key] = true
	msg := fmt.Sprintf("%s: task %d at %s  <->  task %d at %s (no happens-before order)", kind, prev.task, prev.where, m.path.sched.cur.id, now)
	m.assertFailed(rs.label, msg)
}

func (m *Machine) raceAccessCell(key interface{}, write bool) {
	rs := m.race()
	if rs == nil {
		return
	}
	cur := m.path.sched.cur
	v := rs.clockOf(cur)
	sc := rs.cells[key]
	if sc == nil {
		sc = &shadowCell{}
		rs.cells[key] = sc
	}
	var where string
	if sc.hasW && sc.w.task != cur.id && sc.w.clk > v.get(sc.w.task) {
		where = m.raceWhere()
		if write {
			m.raceReport("write/write race", sc.w, where)
		} else {
			m.raceReport("write/read race", sc.w, where)
		}
	}
	if write {
		for _, r := range sc.reads {
			if r.task != cur.id && r.clk > v.get(r.task) {
				if where == "" {
					where = m.raceWhere()
				}
				m.raceReport("read/write race", r, where)
			}
		}
		if where == "" {
			where = m.raceWhere()
		}
		sc.w, sc.hasW = raceAccess{cur.id, v[cur.id], where}, true
		sc.reads = sc.reads[:0]
		return
	}
	for i := range sc.reads {
		if sc.reads[i].task == cur.id {
			sc.reads[i].clk = v[cur.id]
			return
		}
	}
	if where == "" {
		where = m.raceWhere()
	}
	sc.reads = append(sc.reads, raceAccess{cur.id, v[cur.id], where})
}

func (m *Machine) raceRead(addr *value) {
	if m.race() == nil || addr == nil {
		return
	}
	m.raceAccessCell(addr, false)
	switch x := (*addr).(type) {
	case structure:
		for i := range x {
			m.raceRead(&x[i])
		}
	case array:
		for i := range x {
			m.raceRead(&x[i])
		}
	}
}

func (m *Machine) raceWrite(addr *value) {
	if m.race() == nil || addr == nil {
		return
	}
	m.raceAccessCell(addr, true)
}

func (m *Machine) raceMap(mp *Map, write bool) {
	if mp == nil || m.race() == nil {
		return
	}
	m.raceAccessCell(mp, write)
}

// raceQuiet runs f with access tracking off (atomic operations and engine
// models whose real counterparts synchronise internally).
func (m *Machine) raceQuiet(f func()) {
	if m.path == nil || m.path.sched == nil || m.path.sched.race == nil {
		f()
		return
	}
	rs := m.path.sched.race
	rs.suppress++
	defer func() { rs.suppress-- }()
	f()
}

// assertFailed records a counterexample for label on the current path (any
// model of the path condition is a witness) and lets the path continue.
func (m *Machine) assertFailed(label, msg string) {
	p := m.path
	mdl := p.anyModel()
	if mdl == nil {
		p.res.Inconcl = append(p.res.Inconcl, "no model for "+label+" "+m.where())
		return
	}
	vec, ok := p.inputVector(mdl)
	ce := CounterExample{Label: label, Kind: "assert", Vector: vec, Where: m.where(), Message: msg, Trail: append([]uint64{}, p.trail...)}
	if !ok {
		ce.Message += " (model unavailable)"
	}
	p.res.CEs = append(p.res.CEs, ce)
}
