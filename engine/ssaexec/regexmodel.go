package ssaexec

import (
	"fmt"
	"regexp"
	"regexp/syntax"
	"sync"

	"verif/engine/smt"
)

// Symbolic regular-expression matcher (DESIGN §2.3 item 3): the pattern is
// compiled natively by regexp/syntax and its NFA is simulated over the
// symbolic bytes of a string of concrete length, producing one Bool term
// (no forking). Bytes >= 0x80 are treated as non-matching for ASCII classes;
// patterns that could match non-ASCII input ('.', negated classes, \pL ...)
// are unsupported when the input is symbolic.

var (
	reCacheMu sync.Mutex
	reCache   = map[string]*regexp.Regexp{}
	progCache = map[string]*syntax.Prog{}
)

func nativeRegexp(pat string) (*regexp.Regexp, error) {
	reCacheMu.Lock()
	defer reCacheMu.Unlock()
	if r, ok := reCache[pat]; ok {
		return r, nil
	}
	r, err := regexp.Compile(pat)
	if err != nil {
		return nil, err
	}
	reCache[pat] = r
	return r, nil
}

func regexProg(pat string) (*syntax.Prog, error) {
	reCacheMu.Lock()
	defer reCacheMu.Unlock()
	if p, ok := progCache[pat]; ok {
		return p, nil
	}
	re, err := syntax.Parse(pat, syntax.Perl)
	if err != nil {
		return nil, err
	}
	p, err := syntax.Compile(re.Simplify())
	if err != nil {
		return nil, err
	}
	progCache[pat] = p
	return p, nil
}

// regexMatchTerm returns a Bool term: does the (unanchored unless the pattern
// anchors) regexp match somewhere in bs?
func (m *Machine) regexMatchTerm(pat string, bs []value) *smt.Term {
	F := m.F()
	prog, err := regexProg(pat)
	if err != nil {
		panic(unsupported("regexp: " + err.Error()))
	}
	n := len(bs)
	b8 := intInfo{8, false}
	// closure: add pc (with condition c) to the state set at position i
	type set map[int]*smt.Term
	var visited map[int]bool
	var add func(s set, pc int, c *smt.Term, i int, depth int)
	add = func(s set, pc int, c *smt.Term, i int, depth int) {
		if depth == 0 {
			visited = map[int]bool{}
		}
		if c.IsFalse() || visited[pc] {
			return
		}
		visited[pc] = true
		inst := &prog.Inst[pc]
		switch inst.Op {
		case syntax.InstAlt, syntax.InstAltMatch:
			add(s, int(inst.Out), c, i, depth+1)
			add(s, int(inst.Arg), c, i, depth+1)
		case syntax.InstCapture, syntax.InstNop:
			add(s, int(inst.Out), c, i, depth+1)
		case syntax.InstEmptyWidth:
			op := syntax.EmptyOp(inst.Arg)
			ok := true
			if op&syntax.EmptyBeginText != 0 && i != 0 {
				ok = false
			}
			if op&syntax.EmptyEndText != 0 && i != n {
				ok = false
			}
			if op&^(syntax.EmptyBeginText|syntax.EmptyEndText) != 0 {
				panic(unsupported("regexp: empty-width operator other than ^ $ on symbolic input"))
			}
			if ok {
				add(s, int(inst.Out), c, i, depth+1)
			}
		case syntax.InstFail:
		default:
			if old, ok := s[pc]; ok {
				s[pc] = F.Or(old, c)
			} else {
				s[pc] = c
			}
		}
	}
	matched := F.BoolConst(false)
	cur := set{}
	for i := 0; i <= n; i++ {
		// unanchored search: a new thread starts at every position
		add(cur, prog.Start, F.BoolConst(true), i, 0)
		next := set{}
		for pc, c := range cur {
			inst := &prog.Inst[pc]
			switch inst.Op {
			case syntax.InstMatch:
				matched = F.Or(matched, c)
			case syntax.InstRune, syntax.InstRune1:
				if i == n {
					continue
				}
				if syntax.Flags(inst.Arg)&syntax.FoldCase != 0 {
					panic(unsupported("regexp: case folding on symbolic input"))
				}
				bt := m.intTerm(bs[i], b8)
				cond := F.BoolConst(false)
				rs := inst.Rune
				if len(rs) == 1 {
					rs = []rune{rs[0], rs[0]}
				}
				for k := 0; k+1 < len(rs); k += 2 {
					lo, hi := rs[k], rs[k+1]
					if hi > 0x7F {
						panic(unsupported("regexp: class reaching beyond ASCII on symbolic input"))
					}
					cond = F.Or(cond, F.And(F.BVUle(F.BVConst(uint64(lo), 8), bt), F.BVUle(bt, F.BVConst(uint64(hi), 8))))
				}
				add(next, int(inst.Out), F.And(c, cond), i+1, 0)
			case syntax.InstRuneAny, syntax.InstRuneAnyNotNL:
				panic(unsupported("regexp: '.' on symbolic input"))
			}
		}
		cur = next
	}
	return matched
}

func registerRegexp() {
	mk := func(m *Machine, fr *frame, a []value) value {
		pat, ok := a[0].(string)
		if !ok {
			panic(unsupported("regexp.Compile of symbolic pattern"))
		}
		if _, err := nativeRegexp(pat); err != nil {
			panic(unsupported("regexp.MustCompile: " + err.Error()))
		}
		return m.newStructPtr("regexp", "Regexp", map[string]value{"expr": pat})
	}
	externals["regexp.MustCompile"] = mk
	externals["regexp.Compile"] = func(m *Machine, fr *frame, a []value) value {
		pat, ok := a[0].(string)
		if !ok {
			panic(unsupported("regexp.Compile of symbolic pattern"))
		}
		if _, err := nativeRegexp(pat); err != nil {
			return tuple{(*value)(nil), m.mkError(err.Error())}
		}
		return tuple{mk(m, fr, a), iface{}}
	}
	patOf := func(recv value) string {
		p := recv.(*value)
		return (*p).(structure)[0].(string)
	}
	match := func(m *Machine, recv value, s value) value {
		pat := patOf(recv)
		switch x := s.(type) {
		case string:
			r, _ := nativeRegexp(pat)
			return r.MatchString(x)
		case *SymStr:
			return fromTerm(m.regexMatchTerm(pat, x.B), false)
		}
		panic(engineFault(fmt.Sprintf("regexp match on %T", s)))
	}
	externals["(*regexp.Regexp).MatchString"] = func(m *Machine, fr *frame, a []value) value {
		return match(m, a[0], a[1])
	}
	externals["(*regexp.Regexp).Match"] = func(m *Machine, fr *frame, a []value) value {
		return match(m, a[0], mkStr(a[1].([]value)))
	}
	externals["(*regexp.Regexp).String"] = func(m *Machine, fr *frame, a []value) value {
		return patOf(a[0])
	}
}

// mkError builds an errors.New(msg) value.
func (m *Machine) mkError(msg string) value {
	errPkg := m.eng.pkgByPath["errors"]
	if errPkg == nil {
		panic(unsupported("errors package not loaded"))
	}
	return m.call(m.cur, 0, errPkg.Func("New"), []value{msg})
}
