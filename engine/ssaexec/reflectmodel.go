package ssaexec

import (
	"go/types"
	"reflect"
)

// Minimal reflect.Type model on top of go/types (DESIGN §2.3 item 3).

func (m *Machine) mkRType(t types.Type, pkg string) value {
	p := m.eng.pkgByPath[pkg]
	if p == nil {
		panic(unsupported("package not loaded: " + pkg))
	}
	rt := p.Type("rtype")
	if rt == nil {
		panic(unsupported(pkg + ".rtype not found"))
	}
	return iface{t: m.eng.ptrTo(rt.Type()), v: rtype{t}}
}

func (e *Engine) ptrTo(t types.Type) types.Type {
	e.ptrMu.Lock()
	defer e.ptrMu.Unlock()
	if p, ok := e.ptrCache[t]; ok {
		return p
	}
	p := types.NewPointer(t)
	e.ptrCache[t] = p
	return p
}

func reflectKind(t types.Type) reflect.Kind {
	switch t := t.Underlying().(type) {
	case *types.Basic:
		switch t.Kind() {
		case types.Bool:
			return reflect.Bool
		case types.Int:
			return reflect.Int
		case types.Int8:
			return reflect.Int8
		case types.Int16:
			return reflect.Int16
		case types.Int32:
			return reflect.Int32
		case types.Int64:
			return reflect.Int64
		case types.Uint:
			return reflect.Uint
		case types.Uint8:
			return reflect.Uint8
		case types.Uint16:
			return reflect.Uint16
		case types.Uint32:
			return reflect.Uint32
		case types.Uint64:
			return reflect.Uint64
		case types.Uintptr:
			return reflect.Uintptr
		case types.Float32:
			return reflect.Float32
		case types.Float64:
			return reflect.Float64
		case types.Complex64:
			return reflect.Complex64
		case types.Complex128:
			return reflect.Complex128
		case types.String:
			return reflect.String
		case types.UnsafePointer:
			return reflect.UnsafePointer
		}
	case *types.Array:
		return reflect.Array
	case *types.Chan:
		return reflect.Chan
	case *types.Signature:
		return reflect.Func
	case *types.Interface:
		return reflect.Interface
	case *types.Map:
		return reflect.Map
	case *types.Pointer:
		return reflect.Ptr
	case *types.Slice:
		return reflect.Slice
	case *types.Struct:
		return reflect.Struct
	}
	return reflect.Invalid
}

func rtOf(a value) types.Type {
	switch x := a.(type) {
	case rtype:
		return x.t
	case iface:
		return x.v.(rtype).t
	}
	panic(unsupported("reflect: not an engine rtype"))
}

func registerReflect() {
	externals["reflect.TypeOf"] = func(m *Machine, fr *frame, a []value) value {
		x := a[0].(iface)
		if x.t == nil {
			return iface{}
		}
		return m.mkRType(x.t, "reflect")
	}
	for _, pk := range []string{"reflect", "internal/reflectlite"} {
		pkg := pk
		pre := "(*" + pkg + ".rtype)."
		externals[pre+"Kind"] = func(m *Machine, fr *frame, a []value) value {
			return int64(reflectKind(rtOf(a[0])))
		}
		externals[pre+"String"] = func(m *Machine, fr *frame, a []value) value {
			return shortType(rtOf(a[0]))
		}
		externals[pre+"Name"] = func(m *Machine, fr *frame, a []value) value {
			switch t := rtOf(a[0]).(type) {
			case *types.Named:
				return t.Obj().Name()
			case *types.Basic:
				return t.Name()
			}
			return ""
		}
		externals[pre+"PkgPath"] = func(m *Machine, fr *frame, a []value) value {
			if t, ok := rtOf(a[0]).(*types.Named); ok && t.Obj().Pkg() != nil {
				return t.Obj().Pkg().Path()
			}
			return ""
		}
		externals[pre+"Comparable"] = func(m *Machine, fr *frame, a []value) value {
			return types.Comparable(rtOf(a[0]))
		}
		externals[pre+"Elem"] = func(m *Machine, fr *frame, a []value) value {
			switch t := rtOf(a[0]).Underlying().(type) {
			case *types.Pointer:
				return m.mkRType(t.Elem(), pkg)
			case *types.Slice:
				return m.mkRType(t.Elem(), pkg)
			case *types.Array:
				return m.mkRType(t.Elem(), pkg)
			case *types.Map:
				return m.mkRType(t.Elem(), pkg)
			case *types.Chan:
				return m.mkRType(t.Elem(), pkg)
			}
			m.rtPanicPlain("reflect: Elem of invalid type " + shortType(rtOf(a[0])))
			return nil
		}
		externals[pre+"Key"] = func(m *Machine, fr *frame, a []value) value {
			if t, ok := rtOf(a[0]).Underlying().(*types.Map); ok {
				return m.mkRType(t.Key(), pkg)
			}
			m.rtPanicPlain("reflect: Key of non-map type " + shortType(rtOf(a[0])))
			return nil
		}
		externals[pre+"Len"] = func(m *Machine, fr *frame, a []value) value {
			if t, ok := rtOf(a[0]).Underlying().(*types.Array); ok {
				return t.Len()
			}
			m.rtPanicPlain("reflect: Len of non-array type " + shortType(rtOf(a[0])))
			return nil
		}
		externals[pre+"NumMethod"] = func(m *Machine, fr *frame, a []value) value {
			ms := m.prog.MethodSets.MethodSet(rtOf(a[0]))
			n := 0
			for i := 0; i < ms.Len(); i++ {
				if ms.At(i).Obj().Exported() {
					n++
				}
			}
			return int64(n)
		}
		externals[pre+"Implements"] = func(m *Machine, fr *frame, a []value) value {
			it := rtOf(a[1])
			ii, ok := it.Underlying().(*types.Interface)
			if !ok {
				m.rtPanicPlain("reflect: non-interface type passed to Type.Implements")
			}
			return m.implements(rtOf(a[0]), ii, it)
		}
		externals[pre+"AssignableTo"] = func(m *Machine, fr *frame, a []value) value {
			return types.AssignableTo(rtOf(a[0]), rtOf(a[1]))
		}
		externals[pre+"ConvertibleTo"] = func(m *Machine, fr *frame, a []value) value {
			return types.ConvertibleTo(rtOf(a[0]), rtOf(a[1]))
		}
	}
}
