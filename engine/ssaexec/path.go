package ssaexec

import (
	"fmt"
	"strings"

	"golang.org/x/tools/go/ssa"

	"verif/engine/smt"
)

// ----- control-flow panics used by the engine -----

type targetPanic struct{ v value }

type engineFault string
type unsupported string

type pathEnd struct{ reason string }

// Input describes one symbolic input in creation order (= replay vector layout).
type Input struct {
	Kind  string // bool i8 i16 i32 i64 u8 u16 u32 u64 f64 f32 bytes choose
	N     int    // for bytes: count; for choose: bound
	Terms []*smt.Term
}

type CounterExample struct {
	Label   string            `json:"label"`
	Kind    string            `json:"kind"` // assert | panic
	Message string            `json:"message,omitempty"`
	Vector  []ReplayItem      `json:"vector"`
	Where   string            `json:"where,omitempty"`
	Trail   []uint64          `json:"trail,omitempty"`
	Extra   map[string]string `json:"extra,omitempty"`
}

type ReplayItem struct {
	K string `json:"k"`
	V string `json:"v"`
}

type Observation struct {
	Label  string
	Term   *smt.Term // nil when concrete
	Signed bool
	StrB   []value
	Conc   string
}

type Model map[string]uint64

// Prefix is a queued decision prefix with (optionally) a model known to satisfy it.
type Prefix struct {
	Trail []uint64
	Model Model
}

// PathResult summarises one explored path.
type PathResult struct {
	Trail       []uint64
	Steps       int
	Decisions   int
	Queries     int
	End         string // ok | infeasible | unwind | unsupported | fault | panic
	Detail      string
	Reached     []string
	CEs         []CounterExample
	Inconcl     []string
	Traps       []string
	Sample      []ReplayItem // model of the path condition (for samples / validation)
	Observed    []string     // predicted Observe values under Sample
	Funcs       map[string]bool
	NewPrefixes []Prefix
	Stubs       map[string]bool
}

// Path holds the state of one symbolic execution path.
type Path struct {
	m        *Machine
	F        *smt.Factory
	solver   *smt.Solver
	printer  *smt.Printer
	prefix   []uint64
	trail    []uint64
	pcN      int
	inputs   []Input
	varN     int
	steps    int
	maxSteps int
	maxDec   int
	res      *PathResult
	obs      []Observation

	mapOrderAll bool
	mapPermMax  int
	vfiles      map[string]string // verifrt.TempDirWithFiles: path -> content
	vdirs       map[string]bool
	declared    int // number of F.Vars already declared in solver
	ufDeclared  int
	queries     int
	wantSample  bool
	trapHandler func(m *Machine, name string, fn *ssa.Function, args []value) (value, bool)

	lits          map[int]bool // literals implied by the path condition
	models        []Model      // models known to satisfy the current path condition
	initModel     Model        // valid once the prefix has been replayed
	blobs         []jsonBlob
	trapStrings   []value
	trapsExpected bool
	sched         *sched
	mustTerminate string
	stepBudget    int
}

func (p *Path) replaying() bool { return len(p.trail) < len(p.prefix) }

// syncDecls declares new variables / UFs to the solver.
func (p *Path) syncDecls() {
	if p.solver == nil {
		return
	}
	for ; p.declared < len(p.F.Vars); p.declared++ {
		v := p.F.Vars[p.declared]
		p.solver.Cmd(fmt.Sprintf("(declare-const %s %s)", v.Name, v.Sort.String()))
	}
	for ; p.ufDeclared < len(p.F.UFOrder); p.ufDeclared++ {
		p.solver.Cmd(p.F.UFs[p.F.UFOrder[p.ufDeclared]])
	}
}

func (p *Path) define(t *smt.Term) string {
	p.syncDecls()
	var sb strings.Builder
	name := p.printer.Define(&sb, t)
	if sb.Len() > 0 {
		p.solver.Cmds(sb.String(), strings.Count(sb.String(), "\n"))
	}
	return name
}

func (p *Path) noteLit(t *smt.Term, val bool) {
	p.lits[t.ID] = val
	switch {
	case t.Op == smt.ONot:
		p.noteLit(t.Args[0], !val)
	case t.Op == smt.OAnd && val:
		p.noteLit(t.Args[0], true)
		p.noteLit(t.Args[1], true)
	case t.Op == smt.OOr && !val:
		p.noteLit(t.Args[0], false)
		p.noteLit(t.Args[1], false)
	}
}

func (p *Path) evalBool(t *smt.Term, mdl Model) (bool, bool) {
	r, ok := p.F.Eval(t, mdl, map[int]*smt.Term{})
	if !ok {
		return false, false
	}
	return r.U == 1, true
}

// assertTerm adds t to the path condition.
func (p *Path) assertTerm(t *smt.Term) {
	if t.IsTrue() {
		return
	}
	n := p.define(t)
	p.solver.Cmd("(assert " + n + ")")
	p.pcN++
	p.noteLit(t, true)
	// keep only the models that still satisfy the path condition
	if len(p.models) > 0 {
		kept := p.models[:0]
		for _, mdl := range p.models {
			if v, ok := p.evalBool(t, mdl); ok && v {
				kept = append(kept, mdl)
			}
		}
		p.models = kept
	}
}

func (p *Path) addModel(mdl Model) {
	if mdl == nil {
		return
	}
	if len(p.models) >= 6 {
		p.models = p.models[1:]
	}
	p.models = append(p.models, mdl)
}

// fetchModel reads the values of all declared variables after a sat answer.
func (p *Path) fetchModel() Model {
	var names []string
	for _, v := range p.F.Vars {
		names = append(names, v.Name)
	}
	if len(names) == 0 {
		return Model{}
	}
	vals, err := p.solver.GetValues(names)
	if err != nil {
		p.res.Inconcl = append(p.res.Inconcl, "get-value: "+err.Error())
		return nil
	}
	return Model(vals)
}

// query asks whether pc ∧ t is satisfiable; on sat the model is returned.
func (p *Path) query(t *smt.Term) (smt.Result, Model) {
	if t.IsFalse() {
		return smt.Unsat, nil
	}
	if v, ok := p.lits[t.ID]; ok && !v {
		return smt.Unsat, nil
	}
	var r smt.Result
	var err error
	if t.IsTrue() {
		p.syncDecls()
		r, err = p.solver.CheckSatAssuming("")
	} else {
		n := p.define(t)
		r, err = p.solver.CheckSatAssuming(n)
	}
	p.queries++
	if err != nil {
		p.res.Inconcl = append(p.res.Inconcl, "solver: "+err.Error())
		if p.solver.Dead() {
			panic(pathEnd{"solver-died"})
		}
		return smt.Unknown, nil
	}
	if r == smt.Sat {
		return r, p.fetchModel()
	}
	return r, nil
}

// witnesses evaluates c under the cached models.
func (p *Path) witnesses(c *smt.Term) (wT, wF Model) {
	for _, mdl := range p.models {
		v, ok := p.evalBool(c, mdl)
		if !ok {
			continue
		}
		if v && wT == nil {
			wT = mdl
		}
		if !v && wF == nil {
			wF = mdl
		}
		if wT != nil && wF != nil {
			break
		}
	}
	return
}

func (p *Path) endReplayHook() {
	if p.initModel != nil && !p.replaying() {
		p.models = append(p.models, p.initModel)
		p.initModel = nil
	}
}

// branch decides a symbolic condition; both feasible sides are explored.
func (m *Machine) branch(c *smt.Term) bool {
	if c.IsConst() {
		return c.U == 1
	}
	p := m.path
	if p.replaying() {
		d := p.prefix[len(p.trail)]
		p.trail = append(p.trail, d)
		lit := c
		if d&1 == 0 {
			lit = p.F.Not(c)
		}
		if d&2 != 0 {
			p.noteLit(lit, true) // implied by the path condition: no need to assert
		} else {
			p.assertTerm(lit)
		}
		p.endReplayHook()
		return d&1 == 1
	}
	if len(p.trail) >= p.maxDec {
		panic(pathEnd{"unwind:decisions"})
	}
	// implied literal?
	if v, ok := p.lits[c.ID]; ok {
		if v {
			p.trail = append(p.trail, 3)
		} else {
			p.trail = append(p.trail, 2)
		}
		return v
	}
	wT, wF := p.witnesses(c)
	rt, rf := smt.Sat, smt.Sat
	if wT == nil {
		rt, wT = p.query(c)
		if wT != nil {
			p.addModel(wT)
		}
	}
	if rt == smt.Unsat {
		rf = smt.Sat // pc is satisfiable by invariant
	} else if wF == nil {
		rf, wF = p.query(p.F.Not(c))
		if wF != nil {
			p.addModel(wF)
		}
	}
	if rt == smt.Unknown || rf == smt.Unknown {
		p.res.Inconcl = append(p.res.Inconcl, "unknown at branch "+m.where())
	}
	if rt == smt.Unsat && rf == smt.Unsat {
		panic(pathEnd{"infeasible"})
	}
	if rt == smt.Unsat {
		// forced false: pc implies not c
		p.trail = append(p.trail, 2)
		p.noteLit(c, false)
		return false
	}
	if rf == smt.Unsat {
		p.trail = append(p.trail, 3)
		p.noteLit(c, true)
		return true
	}
	np := append(append([]uint64{}, p.trail...), 0)
	p.res.NewPrefixes = append(p.res.NewPrefixes, Prefix{Trail: np, Model: wF})
	p.trail = append(p.trail, 1)
	p.assertTerm(c)
	return true
}

// branchVal is branch on a bool-or-Sym value.
func (m *Machine) branchVal(v value) bool {
	switch v := v.(type) {
	case bool:
		return v
	case *Sym:
		return m.branch(v.T)
	}
	panic(engineFault(fmt.Sprintf("branchVal: %T", v)))
}

// choose is engine-level nondeterminism (not an input), e.g. map order.
func (m *Machine) choose(n int, why string) int {
	if n <= 1 {
		return 0
	}
	p := m.path
	if p.replaying() {
		d := p.prefix[len(p.trail)]
		p.trail = append(p.trail, d)
		p.endReplayHook()
		return int(d)
	}
	if len(p.trail) >= p.maxDec {
		panic(pathEnd{"unwind:decisions"})
	}
	var mdl Model
	if len(p.models) > 0 {
		mdl = p.models[0]
	}
	for i := 1; i < n; i++ {
		np := append(append([]uint64{}, p.trail...), uint64(i))
		p.res.NewPrefixes = append(p.res.NewPrefixes, Prefix{Trail: np, Model: mdl})
	}
	p.trail = append(p.trail, 0)
	return 0
}

// concretize picks a concrete value for t (forking over all feasible values).
func (m *Machine) concretize(t *smt.Term) uint64 {
	if t.IsConst() {
		return t.U
	}
	p := m.path
	for {
		var v uint64
		if p.replaying() {
			v = p.prefix[len(p.trail)]
			p.trail = append(p.trail, v)
			p.endReplayHook()
		} else {
			if len(p.trail) >= p.maxDec {
				panic(pathEnd{"unwind:decisions"})
			}
			mv, ok := p.valueOf(t)
			if !ok {
				panic(pathEnd{"infeasible"})
			}
			v = mv
			p.trail = append(p.trail, v)
		}
		var c *smt.Term
		if t.Sort.Kind == smt.KBool {
			c = t
			if v == 0 {
				c = p.F.Not(t)
			}
		} else {
			c = p.F.Eq(t, p.F.BVConst(v, t.Sort.W))
		}
		if m.branch(c) {
			return v
		}
	}
}

func (m *Machine) concretizeInt(v value, ii intInfo) int64 {
	switch x := v.(type) {
	case int64:
		return x
	case *Sym:
		return ii.norm(int64(m.concretize(x.T)))
	}
	panic(engineFault(fmt.Sprintf("concretizeInt: %T", v)))
}

// valueOf returns the value of t under some model of pc.
func (p *Path) valueOf(t *smt.Term) (uint64, bool) {
	for _, mdl := range p.models {
		if r, ok := p.F.Eval(t, mdl, map[int]*smt.Term{}); ok {
			return r.U, true
		}
	}
	r, mdl := p.query(p.F.BoolConst(true))
	if r != smt.Sat || mdl == nil {
		if r == smt.Unknown {
			p.res.Inconcl = append(p.res.Inconcl, "unknown in valueOf")
		}
		return 0, false
	}
	p.addModel(mdl)
	if rv, ok := p.F.Eval(t, mdl, map[int]*smt.Term{}); ok {
		return rv.U, true
	}
	// term not evaluable in Go (UF etc.): ask the solver
	n := p.define(t)
	rr, err := p.solver.CheckSatAssuming("")
	p.queries++
	if err != nil || rr != smt.Sat {
		return 0, false
	}
	vals, err := p.solver.GetValues([]string{n})
	if err != nil {
		return 0, false
	}
	return vals[n], true
}

// ---- inputs ----

func (p *Path) newVar(s smt.Sort) *smt.Term {
	p.varN++
	return p.F.Var(fmt.Sprintf("in%d", p.varN), s)
}

// inputVector renders the input values under a model.
func (p *Path) inputVector(mdl Model) ([]ReplayItem, bool) {
	if mdl == nil {
		return nil, false
	}
	var out []ReplayItem
	for _, in := range p.inputs {
		switch in.Kind {
		case "bytes":
			var sb strings.Builder
			for _, t := range in.Terms {
				fmt.Fprintf(&sb, "%02x", mdl[t.Name]&0xff)
			}
			out = append(out, ReplayItem{"bytes", sb.String()})
		default:
			out = append(out, ReplayItem{in.Kind, fmtInput(in.Kind, mdl[in.Terms[0].Name])})
		}
	}
	return out, true
}

func fmtInput(kind string, v uint64) string {
	switch kind {
	case "bool":
		if v == 1 {
			return "true"
		}
		return "false"
	case "i8":
		return fmt.Sprint(int8(v))
	case "i16":
		return fmt.Sprint(int16(v))
	case "i32":
		return fmt.Sprint(int32(v))
	case "i64", "choose":
		return fmt.Sprint(int64(v))
	case "f64", "f32":
		return fmt.Sprintf("0x%x", v)
	}
	return fmt.Sprint(v)
}

// anyModel returns a model of the current path condition.
func (p *Path) anyModel() Model {
	if len(p.models) > 0 {
		return p.models[0]
	}
	r, mdl := p.query(p.F.BoolConst(true))
	if r == smt.Sat && mdl != nil {
		p.addModel(mdl)
		return mdl
	}
	return nil
}

// ---- assume / assert / reach ----

func (m *Machine) assume(v value) {
	switch c := v.(type) {
	case bool:
		if !c {
			panic(pathEnd{"infeasible"})
		}
	case *Sym:
		p := m.path
		if !p.replaying() {
			if known, ok := p.lits[c.T.ID]; ok {
				if !known {
					panic(pathEnd{"infeasible"})
				}
				return
			}
			wT, _ := p.witnesses(c.T)
			if wT == nil {
				r, mdl := p.query(c.T)
				if r == smt.Unsat {
					panic(pathEnd{"infeasible"})
				}
				if r == smt.Unknown {
					p.res.Inconcl = append(p.res.Inconcl, "unknown at assume "+m.where())
				}
				p.addModel(mdl)
			}
		}
		p.assertTerm(c.T)
	default:
		panic(engineFault(fmt.Sprintf("assume: %T", v)))
	}
}

func (m *Machine) assertProp(v value, label string) {
	p := m.path
	var neg *smt.Term
	switch c := v.(type) {
	case bool:
		if c {
			return
		}
		neg = p.F.BoolConst(true)
	case *Sym:
		neg = p.F.Not(c.T)
	default:
		panic(engineFault(fmt.Sprintf("assert: %T", v)))
	}
	var r smt.Result
	var mdl Model
	if known, ok := p.lits[neg.ID]; ok && !known {
		r = smt.Unsat
	} else if neg.IsTrue() {
		mdl = p.anyModel()
		if mdl != nil {
			r = smt.Sat
		} else {
			r = smt.Unknown
		}
	} else if wT, _ := p.witnesses(neg); wT != nil {
		r, mdl = smt.Sat, wT
	} else {
		r, mdl = p.query(neg)
	}
	switch r {
	case smt.Sat:
		vec, ok := p.inputVector(mdl)
		ce := CounterExample{Label: label, Kind: "assert", Vector: vec, Where: m.where(), Trail: append([]uint64{}, p.trail...)}
		if !ok {
			ce.Message = "model unavailable"
		}
		p.res.CEs = append(p.res.CEs, ce)
	case smt.Unknown:
		p.res.Inconcl = append(p.res.Inconcl, "unknown at assert "+label+" "+m.where())
	}
	// continue under the assumption that the assertion held
	if neg.IsTrue() {
		panic(pathEnd{"assert-failed"})
	}
	pos := p.F.Not(neg)
	if r != smt.Unsat {
		if wT, _ := p.witnesses(pos); wT == nil {
			rr, m2 := p.query(pos)
			if rr == smt.Unsat {
				panic(pathEnd{"assert-failed"})
			}
			p.addModel(m2)
		}
	}
	p.assertTerm(pos)
}

func (m *Machine) reach(label string) {
	p := m.path
	for _, l := range p.res.Reached {
		if l == label {
			return
		}
	}
	p.res.Reached = append(p.res.Reached, label)
}
