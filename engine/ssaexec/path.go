package ssaexec

import (
	"fmt"
	"strings"

	"golang.org/x/tools/go/ssa"

	"verif/engine/smt"
)

// ----- control-flow panics used by the engine -----

type targetPanic struct{ v value }

type engineFault string
type unsupported string

type pathEnd struct{ reason string }

// Input describes one symbolic input in creation order (= replay vector layout).
type Input struct {
	Kind  string // bool i8 i16 i32 i64 u8 u16 u32 u64 f64 f32 bytes choose
	N     int    // for bytes: count; for choose: bound
	Terms []*smt.Term
}

type CounterExample struct {
	Label   string            `json:"label"`
	Kind    string            `json:"kind"` // assert | panic
	Message string            `json:"message,omitempty"`
	Vector  []ReplayItem      `json:"vector"`
	Where   string            `json:"where,omitempty"`
	Trail   []uint64          `json:"trail,omitempty"`
	Extra   map[string]string `json:"extra,omitempty"`
}

type ReplayItem struct {
	K string `json:"k"`
	V string `json:"v"`
}

type Observation struct {
	Label  string
	Term   *smt.Term // nil when concrete
	Signed bool
	StrB   []value
	Conc   string
}

// PathResult summarises one explored path.
type PathResult struct {
	Trail       []uint64
	Steps       int
	Decisions   int
	Queries     int
	End         string // ok | infeasible | unwind | unsupported | fault | panic
	Detail      string
	Reached     []string
	CEs         []CounterExample
	Inconcl     []string
	Sample      []ReplayItem // model of the path condition (for samples / validation)
	Observed    []string     // predicted Observe values under Sample
	Funcs       map[string]bool
	NewPrefixes [][]uint64
	Stubs       map[string]bool
}

// Path holds the state of one symbolic execution path.
type Path struct {
	m        *Machine
	F        *smt.Factory
	solver   *smt.Solver
	printer  *smt.Printer
	prefix   []uint64
	trail    []uint64
	pcN      int
	inputs   []Input
	varN     int
	steps    int
	maxSteps int
	maxDec   int
	res      *PathResult
	obs      []Observation

	mapOrderAll bool
	mapPermMax  int
	declared    int // number of F.Vars already declared in solver
	ufDeclared  int
	queries     int
	wantSample  bool
	lastModelOK bool
	trapHandler func(m *Machine, name string, fn *ssa.Function, args []value) (value, bool)
}

func (p *Path) replaying() bool { return len(p.trail) < len(p.prefix) }

// syncDecls declares new variables / UFs to the solver.
func (p *Path) syncDecls() {
	for ; p.declared < len(p.F.Vars); p.declared++ {
		v := p.F.Vars[p.declared]
		p.solver.Cmd(fmt.Sprintf("(declare-const %s %s)", v.Name, v.Sort.String()))
	}
	for ; p.ufDeclared < len(p.F.UFOrder); p.ufDeclared++ {
		p.solver.Cmd(p.F.UFs[p.F.UFOrder[p.ufDeclared]])
	}
}

func (p *Path) define(t *smt.Term) string {
	p.syncDecls()
	var sb strings.Builder
	name := p.printer.Define(&sb, t)
	if sb.Len() > 0 {
		p.solver.Cmds(sb.String(), strings.Count(sb.String(), "\n"))
	}
	return name
}

func (p *Path) assertTerm(t *smt.Term) {
	if t.IsTrue() {
		return
	}
	n := p.define(t)
	p.solver.Cmd("(assert " + n + ")")
	p.pcN++
}

// check asks whether pc ∧ t is satisfiable.
func (p *Path) check(t *smt.Term) smt.Result {
	if t.IsFalse() {
		return smt.Unsat
	}
	n := p.define(t)
	p.solver.Cmd("(push 1)")
	p.solver.Cmd("(assert " + n + ")")
	r, err := p.solver.CheckSat()
	p.queries++
	p.lastModelOK = r == smt.Sat
	if err != nil {
		p.res.Inconcl = append(p.res.Inconcl, "solver: "+err.Error())
		if p.solver.Dead() {
			panic(pathEnd{"solver-died"})
		}
		r = smt.Unknown
	}
	return r
}

func (p *Path) popCheck() { p.solver.Cmd("(pop 1)") }

// branch decides a symbolic condition; both feasible sides are explored.
func (m *Machine) branch(c *smt.Term) bool {
	if c.IsConst() {
		return c.U == 1
	}
	p := m.path
	if p.replaying() {
		d := p.prefix[len(p.trail)]
		p.trail = append(p.trail, d)
		if d == 1 {
			p.assertTerm(c)
		} else {
			p.assertTerm(p.F.Not(c))
		}
		return d == 1
	}
	if len(p.trail) >= p.maxDec {
		panic(pathEnd{"unwind:decisions"})
	}
	rt := p.check(c)
	p.popCheck()
	var rf smt.Result
	if rt == smt.Unsat {
		rf = smt.Sat // pc is satisfiable by invariant
	} else {
		rf = p.check(p.F.Not(c))
		p.popCheck()
	}
	if rt == smt.Unknown || rf == smt.Unknown {
		p.res.Inconcl = append(p.res.Inconcl, "unknown at branch "+m.where())
	}
	takeTrue := rt != smt.Unsat
	if rt != smt.Unsat && rf != smt.Unsat {
		// both sides: enqueue the false side
		np := append(append([]uint64{}, p.trail...), 0)
		p.res.NewPrefixes = append(p.res.NewPrefixes, np)
	}
	if rt == smt.Unsat && rf == smt.Unsat {
		panic(pathEnd{"infeasible"})
	}
	if takeTrue {
		p.trail = append(p.trail, 1)
		p.assertTerm(c)
	} else {
		p.trail = append(p.trail, 0)
		p.assertTerm(p.F.Not(c))
	}
	return takeTrue
}

// branchVal is branch on a bool-or-Sym value.
func (m *Machine) branchVal(v value) bool {
	switch v := v.(type) {
	case bool:
		return v
	case *Sym:
		return m.branch(v.T)
	}
	panic(engineFault(fmt.Sprintf("branchVal: %T", v)))
}

// choose is engine-level nondeterminism (not an input), e.g. map order.
func (m *Machine) choose(n int, why string) int {
	if n <= 1 {
		return 0
	}
	p := m.path
	if p.replaying() {
		d := p.prefix[len(p.trail)]
		p.trail = append(p.trail, d)
		return int(d)
	}
	if len(p.trail) >= p.maxDec {
		panic(pathEnd{"unwind:decisions"})
	}
	for i := 1; i < n; i++ {
		np := append(append([]uint64{}, p.trail...), uint64(i))
		p.res.NewPrefixes = append(p.res.NewPrefixes, np)
	}
	p.trail = append(p.trail, 0)
	return 0
}

// concretize picks a concrete value for t (forking over all feasible values).
func (m *Machine) concretize(t *smt.Term) uint64 {
	if t.IsConst() {
		return t.U
	}
	p := m.path
	for {
		var v uint64
		if p.replaying() {
			v = p.prefix[len(p.trail)]
			p.trail = append(p.trail, v)
		} else {
			if len(p.trail) >= p.maxDec {
				panic(pathEnd{"unwind:decisions"})
			}
			mv, ok := p.modelOf([]*smt.Term{t})
			if !ok {
				panic(pathEnd{"infeasible"})
			}
			v = mv[0]
			p.trail = append(p.trail, v)
		}
		var c *smt.Term
		if t.Sort.Kind == smt.KBool {
			c = t
			if v == 0 {
				c = p.F.Not(t)
			}
		} else {
			c = p.F.Eq(t, p.F.BVConst(v, t.Sort.W))
		}
		if m.branch(c) {
			return v
		}
	}
}

func (m *Machine) concretizeInt(v value, ii intInfo) int64 {
	switch x := v.(type) {
	case int64:
		return x
	case *Sym:
		return ii.norm(int64(m.concretize(x.T)))
	}
	panic(engineFault(fmt.Sprintf("concretizeInt: %T", v)))
}

// modelOf returns values of the given BV/Bool terms under some model of pc.
func (p *Path) modelOf(ts []*smt.Term) ([]uint64, bool) {
	names := make([]string, len(ts))
	for i, t := range ts {
		names[i] = p.define(t)
	}
	r, err := p.solver.CheckSat()
	p.queries++
	if err != nil || r != smt.Sat {
		if r == smt.Unknown {
			p.res.Inconcl = append(p.res.Inconcl, "unknown in modelOf")
		}
		return nil, false
	}
	// constants need no query
	var q []string
	for i, t := range ts {
		if !t.IsConst() {
			q = append(q, names[i])
		}
	}
	vals, err := p.solver.GetValues(q)
	if err != nil {
		p.res.Inconcl = append(p.res.Inconcl, "get-value: "+err.Error())
		return nil, false
	}
	out := make([]uint64, len(ts))
	for i, t := range ts {
		if t.IsConst() {
			out[i] = t.U
		} else {
			out[i] = vals[names[i]]
		}
	}
	return out, true
}

// ---- inputs ----

func (p *Path) newVar(s smt.Sort) *smt.Term {
	p.varN++
	return p.F.Var(fmt.Sprintf("in%d", p.varN), s)
}

func (p *Path) inputVector(extra *smt.Term) ([]ReplayItem, bool) {
	// assumes the solver holds pc (and extra asserted by caller within a push)
	var ts []*smt.Term
	for _, in := range p.inputs {
		ts = append(ts, in.Terms...)
	}
	var vals []uint64
	if len(ts) > 0 {
		v, ok := p.modelValues(ts)
		if !ok {
			return nil, false
		}
		vals = v
	}
	var out []ReplayItem
	k := 0
	for _, in := range p.inputs {
		switch in.Kind {
		case "bytes":
			var sb strings.Builder
			for i := 0; i < in.N; i++ {
				fmt.Fprintf(&sb, "%02x", vals[k])
				k++
			}
			out = append(out, ReplayItem{"bytes", sb.String()})
		default:
			v := vals[k]
			k++
			out = append(out, ReplayItem{in.Kind, fmtInput(in.Kind, v)})
		}
	}
	return out, true
}

func fmtInput(kind string, v uint64) string {
	switch kind {
	case "bool":
		if v == 1 {
			return "true"
		}
		return "false"
	case "i8":
		return fmt.Sprint(int8(v))
	case "i16":
		return fmt.Sprint(int16(v))
	case "i32":
		return fmt.Sprint(int32(v))
	case "i64":
		return fmt.Sprint(int64(v))
	case "f64", "f32":
		return fmt.Sprintf("0x%x", v)
	}
	return fmt.Sprint(v)
}

// modelValues: get-value after a successful check-sat (no new check).
func (p *Path) modelValues(ts []*smt.Term) ([]uint64, bool) {
	names := make([]string, len(ts))
	var q []string
	for i, t := range ts {
		names[i] = ref(t)
		if !t.IsConst() {
			q = append(q, names[i])
		}
	}
	vals, err := p.solver.GetValues(q)
	if err != nil {
		p.res.Inconcl = append(p.res.Inconcl, "get-value: "+err.Error())
		return nil, false
	}
	out := make([]uint64, len(ts))
	for i, t := range ts {
		if t.IsConst() {
			out[i] = t.U
		} else {
			out[i] = vals[names[i]]
		}
	}
	return out, true
}

func ref(t *smt.Term) string {
	if t.Op == smt.OVar {
		return t.Name
	}
	return fmt.Sprintf("t!%d", t.ID)
}

// ---- assume / assert / reach ----

func (m *Machine) assume(v value) {
	switch c := v.(type) {
	case bool:
		if !c {
			panic(pathEnd{"infeasible"})
		}
	case *Sym:
		p := m.path
		if !p.replaying() {
			r := p.check(c.T)
			p.popCheck()
			if r == smt.Unsat {
				panic(pathEnd{"infeasible"})
			}
			if r == smt.Unknown {
				p.res.Inconcl = append(p.res.Inconcl, "unknown at assume "+m.where())
			}
		}
		p.assertTerm(c.T)
	default:
		panic(engineFault(fmt.Sprintf("assume: %T", v)))
	}
}

func (m *Machine) assertProp(v value, label string) {
	p := m.path
	var neg *smt.Term
	switch c := v.(type) {
	case bool:
		if c {
			return
		}
		neg = p.F.BoolConst(true)
	case *Sym:
		neg = p.F.Not(c.T)
	default:
		panic(engineFault(fmt.Sprintf("assert: %T", v)))
	}
	r := smt.Sat
	pushed := false
	if !neg.IsTrue() {
		r = p.check(neg)
		pushed = true
	} else {
		// need a model of pc
		rr, err := p.solver.CheckSat()
		p.queries++
		if err != nil {
			rr = smt.Unknown
		}
		r = rr
	}
	switch r {
	case smt.Sat:
		vec, ok := p.inputVector(nil)
		ce := CounterExample{Label: label, Kind: "assert", Vector: vec, Where: m.where(), Trail: append([]uint64{}, p.trail...)}
		if !ok {
			ce.Message = "model unavailable"
		}
		p.res.CEs = append(p.res.CEs, ce)
	case smt.Unknown:
		p.res.Inconcl = append(p.res.Inconcl, "unknown at assert "+label+" "+m.where())
	}
	if pushed {
		p.popCheck()
	}
	// continue under the assumption that the assertion held
	if neg.IsTrue() {
		panic(pathEnd{"assert-failed"})
	}
	pos := p.F.Not(neg)
	if r != smt.Unsat {
		rr := p.check(pos)
		p.popCheck()
		if rr == smt.Unsat {
			panic(pathEnd{"assert-failed"})
		}
	}
	p.assertTerm(pos)
}

func (m *Machine) reach(label string) {
	p := m.path
	for _, l := range p.res.Reached {
		if l == label {
			return
		}
	}
	p.res.Reached = append(p.res.Reached, label)
}
