package ssaexec

import (
	"strconv"
	"unicode"

	"verif/engine/smt"
)


func registerMisc() {
	regUnicode()
	externals["strconv.FormatFloat"] = func(m *Machine, fr *frame, a []value) value {
		f, ok := a[0].(float64)
		if !ok {
			return "<symfloat>"
		}
		return strconv.FormatFloat(f, byte(a[1].(int64)), int(a[2].(int64)), int(a[3].(int64)))
	}
	externals["time.Now"] = func(m *Machine, fr *frame, a []value) value {
		panic(unsupported("time.Now"))
	}
	externals["time.now"] = func(m *Machine, fr *frame, a []value) value {
		return tuple{int64(1700000000), int64(0), int64(1)}
	}
	externals["time.runtimeNano"] = func(m *Machine, fr *frame, a []value) value { return int64(1) }
}

// ---- unicode predicates: exact on Latin-1, congruent UF above (DESIGN §2.3 item 4) ----

func unicodePred(name string, f func(rune) bool) externalFn {
	// precompute the Latin-1 ranges where f holds
	type rg struct{ lo, hi int }
	var ranges []rg
	for r := 0; r < 256; r++ {
		if f(rune(r)) {
			if n := len(ranges); n > 0 && ranges[n-1].hi == r-1 {
				ranges[n-1].hi = r
			} else {
				ranges = append(ranges, rg{r, r})
			}
		}
	}
	return func(m *Machine, fr *frame, a []value) value {
		if c, ok := a[0].(int64); ok {
			return f(rune(c))
		}
		F := m.F()
		r := a[0].(*Sym).T
		cond := F.BoolConst(false)
		for _, g := range ranges {
			var c *smt.Term
			if g.lo == g.hi {
				c = F.Eq(r, F.BVConst(uint64(g.lo), 32))
			} else {
				c = F.And(F.BVSle(F.BVConst(uint64(g.lo), 32), r), F.BVSle(r, F.BVConst(uint64(g.hi), 32)))
			}
			cond = F.Or(cond, c)
		}
		latin := F.And(F.BVSle(F.BVConst(0, 32), r), F.BVSle(r, F.BVConst(255, 32)))
		uf := F.UF("unicode_"+name, smt.Bool, r)
		return fromTerm(F.Ite(latin, cond, uf), false)
	}
}

func unicodeMap(name string, f func(rune) rune) externalFn {
	return func(m *Machine, fr *frame, a []value) value {
		if c, ok := a[0].(int64); ok {
			return int64(f(rune(c)))
		}
		F := m.F()
		r := a[0].(*Sym).T
		// Latin-1: piecewise offset table
		res := F.UF("unicode_"+name, smt.BV(32), r)
		for x := 255; x >= 0; x-- {
			y := f(rune(x))
			if y == rune(x) {
				continue
			}
			res = F.Ite(F.Eq(r, F.BVConst(uint64(x), 32)), F.BVConst(uint64(y), 32), res)
		}
		latinSame := F.And(F.BVSle(F.BVConst(0, 32), r), F.BVSle(r, F.BVConst(255, 32)))
		// inside Latin-1 and not remapped -> identity
		ident := F.BoolConst(true)
		for x := 0; x < 256; x++ {
			if f(rune(x)) != rune(x) {
				ident = F.And(ident, F.Not(F.Eq(r, F.BVConst(uint64(x), 32))))
			}
		}
		res = F.Ite(F.And(latinSame, ident), r, res)
		return fromTerm(res, true)
	}
}

func regUnicode() {
	{
		externals["unicode.IsLetter"] = unicodePred("IsLetter", unicode.IsLetter)
		externals["unicode.IsDigit"] = unicodePred("IsDigit", unicode.IsDigit)
		externals["unicode.IsNumber"] = unicodePred("IsNumber", unicode.IsNumber)
		externals["unicode.IsSpace"] = unicodePred("IsSpace", unicode.IsSpace)
		externals["unicode.IsUpper"] = unicodePred("IsUpper", unicode.IsUpper)
		externals["unicode.IsLower"] = unicodePred("IsLower", unicode.IsLower)
		externals["unicode.IsPunct"] = unicodePred("IsPunct", unicode.IsPunct)
		externals["unicode.IsPrint"] = unicodePred("IsPrint", unicode.IsPrint)
		externals["unicode.IsControl"] = unicodePred("IsControl", unicode.IsControl)
		externals["unicode.IsGraphic"] = unicodePred("IsGraphic", unicode.IsGraphic)
		externals["unicode.IsSymbol"] = unicodePred("IsSymbol", unicode.IsSymbol)
		externals["unicode.IsTitle"] = unicodePred("IsTitle", unicode.IsTitle)
		externals["unicode.ToLower"] = unicodeMap("ToLower", unicode.ToLower)
		externals["unicode.ToUpper"] = unicodeMap("ToUpper", unicode.ToUpper)
		externals["unicode.ToTitle"] = unicodeMap("ToTitle", unicode.ToTitle)
	}
}
