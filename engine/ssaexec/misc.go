package ssaexec

import (
	"strconv"
)

func registerMisc() {
	externals["strconv.FormatFloat"] = func(m *Machine, fr *frame, a []value) value {
		f, ok := a[0].(float64)
		if !ok {
			return "<symfloat>"
		}
		return strconv.FormatFloat(f, byte(a[1].(int64)), int(a[2].(int64)), int(a[3].(int64)))
	}
	externals["time.Now"] = func(m *Machine, fr *frame, a []value) value {
		panic(unsupported("time.Now"))
	}
	externals["time.now"] = func(m *Machine, fr *frame, a []value) value {
		return tuple{int64(1700000000), int64(0), int64(1)}
	}
	externals["time.runtimeNano"] = func(m *Machine, fr *frame, a []value) value { return int64(1) }
}
