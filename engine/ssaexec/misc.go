package ssaexec

import (
	"go/types"
	"math"
	"strconv"
	"unicode"

	"verif/engine/smt"
)


const objPath = "github.com/risor-io/risor/object"

// newStructPtr allocates a zeroed struct of a named type and sets fields by name.
func (m *Machine) newStructPtr(pkgPath, typeName string, fields map[string]value) *value {
	pkg := m.eng.pkgByPath[pkgPath]
	if pkg == nil {
		panic(unsupported("package not loaded: " + pkgPath))
	}
	tn := pkg.Type(typeName)
	if tn == nil {
		panic(unsupported("type not found: " + pkgPath + "." + typeName))
	}
	st := tn.Type().Underlying().(*types.Struct)
	sv := zero(st).(structure)
	for i := 0; i < st.NumFields(); i++ {
		if v, ok := fields[st.Field(i).Name()]; ok {
			sv[i] = v
		}
	}
	var cell value = sv
	return &cell
}

var mathPub1 = map[string]func(float64) float64{
	"Floor": math.Floor, "Ceil": math.Ceil, "Trunc": math.Trunc, "Sqrt": math.Sqrt, "Exp": math.Exp, "Log": math.Log,
	"Log2": math.Log2, "Log10": math.Log10, "Sin": math.Sin, "Cos": math.Cos, "Tan": math.Tan, "Round": math.Round,
	"Cbrt": math.Cbrt, "Exp2": math.Exp2, "Asin": math.Asin, "Acos": math.Acos, "Atan": math.Atan, "Sinh": math.Sinh,
	"Cosh": math.Cosh, "Tanh": math.Tanh, "RoundToEven": math.RoundToEven, "Log1p": math.Log1p, "Expm1": math.Expm1,
}

var mathPub2 = map[string]func(float64, float64) float64{
	"Pow": math.Pow, "Mod": math.Mod, "Max": math.Max, "Min": math.Min, "Atan2": math.Atan2, "Hypot": math.Hypot,
	"Remainder": math.Remainder, "Dim": math.Dim, "Copysign": math.Copysign,
}

func registerMath() {
	for n, f := range mathPub1 {
		name, fn := n, f
		externals["math."+name] = func(m *Machine, fr *frame, a []value) value {
			if c, ok := a[0].(float64); ok {
				return fn(c)
			}
			// rounding functions are exact in the FP theory
			if mode, isRound := map[string]int{"Round": 0, "RoundToEven": 1, "Trunc": 2, "Ceil": 3, "Floor": 4}[name]; isRound {
				return fromTerm(m.F().FPRound(a[0].(*Sym).T, mode), true)
			}
			return fromTerm(m.F().UF("math_"+name, smt.F64, a[0].(*Sym).T), true)
		}
	}
	for n, f := range mathPub2 {
		name, fn := n, f
		externals["math."+name] = func(m *Machine, fr *frame, a []value) value {
			x, ok1 := a[0].(float64)
			y, ok2 := a[1].(float64)
			if ok1 && ok2 {
				return fn(x, y)
			}
			return fromTerm(m.F().UF("math_"+name, smt.F64, m.floatTerm(a[0], 64), m.floatTerm(a[1], 64)), true)
		}
	}
}

func registerMisc() {
	registerMath()
	// risor-specific stubs (DESIGN §2.3): fresh allocation instead of indexing the
	// 256-entry caches with a symbolic value; pointer identity of small ints is
	// not observable by scripts.
	externals[objPath+".NewInt"] = func(m *Machine, fr *frame, a []value) value {
		if _, ok := a[0].(*Sym); !ok {
			return fallthroughExt{}
		}
		return m.newStructPtr(objPath, "Int", map[string]value{"value": a[0]})
	}
	externals[objPath+".NewByte"] = func(m *Machine, fr *frame, a []value) value {
		if _, ok := a[0].(*Sym); !ok {
			return fallthroughExt{}
		}
		return m.newStructPtr(objPath, "Byte", map[string]value{"value": a[0]})
	}
	regUnicode()
	externals["strconv.FormatFloat"] = func(m *Machine, fr *frame, a []value) value {
		f, ok := a[0].(float64)
		if !ok {
			return "<symfloat>"
		}
		return strconv.FormatFloat(f, byte(a[1].(int64)), int(a[2].(int64)), int(a[3].(int64)))
	}
	// time.Now: a fixed, monotonically increasing stub instant (wall clock is not modelled)
	externals["time.Now"] = func(m *Machine, fr *frame, a []value) value {
		m.clock++
		p := m.newStructPtr("time", "Time", map[string]value{"ext": int64(63_800_000_000) + m.clock})
		return (*p).(structure)
	}
	// timers never fire in the engine (wall-clock time is not modelled)
	externals["time.NewTimer"] = func(m *Machine, fr *frame, a []value) value {
		return m.newStructPtr("time", "Timer", map[string]value{"C": &Chan{cap: 1}})
	}
	externals["(*time.Timer).Stop"] = func(m *Machine, fr *frame, a []value) value { return true }
	externals["(*time.Timer).Reset"] = func(m *Machine, fr *frame, a []value) value { return true }
	externals["time.AfterFunc"] = func(m *Machine, fr *frame, a []value) value {
		return m.newStructPtr("time", "Timer", map[string]value{})
	}
	externals["time.now"] = func(m *Machine, fr *frame, a []value) value {
		return tuple{int64(1700000000), int64(0), int64(1)}
	}
	externals["time.runtimeNano"] = func(m *Machine, fr *frame, a []value) value { return int64(1) }
}

// ---- unicode predicates: exact on Latin-1, congruent UF above (DESIGN §2.3 item 4) ----

func unicodePred(name string, f func(rune) bool) externalFn {
	// precompute the Latin-1 ranges where f holds
	type rg struct{ lo, hi int }
	var ranges []rg
	for r := 0; r < 256; r++ {
		if f(rune(r)) {
			if n := len(ranges); n > 0 && ranges[n-1].hi == r-1 {
				ranges[n-1].hi = r
			} else {
				ranges = append(ranges, rg{r, r})
			}
		}
	}
	return func(m *Machine, fr *frame, a []value) value {
		if c, ok := a[0].(int64); ok {
			return f(rune(c))
		}
		F := m.F()
		r := a[0].(*Sym).T
		cond := F.BoolConst(false)
		for _, g := range ranges {
			var c *smt.Term
			if g.lo == g.hi {
				c = F.Eq(r, F.BVConst(uint64(g.lo), 32))
			} else {
				c = F.And(F.BVSle(F.BVConst(uint64(g.lo), 32), r), F.BVSle(r, F.BVConst(uint64(g.hi), 32)))
			}
			cond = F.Or(cond, c)
		}
		latin := F.And(F.BVSle(F.BVConst(0, 32), r), F.BVSle(r, F.BVConst(255, 32)))
		uf := F.UF("unicode_"+name, smt.Bool, r)
		return fromTerm(F.Ite(latin, cond, uf), false)
	}
}

func unicodeMap(name string, f func(rune) rune) externalFn {
	return func(m *Machine, fr *frame, a []value) value {
		if c, ok := a[0].(int64); ok {
			return int64(f(rune(c)))
		}
		F := m.F()
		r := a[0].(*Sym).T
		// Latin-1: piecewise offset table
		res := F.UF("unicode_"+name, smt.BV(32), r)
		for x := 255; x >= 0; x-- {
			y := f(rune(x))
			if y == rune(x) {
				continue
			}
			res = F.Ite(F.Eq(r, F.BVConst(uint64(x), 32)), F.BVConst(uint64(y), 32), res)
		}
		latinSame := F.And(F.BVSle(F.BVConst(0, 32), r), F.BVSle(r, F.BVConst(255, 32)))
		// inside Latin-1 and not remapped -> identity
		ident := F.BoolConst(true)
		for x := 0; x < 256; x++ {
			if f(rune(x)) != rune(x) {
				ident = F.And(ident, F.Not(F.Eq(r, F.BVConst(uint64(x), 32))))
			}
		}
		res = F.Ite(F.And(latinSame, ident), r, res)
		return fromTerm(res, true)
	}
}

func regUnicode() {
	{
		externals["unicode.IsLetter"] = unicodePred("IsLetter", unicode.IsLetter)
		externals["unicode.IsDigit"] = unicodePred("IsDigit", unicode.IsDigit)
		externals["unicode.IsNumber"] = unicodePred("IsNumber", unicode.IsNumber)
		externals["unicode.IsSpace"] = unicodePred("IsSpace", unicode.IsSpace)
		externals["unicode.IsUpper"] = unicodePred("IsUpper", unicode.IsUpper)
		externals["unicode.IsLower"] = unicodePred("IsLower", unicode.IsLower)
		externals["unicode.IsPunct"] = unicodePred("IsPunct", unicode.IsPunct)
		externals["unicode.IsPrint"] = unicodePred("IsPrint", unicode.IsPrint)
		externals["unicode.IsControl"] = unicodePred("IsControl", unicode.IsControl)
		externals["unicode.IsGraphic"] = unicodePred("IsGraphic", unicode.IsGraphic)
		externals["unicode.IsSymbol"] = unicodePred("IsSymbol", unicode.IsSymbol)
		externals["unicode.IsTitle"] = unicodePred("IsTitle", unicode.IsTitle)
		externals["unicode.ToLower"] = unicodeMap("ToLower", unicode.ToLower)
		externals["unicode.ToUpper"] = unicodeMap("ToUpper", unicode.ToUpper)
		externals["unicode.ToTitle"] = unicodeMap("ToTitle", unicode.ToTitle)
	}
}
