package ssaexec

import (
	"fmt"
	"go/token"
	"go/types"
	"runtime"
	"strings"

	"golang.org/x/tools/go/ssa"

	"verif/engine/smt"
)

// Machine is one interpreter instance (own globals, own journal). A worker
// owns exactly one machine.
type Machine struct {
	prog       *ssa.Program
	globals    map[*ssa.Global]*value
	fninfo     map[*ssa.Function]*fnInfo
	journal    []undoRec
	journaling bool
	raceActive bool // verifrt.RaceDetect is on for the current path
	path       *Path
	initPath   *Path // dummy path used while running package inits (concrete only)

	rtErrString types.Type
	cur         *frame
	depth       int
	maxDepth    int

	methodCache map[methodKey]*ssa.Function
	implCache   map[[2]types.Type]bool
	funcsSeen   map[string]bool
	stubsSeen   map[string]bool

	clock int64

	eng *Engine
}

type methodKey struct {
	t    types.Type
	name string
	pkg  *types.Package
}

type fnInfo struct {
	index    map[ssa.Value]int
	n        int
	firstNon []int // per block: index of first non-phi
	ext      externalFn
	extKnown bool
}

type deferred struct {
	fn    value
	args  []value
	instr *ssa.Defer
	tail  *deferred
}

type frame struct {
	m                *Machine
	caller           *frame
	fn               *ssa.Function
	block, prevBlock *ssa.BasicBlock
	env              []value
	info             *fnInfo
	locals           []value
	defers           *deferred
	result           value
	panicking        bool
	panic            interface{}
	cur              ssa.Instruction
}

func (m *Machine) info(fn *ssa.Function) *fnInfo {
	if fi, ok := m.fninfo[fn]; ok {
		return fi
	}
	fi := &fnInfo{index: map[ssa.Value]int{}}
	add := func(v ssa.Value) {
		fi.index[v] = fi.n
		fi.n++
	}
	for _, p := range fn.Params {
		add(p)
	}
	for _, fv := range fn.FreeVars {
		add(fv)
	}
	for _, b := range fn.Blocks {
		first := len(b.Instrs)
		for i, in := range b.Instrs {
			if _, ok := in.(*ssa.Phi); !ok && first == len(b.Instrs) {
				first = i
			}
			if v, ok := in.(ssa.Value); ok {
				add(v)
			}
		}
		fi.firstNon = append(fi.firstNon, first)
	}
	m.fninfo[fn] = fi
	return fi
}

func (fr *frame) get(key ssa.Value) value {
	switch key := key.(type) {
	case nil:
		return nil
	case *ssa.Function:
		return key
	case *ssa.Builtin:
		return key
	case *ssa.Const:
		return fr.m.constValue(key)
	case *ssa.Global:
		if r, ok := fr.m.globals[key]; ok {
			return r
		}
		panic(engineFault("no storage for global " + key.String()))
	}
	if i, ok := fr.info.index[key]; ok {
		return fr.env[i]
	}
	panic(engineFault(fmt.Sprintf("get: no value for %T: %v", key, key.Name())))
}

func (fr *frame) set(key ssa.Value, v value) {
	fr.env[fr.info.index[key]] = v
}

// where describes the current source position (for diagnostics).
func (m *Machine) where() string {
	fr := m.cur
	for fr != nil {
		if fr.cur != nil && fr.cur.Pos() != token.NoPos {
			return fr.fn.String() + "@" + m.prog.Fset.Position(fr.cur.Pos()).String()
		}
		if fr.cur != nil {
			return fr.fn.String()
		}
		fr = fr.caller
	}
	return "?"
}

func (m *Machine) stack() string {
	var sb strings.Builder
	n := 0
	for fr := m.cur; fr != nil && n < 12; fr = fr.caller {
		pos := ""
		if fr.cur != nil && fr.cur.Pos() != token.NoPos {
			p := m.prog.Fset.Position(fr.cur.Pos())
			pos = fmt.Sprintf("%s:%d", p.Filename, p.Line)
		}
		fmt.Fprintf(&sb, "%s %s; ", fr.fn.String(), pos)
		n++
	}
	return sb.String()
}

// rtPanic raises a Go run-time panic in the target program.
func (m *Machine) rtPanic(msg string) {
	panic(targetPanic{iface{m.rtErrString, msg}})
}

func (fr *frame) runDefer(d *deferred) {
	var ok bool
	defer func() {
		if !ok {
			r := recover()
			if isEngineAbort(r) {
				panic(r)
			}
			fr.panicking = true
			fr.panic = r
		}
	}()
	fr.m.call(fr, d.instr.Pos(), d.fn, d.args)
	ok = true
}

func isEngineAbort(r interface{}) bool {
	switch r.(type) {
	case targetPanic:
		return false
	case nil:
		return false
	}
	return true // engineFault, unsupported, pathEnd, native runtime errors (engine bugs)
}

func (fr *frame) runDefers() {
	for d := fr.defers; d != nil; d = d.tail {
		fr.runDefer(d)
	}
	fr.defers = nil
	if fr.panicking {
		panic(fr.panic)
	}
}

func (m *Machine) lookupMethod(t types.Type, meth *types.Func) *ssa.Function {
	k := methodKey{t, meth.Name(), meth.Pkg()}
	if f, ok := m.methodCache[k]; ok {
		return f
	}
	f := m.prog.LookupMethod(t, meth.Pkg(), meth.Name())
	m.methodCache[k] = f
	return f
}

func (m *Machine) implements(t types.Type, it *types.Interface, itT types.Type) bool {
	k := [2]types.Type{t, itT}
	if r, ok := m.implCache[k]; ok {
		return r
	}
	meth, _ := types.MissingMethod(t, it, true)
	r := meth == nil
	m.implCache[k] = r
	return r
}

func (m *Machine) step() {
	p := m.path
	p.steps++
	if p.steps > p.maxSteps {
		panic(pathEnd{"unwind:steps"})
	}
}

// asPtr returns an ordinary pointer, concretizing lazy element pointers.
func (m *Machine) asPtr(v value) *value {
	switch p := v.(type) {
	case *value:
		return p
	case *symElemPtr:
		i := m.concretizeInt(&Sym{p.idx}, intInfo{p.idx.Sort.W, true})
		return &p.elems[i]
	case poison:
		panic(unsupported("pointer is poison: " + p.why))
	}
	panic(engineFault(fmt.Sprintf("asPtr: %T", v)))
}

// symElemPtr is &elems[idx] with a symbolic in-range index over scalar elements.
type symElemPtr struct {
	elems []value
	idx   *smt.Term // in range [0,len) (already checked)
	ii    intInfo   // element int info (w==0 for bool / float)
	et    types.Type
}

func (m *Machine) loadAny(addr value) value {
	switch p := addr.(type) {
	case *value:
		return m.load(p)
	case *symElemPtr:
		return m.symSelect(p)
	case poison:
		panic(unsupported("load through poison pointer: " + p.why))
	}
	panic(engineFault(fmt.Sprintf("load: %T", addr)))
}

func (m *Machine) storeAny(addr value, v value) {
	switch p := addr.(type) {
	case *value:
		m.store(p, v)
		return
	case *symElemPtr:
		F := m.F()
		vt := m.scalarTerm(v, p.et)
		for i := range p.elems {
			c := F.Eq(p.idx, F.BVConst(uint64(i), p.idx.Sort.W))
			old := m.scalarTerm(p.elems[i], p.et)
			m.write(&p.elems[i], fromTermT(F.Ite(c, vt, old), p.et))
		}
		return
	case poison:
		panic(unsupported("store through poison pointer: " + p.why))
	}
	panic(engineFault(fmt.Sprintf("store: %T", addr)))
}

func (m *Machine) scalarTerm(v value, t types.Type) *smt.Term {
	if ii, ok := intOf(t); ok {
		return m.intTerm(v, ii)
	}
	if w, ok := isFloat(t); ok {
		return m.floatTerm(v, w)
	}
	if isBool(t) {
		return m.boolTerm(v)
	}
	panic(engineFault("scalarTerm: " + typeString(t)))
}

func fromTermT(t *smt.Term, ty types.Type) value {
	if ii, ok := intOf(ty); ok {
		return fromTerm(t, ii.signed)
	}
	return fromTerm(t, true)
}

func isScalarType(t types.Type) bool {
	if _, ok := intOf(t); ok {
		return true
	}
	if _, ok := isFloat(t); ok {
		return true
	}
	return isBool(t)
}

// symSelect reads elems[idx] as an ite chain, grouping equal concrete values.
func (m *Machine) symSelect(p *symElemPtr) value {
	F := m.F()
	w := p.idx.Sort.W
	type grp struct {
		term *smt.Term
		idxs []int
	}
	var groups []*grp
	byID := map[int]*grp{}
	for i, e := range p.elems {
		t := m.scalarTerm(e, p.et)
		g := byID[t.ID]
		if g == nil {
			g = &grp{term: t}
			byID[t.ID] = g
			groups = append(groups, g)
		}
		g.idxs = append(g.idxs, i)
	}
	// the largest group becomes the default
	def := 0
	for i, g := range groups {
		if len(g.idxs) > len(groups[def].idxs) {
			def = i
		}
	}
	res := groups[def].term
	for gi, g := range groups {
		if gi == def {
			continue
		}
		// condition: idx in g.idxs, using ranges for runs
		cond := F.BoolConst(false)
		for k := 0; k < len(g.idxs); {
			j := k
			for j+1 < len(g.idxs) && g.idxs[j+1] == g.idxs[j]+1 {
				j++
			}
			var c *smt.Term
			if j == k {
				c = F.Eq(p.idx, F.BVConst(uint64(g.idxs[k]), w))
			} else {
				c = F.And(F.BVUle(F.BVConst(uint64(g.idxs[k]), w), p.idx), F.BVUle(p.idx, F.BVConst(uint64(g.idxs[j]), w)))
			}
			cond = F.Or(cond, c)
			k = j + 1
		}
		res = F.Ite(cond, g.term, res)
	}
	return fromTermT(res, p.et)
}

// indexCheck performs the bounds check of x[idx] and returns either a
// concrete index or, for scalar element types, a symbolic in-range index.
func (m *Machine) indexCheck(idx value, it types.Type, n int) (int, *smt.Term) {
	ii, _ := intOf(it)
	switch i := idx.(type) {
	case int64:
		var oob bool
		if ii.signed {
			oob = i < 0 || i >= int64(n)
		} else {
			oob = uint64(i) >= uint64(n)
		}
		if oob {
			m.rtPanic(fmt.Sprintf("index out of range [%d] with length %d", i, n))
		}
		return int(i), nil
	case *Sym:
		F := m.F()
		t := i.T
		var inb *smt.Term
		// does n exceed every value of the index type?
		var maxv uint64 = ^uint64(0)
		if ii.w < 64 {
			maxv = (uint64(1) << uint(ii.w)) - 1
		}
		if ii.signed {
			maxv >>= 1
		}
		upper := F.BoolConst(true)
		if uint64(n) <= maxv {
			if ii.signed {
				upper = F.BVSlt(t, F.BVConst(uint64(n), ii.w))
			} else {
				upper = F.BVUlt(t, F.BVConst(uint64(n), ii.w))
			}
		}
		if ii.signed {
			inb = F.And(F.BVSle(F.BVConst(0, ii.w), t), upper)
		} else {
			inb = upper
		}
		if !m.branch(inb) {
			m.rtPanic(fmt.Sprintf("index out of range [symbolic] with length %d", n))
		}
		if n == 1 {
			return 0, nil
		}
		return -1, t
	}
	panic(engineFault(fmt.Sprintf("indexCheck: %T", idx)))
}

func (m *Machine) elemAddr(elems []value, idx value, it types.Type, et types.Type) value {
	ci, st := m.indexCheck(idx, it, len(elems))
	if st == nil {
		return &elems[ci]
	}
	if isScalarType(et) {
		return &symElemPtr{elems: elems, idx: st, et: et}
	}
	ii, _ := intOf(it)
	i := m.concretizeInt(&Sym{st}, ii)
	return &elems[i]
}

func (m *Machine) visitInstr(fr *frame, instr ssa.Instruction) (ret bool, jump bool) {
	m.step()
	fr.cur = instr
	switch instr := instr.(type) {
	case *ssa.DebugRef:

	case *ssa.UnOp:
		if instr.Op == token.MUL {
			fr.set(instr, m.loadAny(fr.get(instr.X)))
		} else {
			fr.set(instr, m.unop(instr, fr.get(instr.X)))
		}

	case *ssa.BinOp:
		fr.set(instr, m.binop(instr.Op, instr.X.Type(), instr.Y.Type(), fr.get(instr.X), fr.get(instr.Y)))

	case *ssa.Call:
		fn, args := m.prepareCall(fr, &instr.Call)
		fr.set(instr, m.call(fr, instr.Pos(), fn, args))

	case *ssa.ChangeInterface:
		fr.set(instr, fr.get(instr.X))

	case *ssa.ChangeType:
		fr.set(instr, fr.get(instr.X))

	case *ssa.Convert:
		fr.set(instr, m.conv(instr.Type(), instr.X.Type(), fr.get(instr.X)))

	case *ssa.MultiConvert:
		fr.set(instr, m.conv(instr.Type(), instr.X.Type(), fr.get(instr.X)))

	case *ssa.SliceToArrayPointer:
		x := fr.get(instr.X).([]value)
		n := int(deref(instr.Type()).Underlying().(*types.Array).Len())
		if len(x) < n {
			m.rtPanic("cannot convert slice to array pointer: length too short")
		}
		if x == nil {
			fr.set(instr, (*value)(nil))
		} else {
			var cell value = array(x[:n:n])
			fr.set(instr, &cell)
		}

	case *ssa.MakeInterface:
		fr.set(instr, iface{t: instr.X.Type(), v: fr.get(instr.X)})

	case *ssa.Extract:
		fr.set(instr, fr.get(instr.Tuple).(tuple)[instr.Index])

	case *ssa.Slice:
		fr.set(instr, m.slice(instr, fr.get(instr.X), fr.get(instr.Low), fr.get(instr.High), fr.get(instr.Max)))

	case *ssa.Return:
		switch len(instr.Results) {
		case 0:
		case 1:
			fr.result = fr.get(instr.Results[0])
		default:
			res := make(tuple, len(instr.Results))
			for i, r := range instr.Results {
				res[i] = fr.get(r)
			}
			fr.result = res
		}
		fr.block = nil
		return true, false

	case *ssa.RunDefers:
		fr.runDefers()

	case *ssa.Panic:
		panic(targetPanic{fr.get(instr.X)})

	case *ssa.Send:
		m.chanSend(fr.get(instr.Chan).(*Chan), fr.get(instr.X))

	case *ssa.Store:
		m.storeAny(fr.get(instr.Addr), fr.get(instr.Val))

	case *ssa.If:
		succ := 1
		if m.branchVal(fr.get(instr.Cond)) {
			succ = 0
		}
		fr.prevBlock, fr.block = fr.block, fr.block.Succs[succ]
		return false, true

	case *ssa.Jump:
		fr.prevBlock, fr.block = fr.block, fr.block.Succs[0]
		return false, true

	case *ssa.Defer:
		fn, args := m.prepareCall(fr, &instr.Call)
		defers := &fr.defers
		if instr.DeferStack != nil {
			if into := fr.get(instr.DeferStack); into != nil {
				defers = into.(**deferred)
			}
		}
		*defers = &deferred{fn: fn, args: args, instr: instr, tail: *defers}

	case *ssa.Go:
		fn, args := m.prepareCall(fr, &instr.Call)
		m.spawn(fr, instr, fn, args)

	case *ssa.MakeChan:
		n := m.concretizeInt(fr.get(instr.Size), intInfo{64, true})
		fr.set(instr, m.makeChan(int(n)))

	case *ssa.Alloc:
		et := deref(instr.Type())
		if instr.Heap {
			addr := new(value)
			*addr = zero(et)
			fr.set(instr, addr)
		} else {
			addr := fr.get(instr).(*value)
			*addr = zero(et)
		}

	case *ssa.MakeSlice:
		ii := intInfo{64, true}
		ln := m.concretizeInt(fr.get(instr.Len), ii)
		cp := m.concretizeInt(fr.get(instr.Cap), ii)
		if ln < 0 || ln > 1<<24 {
			m.rtPanic("makeslice: len out of range")
		}
		if cp < ln || cp > 1<<24 {
			m.rtPanic("makeslice: cap out of range")
		}
		sl := make([]value, cp)
		tElt := instr.Type().Underlying().(*types.Slice).Elem()
		for i := range sl {
			sl[i] = zero(tElt)
		}
		fr.set(instr, sl[:ln])

	case *ssa.MakeMap:
		fr.set(instr, newMap(instr.Type().Underlying().(*types.Map).Key()))

	case *ssa.Range:
		x := fr.get(instr.X)
		switch xv := x.(type) {
		case *Map:
			fr.set(instr, m.mapRange(xv))
		case string, *SymStr:
			fr.set(instr, &stringIter{bs: strBytes(xv)})
		default:
			panic(engineFault(fmt.Sprintf("range over %T", x)))
		}

	case *ssa.Next:
		fr.set(instr, fr.get(instr.Iter).(iter).next(m))

	case *ssa.FieldAddr:
		p := m.asPtr(fr.get(instr.X))
		if p == nil {
			m.rtPanic("invalid memory address or nil pointer dereference")
		}
		s, ok := (*p).(structure)
		if !ok {
			if po, isP := (*p).(poison); isP {
				panic(unsupported("field of poison struct: " + po.why))
			}
			panic(engineFault(fmt.Sprintf("FieldAddr on %T in %s", *p, fr.fn)))
		}
		fr.set(instr, &s[instr.Field])

	case *ssa.Field:
		fr.set(instr, copyVal(fr.get(instr.X).(structure)[instr.Field]))

	case *ssa.IndexAddr:
		x := fr.get(instr.X)
		idx := fr.get(instr.Index)
		switch xv := x.(type) {
		case []value:
			et := instr.X.Type().Underlying().(*types.Slice).Elem()
			fr.set(instr, m.elemAddr(xv, idx, instr.Index.Type(), et))
		case *value:
			if xv == nil {
				m.rtPanic("invalid memory address or nil pointer dereference")
			}
			et := deref(instr.X.Type()).Underlying().(*types.Array).Elem()
			fr.set(instr, m.elemAddr((*xv).(array), idx, instr.Index.Type(), et))
		default:
			panic(engineFault(fmt.Sprintf("IndexAddr on %T", x)))
		}

	case *ssa.Index:
		x := fr.get(instr.X)
		idx := fr.get(instr.Index)
		switch xv := x.(type) {
		case array:
			et := instr.X.Type().Underlying().(*types.Array).Elem()
			fr.set(instr, m.loadAny(m.elemAddr(xv, idx, instr.Index.Type(), et)))
		case string, *SymStr:
			bs := strBytes(xv)
			fr.set(instr, m.loadAny(m.elemAddr(bs, idx, instr.Index.Type(), types.Typ[types.Uint8])))
		default:
			panic(engineFault(fmt.Sprintf("Index on %T", x)))
		}

	case *ssa.Lookup:
		x := fr.get(instr.X)
		switch xv := x.(type) {
		case *Map:
			v, ok := m.mapLookup(xv, fr.get(instr.Index))
			if !ok {
				v = zero(instr.X.Type().Underlying().(*types.Map).Elem())
			}
			if instr.CommaOk {
				fr.set(instr, tuple{v, ok})
			} else {
				fr.set(instr, v)
			}
		case poison:
			panic(unsupported("lookup in poison map: " + xv.why))
		default:
			panic(engineFault(fmt.Sprintf("Lookup on %T", x)))
		}

	case *ssa.MapUpdate:
		mv := fr.get(instr.Map)
		mp, ok := mv.(*Map)
		if !ok {
			panic(unsupported(fmt.Sprintf("MapUpdate on %T", mv)))
		}
		m.mapInsert(mp, fr.get(instr.Key), fr.get(instr.Value))

	case *ssa.TypeAssert:
		fr.set(instr, m.typeAssert(instr, fr.get(instr.X)))

	case *ssa.MakeClosure:
		bindings := make([]value, len(instr.Bindings))
		for i, b := range instr.Bindings {
			bindings[i] = fr.get(b)
		}
		fr.set(instr, &closure{instr.Fn.(*ssa.Function), bindings})

	case *ssa.Select:
		fr.set(instr, m.doSelect(fr, instr))

	default:
		panic(engineFault(fmt.Sprintf("unexpected instruction: %T", instr)))
	}
	return false, false
}

func (m *Machine) typeAssert(instr *ssa.TypeAssert, x value) value {
	itf, ok := x.(iface)
	if !ok {
		if p, isP := x.(poison); isP {
			panic(unsupported("type assertion on poison: " + p.why))
		}
		panic(engineFault(fmt.Sprintf("typeAssert on %T", x)))
	}
	var v value
	okk := false
	if it, isI := instr.AssertedType.Underlying().(*types.Interface); isI {
		if itf.t != nil && m.implements(itf.t, it, instr.AssertedType) {
			v = itf
			okk = true
		}
	} else if itf.t != nil && types.Identical(itf.t, instr.AssertedType) {
		v = copyVal(itf.v)
		okk = true
	}
	if !okk {
		if !instr.CommaOk {
			have := "nil"
			if itf.t != nil {
				have = typeString(itf.t)
			}
			m.rtPanic(fmt.Sprintf("interface conversion: interface is %s, not %s", have, typeString(instr.AssertedType)))
		}
		v = zero(instr.AssertedType)
	}
	if instr.CommaOk {
		return tuple{v, okk}
	}
	return v
}

func (m *Machine) slice(instr *ssa.Slice, x, lo, hi, max value) value {
	ii := intInfo{64, true}
	var Len, Cap int
	switch xv := x.(type) {
	case string:
		Len = len(xv)
		Cap = Len
	case *SymStr:
		Len = len(xv.B)
		Cap = Len
	case []value:
		Len, Cap = len(xv), cap(xv)
	case *value:
		if xv == nil {
			m.rtPanic("invalid memory address or nil pointer dereference")
		}
		a := (*xv).(array)
		Len, Cap = len(a), cap(a)
		if Cap > Len {
			Cap = Len
		}
	default:
		panic(engineFault(fmt.Sprintf("slice of %T", x)))
	}
	l := int64(0)
	if lo != nil {
		l = m.concretizeInt(lo, ii)
	}
	h := int64(Len)
	if hi != nil {
		h = m.concretizeInt(hi, ii)
	}
	mx := int64(Cap)
	if max != nil {
		mx = m.concretizeInt(max, ii)
	}
	_, isStr := x.(string)
	_, isSStr := x.(*SymStr)
	if isStr || isSStr {
		if h < 0 || h > int64(Len) {
			m.rtPanic(fmt.Sprintf("slice bounds out of range [:%d] with length %d", h, Len))
		}
		if l < 0 || l > h {
			m.rtPanic(fmt.Sprintf("slice bounds out of range [%d:%d]", l, h))
		}
		if isStr {
			return x.(string)[l:h]
		}
		return mkStr(x.(*SymStr).B[l:h])
	}
	if mx < 0 || mx > int64(Cap) {
		m.rtPanic(fmt.Sprintf("slice bounds out of range [::%d] with capacity %d", mx, Cap))
	}
	if h < 0 || h > mx {
		m.rtPanic(fmt.Sprintf("slice bounds out of range [:%d] with capacity %d", h, mx))
	}
	if l < 0 || l > h {
		m.rtPanic(fmt.Sprintf("slice bounds out of range [%d:%d]", l, h))
	}
	switch xv := x.(type) {
	case []value:
		if xv == nil {
			return []value(nil)
		}
		return xv[l:h:mx]
	case *value:
		a := (*xv).(array)
		return []value(a)[l:h:mx]
	}
	panic("unreachable")
}

func (m *Machine) prepareCall(fr *frame, call *ssa.CallCommon) (fn value, args []value) {
	v := fr.get(call.Value)
	if call.Method == nil {
		fn = v
	} else {
		recv, ok := v.(iface)
		if !ok {
			if p, isP := v.(poison); isP {
				panic(unsupported("method call on poison: " + p.why))
			}
			panic(engineFault(fmt.Sprintf("invoke on %T", v)))
		}
		if recv.t == nil {
			m.rtPanic("invalid memory address or nil pointer dereference")
		}
		f := m.lookupMethod(recv.t, call.Method)
		if f == nil {
			panic(engineFault(fmt.Sprintf("method set for dynamic type %v does not contain %s", recv.t, call.Method)))
		}
		fn = f
		args = append(args, copyVal(recv.v))
	}
	for _, arg := range call.Args {
		args = append(args, copyVal(fr.get(arg)))
	}
	return
}

func (m *Machine) call(caller *frame, callpos token.Pos, fn value, args []value) value {
	switch fn := fn.(type) {
	case *ssa.Function:
		if fn == nil {
			m.rtPanic("invalid memory address or nil pointer dereference")
		}
		return m.callSSA(caller, callpos, fn, args, nil)
	case *closure:
		if fn == nil {
			m.rtPanic("invalid memory address or nil pointer dereference")
		}
		return m.callSSA(caller, callpos, fn.Fn, args, fn.Env)
	case *ssa.Builtin:
		return m.callBuiltin(caller, callpos, fn, args)
	case *nativeFunc:
		return fn.f(m, caller, args)
	case poison:
		panic(unsupported("call of poison func: " + fn.why))
	}
	panic(engineFault(fmt.Sprintf("cannot call %T", fn)))
}

// fallthroughExt is returned by an external to request normal interpretation.
type fallthroughExt struct{}

// nativeFunc is an engine-implemented function value.
type nativeFunc struct {
	name string
	f    func(m *Machine, caller *frame, args []value) value
}

func (m *Machine) callSSA(caller *frame, callpos token.Pos, fn *ssa.Function, args []value, env []value) value {
	fi := m.info(fn)
	if !fi.extKnown {
		fi.ext = m.eng.lookupExternal(fn)
		fi.extKnown = true
	}
	fr := &frame{m: m, caller: caller, fn: fn, info: fi}
	if fi.ext != nil {
		saved := m.cur
		m.cur = fr
		if m.stubsSeen != nil {
			m.stubsSeen[fn.String()] = true
		}
		r := fi.ext(m, fr, args)
		m.cur = saved
		if _, ft := r.(fallthroughExt); !ft {
			return r
		}
	}
	if fn.Blocks == nil {
		panic(unsupported("no code for function: " + fn.String()))
	}
	if fn.TypeParams().Len() > 0 && len(fn.TypeArgs()) == 0 {
		panic(engineFault("uninstantiated generic: " + fn.String()))
	}
	if m.funcsSeen != nil {
		m.funcsSeen[fn.String()] = true
	}
	m.depth++
	if m.depth > m.maxDepth {
		m.depth--
		panic(pathEnd{"unwind:depth"})
	}
	saved := m.cur
	m.cur = fr
	defer func() { m.cur = saved; m.depth-- }()

	fr.env = make([]value, fi.n)
	fr.block = fn.Blocks[0]
	fr.locals = make([]value, len(fn.Locals))
	for i, l := range fn.Locals {
		fr.locals[i] = zero(deref(l.Type()))
		fr.env[fi.index[l]] = &fr.locals[i]
	}
	for i, p := range fn.Params {
		fr.env[fi.index[p]] = args[i]
	}
	for i, fv := range fn.FreeVars {
		fr.env[fi.index[fv]] = env[i]
	}
	for fr.block != nil {
		m.runFrame(fr)
	}
	return fr.result
}

func (m *Machine) runFrame(fr *frame) {
	defer func() {
		if fr.block == nil {
			return // normal return
		}
		r := recover()
		if isEngineAbort(r) {
			if re, ok := r.(runtime.Error); ok {
				buf := make([]byte, 8192)
				n := runtime.Stack(buf, false)
				panic(engineFault(fmt.Sprintf("native runtime error: %v at %s\n%s", re, m.where(), buf[:n])))
			}
			panic(r)
		}
		m.cur = fr
		fr.panicking = true
		fr.panic = r
		fr.runDefers()
		fr.block = fr.fn.Recover
		if fr.block == nil {
			// recovered, function without named results: return zero values
			fr.result = zero(fr.fn.Signature.Results())
			if fr.fn.Signature.Results().Len() == 0 {
				fr.result = nil
			}
		}
	}()
	for {
		blk := fr.block
		first := fr.info.firstNon[blk.Index]
		if first > 0 {
			predIndex := -1
			for i, p := range blk.Preds {
				if p == fr.prevBlock {
					predIndex = i
					break
				}
			}
			tmp := make([]value, first)
			for i := 0; i < first; i++ {
				tmp[i] = fr.get(blk.Instrs[i].(*ssa.Phi).Edges[predIndex])
			}
			for i := 0; i < first; i++ {
				fr.set(blk.Instrs[i].(*ssa.Phi), tmp[i])
			}
		}
		for _, instr := range blk.Instrs[first:] {
			ret, jump := m.visitInstr(fr, instr)
			if ret {
				return
			}
			if jump {
				break
			}
		}
	}
}

func (m *Machine) doRecover(caller *frame) value {
	if caller != nil && !caller.panicking && caller.caller != nil && caller.caller.panicking {
		caller.caller.panicking = false
		p := caller.caller.panic
		caller.caller.panic = nil
		switch p := p.(type) {
		case targetPanic:
			return p.v
		default:
			panic(engineFault(fmt.Sprintf("unexpected panic type %T in recover", p)))
		}
	}
	return iface{}
}
