package ssaexec

import (
	"fmt"
	"go/token"
	"go/types"
	"strconv"
	"strings"

	"golang.org/x/tools/go/ssa"
)

// fmt model: formatting runs natively on converted arguments. Symbolic
// strings are spliced in byte-exactly for %s/%v; other symbolic values print
// as an opaque marker (formatting of symbolic numbers is not modelled).

func registerFmt() {
	externals["fmt.Sprintf"] = func(m *Machine, fr *frame, a []value) value {
		return m.sprintf(fr, a[0], a[1].([]value))
	}
	externals["fmt.Errorf"] = func(m *Machine, fr *frame, a []value) value {
		return m.errorf(fr, a[0], a[1].([]value))
	}
	externals["fmt.Sprint"] = func(m *Machine, fr *frame, a []value) value {
		return m.sprint(fr, a[0].([]value), false)
	}
	externals["fmt.Sprintln"] = func(m *Machine, fr *frame, a []value) value {
		return m.sprint(fr, a[0].([]value), true)
	}
	externals["fmt.Fprintf"] = func(m *Machine, fr *frame, a []value) value {
		s := m.sprintf(fr, a[1], a[2].([]value))
		return m.writeTo(fr, a[0], s)
	}
	externals["fmt.Fprint"] = func(m *Machine, fr *frame, a []value) value {
		s := m.sprint(fr, a[1].([]value), false)
		return m.writeTo(fr, a[0], s)
	}
	externals["fmt.Fprintln"] = func(m *Machine, fr *frame, a []value) value {
		s := m.sprint(fr, a[1].([]value), true)
		return m.writeTo(fr, a[0], s)
	}
	for _, n := range []string{"fmt.Printf", "fmt.Println", "fmt.Print"} {
		name := n
		externals[name] = func(m *Machine, fr *frame, a []value) value {
			return m.trap(name, nil, a)
		}
	}
}

func (m *Machine) writeTo(fr *frame, w value, s value) value {
	wi := w.(iface)
	if wi.t == nil {
		m.rtPanic("invalid memory address or nil pointer dereference")
	}
	f := m.findMethod(wi.t, "Write")
	if f == nil {
		panic(engineFault("writeTo: no Write method on " + typeString(wi.t)))
	}
	bs := append([]value{}, strBytes(s)...)
	return m.call(fr, token.NoPos, f, []value{copyVal(wi.v), bs})
}

const symMarkL = "\x01\x02SYM"
const symMarkR = "\x02\x01"

type fmtCtx struct {
	m     *Machine
	fr    *frame
	syms  [][]value // symbolic byte strings referenced by markers
	depth int
}

func (c *fmtCtx) marker(b []value) string {
	c.syms = append(c.syms, b)
	return fmt.Sprintf("%s%d%s", symMarkL, len(c.syms)-1, symMarkR)
}

func shortType(t types.Type) string {
	return types.TypeString(t, func(p *types.Package) string { return p.Name() })
}

// native converts an interpreter value to a Go value for fmt. verb is the
// formatting verb (0 for Sprint).
func (c *fmtCtx) native(t types.Type, v value, verb byte) interface{} {
	m := c.m
	c.depth++
	defer func() { c.depth-- }()
	if c.depth > 6 {
		return "..."
	}
	if t == nil {
		return nil
	}
	// error / Stringer take precedence for %v %s %q and Sprint
	if verb == 'v' || verb == 's' || verb == 'q' || verb == 0 {
		if _, isRT := v.(rtype); !isRT {
			if f := m.findMethod(t, "Error"); f != nil && f.Signature.Params().Len() == 0 && f.Signature.Results().Len() == 1 && isString(f.Signature.Results().At(0).Type()) {
				if p, ok := v.(*value); ok && p == nil {
					return "<nil>"
				}
				r := m.call(c.fr, token.NoPos, f, []value{copyVal(v)})
				return c.strNative(r)
			}
			if f := m.findMethod(t, "String"); f != nil && f.Signature.Params().Len() == 0 && f.Signature.Results().Len() == 1 && isString(f.Signature.Results().At(0).Type()) {
				if p, ok := v.(*value); ok && p == nil {
					return "<nil>"
				}
				r := m.call(c.fr, token.NoPos, f, []value{copyVal(v)})
				return c.strNative(r)
			}
		}
	}
	switch x := v.(type) {
	case nil:
		return nil
	case bool:
		return x
	case int64:
		if ii, ok := intOf(t); ok {
			if !ii.signed {
				switch ii.w {
				case 8:
					return uint8(x)
				case 16:
					return uint16(x)
				case 32:
					return uint32(x)
				}
				return uint64(x)
			}
			switch ii.w {
			case 8:
				return int8(x)
			case 16:
				return int16(x)
			case 32:
				return int32(x)
			}
			if k, _ := basicKind(t); k == types.Int {
				return int(x)
			}
			return x
		}
		return x
	case float64:
		if w, _ := isFloat(t); w == 32 {
			return float32(x)
		}
		return x
	case string:
		return x
	case *SymStr:
		return c.marker(x.B)
	case *Sym:
		return "<sym>"
	case iface:
		if x.t == nil {
			return nil
		}
		return c.native(x.t, x.v, verb)
	case rtype:
		return shortType(x.t)
	case *value:
		if x == nil {
			return nil
		}
		if verb == 'p' {
			return x
		}
		// &{...} for pointers to structs at top level
		if st, ok := deref(t).Underlying().(*types.Struct); ok && c.depth == 1 {
			_ = st
			inner := c.native(deref(t), *x, verb)
			return ptrTo{inner}
		}
		return fmt.Sprintf("%p", x)
	case []value:
		if sl, ok := t.Underlying().(*types.Slice); ok {
			if k, _ := basicKind(sl.Elem()); k == types.Uint8 {
				bs := make([]byte, len(x))
				allc := true
				for i, b := range x {
					if cb, ok := b.(int64); ok {
						bs[i] = byte(cb)
					} else {
						allc = false
					}
				}
				if allc {
					return bs
				}
				return "<sym bytes>"
			}
			out := make([]interface{}, len(x))
			for i, e := range x {
				out[i] = c.native(sl.Elem(), e, verb)
			}
			return out
		}
	case array:
		at := t.Underlying().(*types.Array)
		out := make([]interface{}, len(x))
		for i, e := range x {
			out[i] = c.native(at.Elem(), e, verb)
		}
		return out
	case structure:
		st := t.Underlying().(*types.Struct)
		out := make(structFmt, len(x))
		for i, e := range x {
			out[i] = c.native(st.Field(i).Type(), e, verb)
		}
		return out
	case *Map:
		if x == nil {
			return map[string]interface{}{}
		}
		mt := t.Underlying().(*types.Map)
		out := map[string]interface{}{}
		for _, e := range x.entries {
			if !e.deleted {
				out[fmt.Sprint(c.native(mt.Key(), e.k, 'v'))] = c.native(mt.Elem(), e.v, verb)
			}
		}
		return out
	case *Chan:
		// a channel prints as its address under every verb: distinct per object
		if x == nil {
			return addrFmt("<nil>")
		}
		return addrFmt(fmt.Sprintf("%p", x))
	case *ssa.Function, *closure:
		return "0xfunc"
	case poison:
		return "<poison>"
	case unsafePtr:
		return "0xptr"
	}
	return fmt.Sprintf("<%T>", v)
}

type structFmt []interface{}

func (s structFmt) Format(f fmt.State, verb rune) {
	f.Write([]byte("{"))
	for i, e := range s {
		if i > 0 {
			f.Write([]byte(" "))
		}
		fmt.Fprintf(f, "%"+string(verb), e)
	}
	f.Write([]byte("}"))
}

type addrFmt string

func (a addrFmt) Format(f fmt.State, verb rune) { f.Write([]byte(a)) }

type ptrTo struct{ inner interface{} }

func (p ptrTo) Format(f fmt.State, verb rune) {
	f.Write([]byte("&"))
	fmt.Fprintf(f, "%"+string(verb), p.inner)
}

func (c *fmtCtx) strNative(r value) interface{} {
	switch s := r.(type) {
	case string:
		return s
	case *SymStr:
		return c.marker(s.B)
	}
	return fmt.Sprintf("<%T>", r)
}

// splice replaces markers with the symbolic bytes.
func (c *fmtCtx) splice(s string) value {
	if len(c.syms) == 0 || !strings.Contains(s, symMarkL) {
		return s
	}
	var out []value
	for {
		i := strings.Index(s, symMarkL)
		if i < 0 {
			break
		}
		j := strings.Index(s[i:], symMarkR)
		if j < 0 {
			break
		}
		for k := 0; k < i; k++ {
			out = append(out, int64(s[k]))
		}
		n, _ := strconv.Atoi(s[i+len(symMarkL) : i+j])
		if n >= 0 && n < len(c.syms) {
			out = append(out, c.syms[n]...)
		}
		s = s[i+j+len(symMarkR):]
	}
	for k := 0; k < len(s); k++ {
		out = append(out, int64(s[k]))
	}
	return mkStr(out)
}

type fmtVerb struct {
	start, end int // position of '%' and one past the verb
	verb       byte
	argIdx     int
}

func parseVerbs(format string) []fmtVerb {
	var out []fmtVerb
	arg := 0
	for i := 0; i < len(format); i++ {
		if format[i] != '%' {
			continue
		}
		j := i + 1
		for j < len(format) && strings.IndexByte("+-# 0123456789.", format[j]) >= 0 {
			j++
		}
		if j < len(format) && format[j] == '[' {
			k := strings.IndexByte(format[j:], ']')
			if k > 0 {
				n, err := strconv.Atoi(format[j+1 : j+k])
				if err == nil {
					arg = n - 1
				}
				j += k + 1
			}
		}
		if j < len(format) && format[j] == '*' {
			arg++
			j++
		}
		if j >= len(format) {
			break
		}
		if format[j] == '%' {
			i = j
			continue
		}
		out = append(out, fmtVerb{i, j + 1, format[j], arg})
		arg++
		i = j
	}
	return out
}

func (m *Machine) sprintf(fr *frame, format value, args []value) value {
	fs, ok := format.(string)
	if !ok {
		return "<symbolic format>"
	}
	c := &fmtCtx{m: m, fr: fr}
	verbs := parseVerbs(fs)
	nat := make([]interface{}, len(args))
	done := make([]bool, len(args))
	var sb strings.Builder
	last := 0
	for _, v := range verbs {
		sb.WriteString(fs[last:v.start])
		spec := fs[v.start:v.end]
		if v.argIdx < len(args) {
			ai := args[v.argIdx].(iface)
			switch v.verb {
			case 'T':
				if ai.t == nil {
					nat[v.argIdx] = "<nil>"
				} else if rt, ok := ai.v.(rtype); ok {
					_ = rt
					nat[v.argIdx] = "*reflect.rtype"
				} else {
					nat[v.argIdx] = shortType(ai.t)
				}
				spec = spec[:len(spec)-1] + "s"
			case 'w':
				nat[v.argIdx] = c.native(ai.t, ai.v, 'v')
				spec = spec[:len(spec)-1] + "v"
			default:
				nat[v.argIdx] = c.native(ai.t, ai.v, v.verb)
				if s, ok := nat[v.argIdx].(string); ok && s == "<sym>" && v.verb != 'v' && v.verb != 's' {
					spec = "%s"
				}
			}
			done[v.argIdx] = true
		}
		sb.WriteString(spec)
		last = v.end
	}
	sb.WriteString(fs[last:])
	for i := range args {
		if !done[i] {
			ai := args[i].(iface)
			nat[i] = c.native(ai.t, ai.v, 'v')
		}
	}
	return c.splice(fmt.Sprintf(sb.String(), nat...))
}

func (m *Machine) sprint(fr *frame, args []value, ln bool) value {
	c := &fmtCtx{m: m, fr: fr}
	nat := make([]interface{}, len(args))
	for i := range args {
		ai := args[i].(iface)
		nat[i] = c.native(ai.t, ai.v, 0)
	}
	if ln {
		return c.splice(fmt.Sprintln(nat...))
	}
	return c.splice(fmt.Sprint(nat...))
}

func (m *Machine) errorf(fr *frame, format value, args []value) value {
	msg := m.sprintf(fr, format, args)
	fs, _ := format.(string)
	var wrapped *iface
	for _, v := range parseVerbs(fs) {
		if v.verb == 'w' && v.argIdx < len(args) {
			ai := args[v.argIdx].(iface)
			if ai.t != nil {
				if in, ok := ai.v.(iface); ok {
					ai = in
				}
				wrapped = &ai
			}
			break
		}
	}
	fmtPkg := m.eng.pkgByPath["fmt"]
	if wrapped != nil && fmtPkg != nil {
		if wt := fmtPkg.Type("wrapError"); wt != nil {
			var cell value = structure{msg, *wrapped}
			return iface{t: types.NewPointer(wt.Type()), v: &cell}
		}
	}
	errPkg := m.eng.pkgByPath["errors"]
	if errPkg == nil {
		panic(unsupported("errors package not loaded"))
	}
	return m.call(fr, token.NoPos, errPkg.Func("New"), []value{msg})
}
