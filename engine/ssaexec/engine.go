package ssaexec

import (
	"fmt"
	"go/token"
	"go/types"
	"os"
	"path/filepath"
	"runtime"
	"sort"
	"strings"
	"sync"
	"time"

	"golang.org/x/tools/go/packages"
	"golang.org/x/tools/go/ssa"
	"golang.org/x/tools/go/ssa/ssautil"

	"verif/engine/smt"
)

type externalFn func(m *Machine, fr *frame, args []value) value

// Engine holds the loaded program and configuration shared by all workers.
type Engine struct {
	Prog     *ssa.Program
	Pkgs     []*packages.Package
	pkgByPath map[string]*ssa.Package
	RepoDir  string
	ModPath  string

	SolverKind string
	TimeoutMs  int
	Verbose    bool
	Thorough   bool
	Seed       int

	initOrder []*ssa.Package
	LoadTime  time.Duration
	ptrMu     sync.Mutex
	ptrCache  map[types.Type]types.Type
}

type LoadConfig struct {
	RepoDir  string
	Patterns []string
	Overlay  map[string][]byte
	Tags     []string
}

// Load loads packages from the repository's current working tree plus overlay
// harness files and builds SSA for the whole dependency closure.
func Load(lc LoadConfig) (*Engine, error) {
	t0 := time.Now()
	cfg := &packages.Config{
		Mode: packages.NeedName | packages.NeedFiles | packages.NeedCompiledGoFiles | packages.NeedImports |
			packages.NeedDeps | packages.NeedTypes | packages.NeedTypesSizes | packages.NeedSyntax | packages.NeedTypesInfo | packages.NeedModule,
		Dir:     lc.RepoDir,
		Overlay: lc.Overlay,
		Env: append(os.Environ(), "GOFLAGS=-mod=mod", "GOWORK=off", "GOPROXY=off", "GOSUMDB=off",
			"GOTOOLCHAIN=local", "CGO_ENABLED=0"),
		BuildFlags: []string{"-tags=" + strings.Join(lc.Tags, ",")},
	}
	pkgs, err := packages.Load(cfg, lc.Patterns...)
	if err != nil {
		return nil, err
	}
	var errs []string
	packages.Visit(pkgs, nil, func(p *packages.Package) {
		for _, e := range p.Errors {
			errs = append(errs, e.Error())
		}
	})
	if len(errs) > 0 {
		if len(errs) > 20 {
			errs = errs[:20]
		}
		return nil, fmt.Errorf("load errors:\n%s", strings.Join(errs, "\n"))
	}
	prog, _ := ssautil.AllPackages(pkgs, ssa.InstantiateGenerics|ssa.SanityCheckFunctions&0)
	prog.Build()
	e := &Engine{Prog: prog, Pkgs: pkgs, RepoDir: lc.RepoDir, pkgByPath: map[string]*ssa.Package{},
		SolverKind: "z3", TimeoutMs: 20000, ptrCache: map[types.Type]types.Type{}}
	for _, p := range prog.AllPackages() {
		e.pkgByPath[p.Pkg.Path()] = p
	}
	// dependency-ordered init list
	seen := map[*types.Package]bool{}
	var visit func(p *types.Package)
	visit = func(p *types.Package) {
		if seen[p] {
			return
		}
		seen[p] = true
		imps := p.Imports()
		sort.Slice(imps, func(i, j int) bool { return imps[i].Path() < imps[j].Path() })
		for _, q := range imps {
			visit(q)
		}
		if sp := prog.Package(p); sp != nil {
			e.initOrder = append(e.initOrder, sp)
		}
	}
	for _, p := range pkgs {
		visit(p.Types)
	}
	e.LoadTime = time.Since(t0)
	return e, nil
}

func (e *Engine) Package(path string) *ssa.Package { return e.pkgByPath[path] }

// NewMachine creates an interpreter instance and runs package initialisers
// for the allow-listed packages concretely.
func (e *Engine) NewMachine() (*Machine, []string) {
	m := &Machine{
		prog:        e.Prog,
		globals:     map[*ssa.Global]*value{},
		fninfo:      map[*ssa.Function]*fnInfo{},
		methodCache: map[methodKey]*ssa.Function{},
		implCache:   map[[2]types.Type]bool{},
		eng:         e,
		maxDepth:    2000,
	}
	rt := e.Prog.ImportedPackage("runtime")
	if rt == nil {
		panic("no runtime package")
	}
	m.rtErrString = rt.Type("errorString").Object().Type()
	for _, pkg := range e.Prog.AllPackages() {
		for _, mem := range pkg.Members {
			if g, ok := mem.(*ssa.Global); ok {
				cell := zero(deref(g.Type()))
				m.globals[g] = &cell
			}
		}
	}
	// init
	ip := &Path{m: m, F: smt.NewFactory(), maxSteps: 1 << 40, maxDec: 0, res: &PathResult{}, lits: map[int]bool{}}
	m.path = ip
	var problems []string
	for _, pkg := range e.initOrder {
		if !e.initAllowed(pkg.Pkg.Path()) {
			continue
		}
		fn := pkg.Func("init")
		if fn == nil {
			continue
		}
		func() {
			t0 := time.Now()
			defer func() {
				if r := recover(); r != nil {
					problems = append(problems, fmt.Sprintf("init %s: %s", pkg.Pkg.Path(), describePanic(r)))
				}
				if e.Verbose {
					fmt.Fprintf(os.Stderr, "init %s: %v steps=%d\n", pkg.Pkg.Path(), time.Since(t0), ip.steps)
				}
			}()
			m.initPackage(pkg, fn)
		}()
	}
	m.path = nil
	m.cur = nil
	m.depth = 0
	return m, problems
}

// initPackage runs the synthetic init function but isolates each top-level
// instruction group so that one unsupported initialiser poisons only its own
// variable. The synthetic init is: guard check; import inits; var inits; init#N calls.
func (m *Machine) initPackage(pkg *ssa.Package, fn *ssa.Function) {
	// mark init done guard so that nested calls return immediately
	if g, ok := pkg.Members["init$guard"].(*ssa.Global); ok {
		if *m.globals[g] == true {
			return
		}
		*m.globals[g] = true
	}
	fi := m.info(fn)
	fr := &frame{m: m, fn: fn, info: fi}
	fr.env = make([]value, fi.n)
	fr.locals = make([]value, len(fn.Locals))
	for i, l := range fn.Locals {
		fr.locals[i] = zero(deref(l.Type()))
		fr.env[fi.index[l]] = &fr.locals[i]
	}
	m.cur = fr
	// The init body's control flow is: block0 (guard) -> block1 (body) -> block2 (return),
	// but initialisers containing && / || / conditionals add blocks. Execute
	// normally; on unsupported/fault inside an instruction, poison its result
	// (or the target of the following Store) and continue.
	fr.block = fn.Blocks[0]
	for fr.block != nil {
		blk := fr.block
		first := fi.firstNon[blk.Index]
		if first > 0 {
			predIndex := -1
			for i, p := range blk.Preds {
				if p == fr.prevBlock {
					predIndex = i
				}
			}
			tmp := make([]value, first)
			for i := 0; i < first; i++ {
				tmp[i] = fr.get(blk.Instrs[i].(*ssa.Phi).Edges[predIndex])
			}
			for i := 0; i < first; i++ {
				fr.set(blk.Instrs[i].(*ssa.Phi), tmp[i])
			}
		}
		for _, instr := range blk.Instrs[first:] {
			// skip calls to imported packages' init (we run them ourselves in order)
			if c, ok := instr.(*ssa.Call); ok {
				if callee := c.Call.StaticCallee(); callee != nil && callee.Name() == "init" && callee.Pkg != pkg && callee.Synthetic != "" {
					continue
				}
			}
			if _, ok := instr.(*ssa.If); ok && blk.Index == 0 {
				// guard check: always proceed to the body
				fr.prevBlock, fr.block = blk, blk.Succs[1]
				break
			}
			var ret, jump bool
			func() {
				defer func() {
					if r := recover(); r != nil {
						why := describePanic(r)
						if v, ok := instr.(ssa.Value); ok {
							fr.set(v, poison{why})
						}
						if m.eng.Verbose {
							fmt.Fprintf(os.Stderr, "init %s: poisoned %v: %s\n", pkg.Pkg.Path(), instr, why)
						}
						m.depth = 0
						m.cur = fr
						if _, isIf := instr.(*ssa.If); isIf {
							panic(r)
						}
					}
				}()
				ret, jump = m.visitInstr(fr, instr)
			}()
			if ret {
				fr.block = nil
				break
			}
			if jump {
				break
			}
		}
	}
}

func describePanic(r interface{}) string {
	switch p := r.(type) {
	case targetPanic:
		return "target panic: " + panicText(p.v)
	case engineFault:
		return "engine fault: " + string(p)
	case unsupported:
		return "unsupported: " + string(p)
	case pathEnd:
		return "path end: " + p.reason
	case runtime.Error:
		buf := make([]byte, 4096)
		n := runtime.Stack(buf, false)
		return "native runtime error: " + p.Error() + "\n" + string(buf[:n])
	}
	return fmt.Sprintf("%T: %v", r, r)
}

func panicText(v value) string {
	if i, ok := v.(iface); ok {
		if s, ok := i.v.(string); ok {
			return s
		}
		return "(" + typeStringOrNil(i.t) + ") " + toString(i.v)
	}
	return toString(v)
}

func typeStringOrNil(t types.Type) string {
	if t == nil {
		return "nil"
	}
	return typeString(t)
}

var initAllowStd = map[string]bool{
	"strings": true, "strconv": true, "unicode": true, "unicode/utf8": true, "unicode/utf16": true, "sort": true, "slices": true,
	"path": true, "path/filepath": true, "errors": true, "encoding/hex": true, "encoding/base64": true,
	"encoding/base32": true, "net/url": true, "math": true, "math/bits": true, "bytes": true, "io": true,
	"io/fs": true, "context": true, "regexp/syntax": true, "maps": true, "cmp": true, "internal/bytealg": true,
	"internal/itoa": true, "internal/stringslite": true, "fmt": true, "sync": true, "sync/atomic": true, "time": false, "os": false,
	"internal/oserror": true, "syscall": false, "reflect": false, "encoding/binary": true, "hash/crc32": false,
	"bufio": true, "encoding": true, "encoding/json": false, "text/tabwriter": false, "unique": false,
	"iter": true, "internal/godebug": false, "internal/filepathlite": true, "math/rand": false, "math/big": false,
}

func (e *Engine) initAllowed(path string) bool {
	if strings.HasPrefix(path, "github.com/risor-io/risor") {
		return true
	}
	return initAllowStd[path]
}

// ---------------- exploration ----------------

type Bounds struct {
	MaxSteps     int
	MaxDecisions int
	MaxPaths     int
	MaxDepth     int
	MaxCEs       int
	Samples      int
}

func DefaultBounds() Bounds {
	return Bounds{MaxSteps: 2_000_000, MaxDecisions: 400, MaxPaths: 200_000, MaxDepth: 400, MaxCEs: 24, Samples: 4}
}

type HarnessResult struct {
	Name        string            `json:"name"`
	Pkg         string            `json:"pkg"`
	Paths       int               `json:"paths"`
	Completed   int               `json:"completed_paths"`
	Infeasible  int               `json:"infeasible_paths"`
	Decisions   int               `json:"decisions"`
	Steps       int64             `json:"ssa_steps"`
	Queries     int               `json:"solver_queries"`
	SolverMs    int64             `json:"solver_ms"`
	WallMs      int64             `json:"wall_ms"`
	Unwind      int               `json:"unwinding_failures"`
	UnwindWhy   map[string]int    `json:"unwinding_reasons,omitempty"`
	Unsupported []string          `json:"unsupported,omitempty"`
	Faults      []string          `json:"engine_faults,omitempty"`
	Inconcl     []string          `json:"inconclusive,omitempty"`
	Traps       []string          `json:"traps_reached,omitempty"`
	Reach       map[string]int    `json:"reach_labels"`
	CEs         []CounterExample  `json:"counterexamples,omitempty"`
	Samples     [][]ReplayItem    `json:"samples,omitempty"`
	Funcs       []string          `json:"functions_encoded"`
	Stubs       []string          `json:"stubs_used,omitempty"`
	PathsCapped bool              `json:"paths_capped"`
	Bounds      Bounds            `json:"bounds"`
	Predictions []Prediction      `json:"-"`
	EndKinds    map[string]int    `json:"end_kinds"`
	SolverErrs  int               `json:"solver_errors"`
}

// Prediction is a (input vector, expected observations) pair for translator validation.
type Prediction struct {
	Vector   []ReplayItem `json:"vector"`
	Observed []string     `json:"observed"`
	End      string       `json:"end"`
}

// Explore runs one harness function over all paths within bounds using nw workers.
func (e *Engine) Explore(pkgPath, fnName string, b Bounds, nw int, machines []*Machine) *HarnessResult {
	t0 := time.Now()
	hr := &HarnessResult{Name: fnName, Pkg: pkgPath, Reach: map[string]int{}, Bounds: b,
		UnwindWhy: map[string]int{}, EndKinds: map[string]int{}}
	pkg := e.pkgByPath[pkgPath]
	if pkg == nil {
		hr.Faults = append(hr.Faults, "package not loaded: "+pkgPath)
		return hr
	}
	fn := pkg.Func(fnName)
	if fn == nil {
		hr.Faults = append(hr.Faults, "harness not found: "+fnName)
		return hr
	}
	var mu sync.Mutex
	cond := sync.NewCond(&mu)
	stack := []Prefix{{}}
	active := 0
	started := 0
	funcs := map[string]bool{}
	stubs := map[string]bool{}
	ceCount := map[string]int{}
	uniq := func(list *[]string, s string) {
		for _, x := range *list {
			if x == s {
				return
			}
		}
		if len(*list) < 40 {
			*list = append(*list, s)
		}
	}
	var wg sync.WaitGroup
	for w := 0; w < nw && w < len(machines); w++ {
		wg.Add(1)
		go func(m *Machine) {
			defer wg.Done()
			solver, err := smt.Start(e.SolverKind, e.TimeoutMs)
			if err != nil {
				mu.Lock()
				hr.Faults = append(hr.Faults, "solver start: "+err.Error())
				mu.Unlock()
				return
			}
			defer func() {
				mu.Lock()
				hr.SolverMs += solver.Time.Milliseconds()
				hr.SolverErrs += solver.Errors
				mu.Unlock()
				solver.Close()
			}()
			for {
				mu.Lock()
				for len(stack) == 0 && active > 0 {
					cond.Wait()
				}
				if len(stack) == 0 && active == 0 {
					mu.Unlock()
					cond.Broadcast()
					return
				}
				if started >= b.MaxPaths {
					hr.PathsCapped = true
					stack = nil
					mu.Unlock()
					cond.Broadcast()
					if active == 0 {
						return
					}
					mu.Lock()
					for active > 0 {
						cond.Wait()
					}
					mu.Unlock()
					return
				}
				prefix := stack[len(stack)-1]
				stack = stack[:len(stack)-1]
				active++
				started++
				wantSample := len(hr.Predictions) < 32
				mu.Unlock()

				res := m.runPath(fn, prefix, b, solver, wantSample)

				mu.Lock()
				active--
				hr.Paths++
				hr.Steps += int64(res.Steps)
				hr.Decisions += res.Decisions
				hr.Queries += res.Queries
				hr.EndKinds[res.End]++
				switch {
				case res.End == "ok" || res.End == "panic" || res.End == "assert-failed":
					hr.Completed++
				case res.End == "infeasible":
					hr.Infeasible++
				case strings.HasPrefix(res.End, "unwind") || strings.HasPrefix(res.End, "deadlock"):
					hr.Unwind++
					hr.UnwindWhy[res.End+" "+res.Detail]++
				case res.End == "unsupported":
					uniq(&hr.Unsupported, res.Detail)
				default:
					uniq(&hr.Faults, res.End+": "+res.Detail)
				}
				for _, l := range res.Reached {
					hr.Reach[l]++
				}
				for _, s := range res.Inconcl {
					uniq(&hr.Inconcl, s)
				}
				for _, s := range res.Traps {
					uniq(&hr.Traps, s)
				}
				for _, ce := range res.CEs {
					if ceCount[ce.Label] < b.MaxCEs {
						ceCount[ce.Label]++
						hr.CEs = append(hr.CEs, ce)
					}
				}
				if res.Sample != nil {
					if len(hr.Samples) < b.Samples {
						hr.Samples = append(hr.Samples, res.Sample)
					}
					if len(hr.Predictions) < 32 {
						hr.Predictions = append(hr.Predictions, Prediction{res.Sample, res.Observed, res.End})
					}
				}
				for f := range res.Funcs {
					funcs[f] = true
				}
				for f := range res.Stubs {
					stubs[f] = true
				}
				if stack != nil || !hr.PathsCapped {
					for i := len(res.NewPrefixes) - 1; i >= 0; i-- {
						stack = append(stack, res.NewPrefixes[i])
					}
				}
				mu.Unlock()
				cond.Broadcast()
			}
		}(machines[w])
	}
	wg.Wait()
	for f := range funcs {
		hr.Funcs = append(hr.Funcs, f)
	}
	sort.Strings(hr.Funcs)
	for f := range stubs {
		hr.Stubs = append(hr.Stubs, f)
	}
	sort.Strings(hr.Stubs)
	hr.WallMs = time.Since(t0).Milliseconds()
	return hr
}

// runPath executes the harness once along the given decision prefix.
func (m *Machine) runPath(fn *ssa.Function, pfx Prefix, b Bounds, solver *smt.Solver, wantSample bool) (res *PathResult) {
	prefix := pfx.Trail
	res = &PathResult{Funcs: map[string]bool{}, Stubs: map[string]bool{}}
	if err := solver.Reset(); err != nil {
		res.End = "fault"
		res.Detail = "solver reset: " + err.Error()
		return
	}
	p := &Path{m: m, F: smt.NewFactory(), solver: solver, printer: smt.NewPrinter(), prefix: prefix,
		maxSteps: b.MaxSteps, maxDec: b.MaxDecisions, res: res, mapPermMax: 4, wantSample: wantSample,
		lits: map[int]bool{}, initModel: pfx.Model}
	if len(prefix) == 0 {
		p.initModel = nil
	}
	p.sched = newSched()
	m.raceActive = false
	p.stepBudget = b.MaxSteps
	m.path = p
	m.journaling = true
	m.maxDepth = b.MaxDepth
	m.depth = 0
	m.cur = nil
	m.funcsSeen = res.Funcs
	m.stubsSeen = res.Stubs
	m.clock = 0
	defer func() {
		r := recover()
		func() {
			defer func() {
				if r2 := recover(); r2 != nil && r == nil {
					r = r2
				}
			}()
			m.killTasks()
		}()
		m.rollback()
		m.journaling = false
		res.Trail = p.trail
		res.Steps = p.steps
		res.Decisions = len(p.trail)
		res.Queries = p.queries
		m.path = nil
		if r == nil {
			return
		}
		switch x := r.(type) {
		case pathEnd:
			res.End = x.reason
			res.Detail = m.where()
			if (x.reason == "unwind:steps" || strings.HasPrefix(x.reason, "deadlock")) && p.mustTerminate != "" {
				// the harness declared that the code under test must terminate within the
				// step budget: running out of steps is a counterexample (non-termination)
				if len(p.models) == 0 && p.initModel != nil {
					p.models = append(p.models, p.initModel)
				}
				if len(p.models) > 0 {
					if vec, ok := p.inputVector(p.models[0]); ok {
						res.CEs = append(res.CEs, CounterExample{Label: p.mustTerminate, Kind: "assert", Vector: vec,
							Message: fmt.Sprintf("did not terminate (%s; step budget %d)", x.reason, p.maxSteps), Where: res.Detail})
						res.End = "assert-failed"
						return
					}
				}
			}
			if strings.HasPrefix(x.reason, "unwind") || strings.HasPrefix(x.reason, "deadlock") {
				// keep an input that leads here, to make the bound failure diagnosable
				if len(p.models) == 0 && p.initModel != nil {
					p.models = append(p.models, p.initModel)
				}
				if len(p.models) > 0 {
					if vec, ok := p.inputVector(p.models[0]); ok {
						res.Detail += fmt.Sprintf(" input=%v", vec)
					}
				}
			}
		case unsupported:
			res.End = "unsupported"
			res.Detail = string(x) + " at " + m.stack()
		case engineFault:
			res.End = "fault"
			res.Detail = string(x) + " at " + m.stack()
		default:
			res.End = "fault"
			res.Detail = describePanic(r) + " at " + m.stack()
		}
	}()
	func() {
		defer func() {
			r := recover()
			if r == nil {
				return
			}
			tp, ok := r.(targetPanic)
			if !ok {
				panic(r)
			}
			// Go panic escaped the harness: reportable event
			res.End = "panic"
			msg := m.panicMessage(tp.v)
			ce := CounterExample{Label: "go-panic", Kind: "panic", Message: msg, Where: m.where(), Trail: append([]uint64{}, p.trail...)}
			ce.Vector, _ = p.inputVector(p.anyModel())
			res.CEs = append(res.CEs, ce)
		}()
		m.call(nil, token.NoPos, fn, nil)
		res.End = "ok"
	}()
	if wantSample && (res.End == "ok") {
		if mdl := p.anyModel(); mdl != nil {
			if vec, ok := p.inputVector(mdl); ok {
				res.Sample = vec
				res.Observed = p.evalObservations(mdl)
			}
		}
	}
	return
}

func (m *Machine) panicMessage(v value) string {
	i, ok := v.(iface)
	if !ok {
		return toString(v)
	}
	if i.t == nil {
		return "nil"
	}
	if s, ok := i.v.(string); ok {
		if i.t == m.rtErrString {
			return "runtime error: " + s
		}
		return s
	}
	// error / Stringer: try calling Error()
	defer func() { recover() }()
	if s, ok := m.callStringMethod(i, "Error"); ok {
		return s
	}
	if s, ok := m.callStringMethod(i, "String"); ok {
		return s
	}
	return "(" + typeString(i.t) + ") " + toString(i.v)
}

func (m *Machine) callStringMethod(i iface, name string) (string, bool) {
	ms := m.prog.MethodSets.MethodSet(i.t)
	for k := 0; k < ms.Len(); k++ {
		sel := ms.At(k)
		if sel.Obj().Name() == name {
			sig := sel.Type().(*types.Signature)
			if sig.Params().Len() != 0 || sig.Results().Len() != 1 || !isString(sig.Results().At(0).Type()) {
				return "", false
			}
			f := m.prog.MethodValue(sel)
			if f == nil {
				return "", false
			}
			r := m.call(m.cur, token.NoPos, f, []value{copyVal(i.v)})
			switch s := r.(type) {
			case string:
				return s, true
			case *SymStr:
				return fmt.Sprintf("<symbolic string len %d>", len(s.B)), true
			}
			return "", false
		}
	}
	return "", false
}

// HarnessNames lists Harness* functions of a package.
func (e *Engine) HarnessNames(pkgPath string) []string {
	pkg := e.pkgByPath[pkgPath]
	if pkg == nil {
		return nil
	}
	var out []string
	for name, mem := range pkg.Members {
		if f, ok := mem.(*ssa.Function); ok && strings.HasPrefix(name, "Harness") && f.Signature.Params().Len() == 0 {
			out = append(out, name)
		}
	}
	sort.Strings(out)
	return out
}

func fileExists(p string) bool { _, err := os.Stat(p); return err == nil }

var _ = filepath.Join


// Machines creates n initialised machines in parallel.
func (e *Engine) Machines(n int) ([]*Machine, []string) {
	ms := make([]*Machine, n)
	var probs []string
	var wg sync.WaitGroup
	var mu sync.Mutex
	for i := 0; i < n; i++ {
		wg.Add(1)
		go func(i int) {
			defer wg.Done()
			m, p := e.NewMachine()
			ms[i] = m
			if i == 0 {
				mu.Lock()
				probs = p
				mu.Unlock()
			}
		}(i)
	}
	wg.Wait()
	return ms, probs
}
