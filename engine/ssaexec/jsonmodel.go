package ssaexec

import (
	"fmt"
	"go/types"
	"reflect"
	"strconv"
	"strings"
)

// JSON identity stub with Go's struct-tag semantics (DESIGN §5 C17): Marshal
// stores a deep copy of the value and returns an opaque marker text; Unmarshal
// copies it into the target matching fields by their json names, honouring
// omitempty, nil vs empty, pointers, RawMessage nesting and the float64/[]any/
// map[string]any decoding of interface{} targets. The JSON *text* (escaping,
// number formatting, invalid UTF-8) is not modelled; this stub is trusted base.

type jsonBlob struct {
	t types.Type
	v value
}

const jsonMark = "\x02JSON#"

func (m *Machine) jsonMarshal(x value) value {
	i := x.(iface)
	p := m.path
	p.blobs = append(p.blobs, jsonBlob{i.t, deepCopy(i.v, 0)})
	s := jsonMark + strconv.Itoa(len(p.blobs)-1) + "\x03"
	return tuple{append([]value{}, strBytes(s)...), iface{}}
}

func deepCopy(v value, depth int) value {
	if depth > 40 {
		return v
	}
	switch x := v.(type) {
	case structure:
		out := make(structure, len(x))
		for i := range x {
			out[i] = deepCopy(x[i], depth+1)
		}
		return out
	case array:
		out := make(array, len(x))
		for i := range x {
			out[i] = deepCopy(x[i], depth+1)
		}
		return out
	case []value:
		if x == nil {
			return x
		}
		out := make([]value, len(x))
		for i := range x {
			out[i] = deepCopy(x[i], depth+1)
		}
		return out
	case *value:
		if x == nil {
			return x
		}
		c := deepCopy(*x, depth+1)
		return &c
	case iface:
		return iface{x.t, deepCopy(x.v, depth+1)}
	case *Map:
		if x == nil {
			return x
		}
		out := newMap(x.kt)
		for _, e := range x.entries {
			if !e.deleted {
				ne := &mapEntry{k: e.k, v: deepCopy(e.v, depth+1), ck: e.ck}
				out.entries = append(out.entries, ne)
				if ne.ck != nil {
					out.idx[ne.ck] = ne
				}
				out.n++
			}
		}
		return out
	}
	return v
}

func (m *Machine) blobOf(data value) (jsonBlob, bool) {
	bs, ok := data.([]value)
	if !ok {
		return jsonBlob{}, false
	}
	s, ok := mkStr(bs).(string)
	if !ok || !strings.HasPrefix(s, jsonMark) {
		return jsonBlob{}, false
	}
	end := strings.IndexByte(s, '\x03')
	if end < 0 {
		return jsonBlob{}, false
	}
	n, err := strconv.Atoi(s[len(jsonMark):end])
	if err != nil || n < 0 || n >= len(m.path.blobs) {
		return jsonBlob{}, false
	}
	return m.path.blobs[n], true
}

func (m *Machine) jsonUnmarshal(data value, target value) value {
	blob, ok := m.blobOf(data)
	if !ok {
		panic(unsupported("json.Unmarshal of text that the JSON stub did not produce"))
	}
	ti := target.(iface)
	pt, isPtr := ti.t.Underlying().(*types.Pointer)
	if ti.t == nil || !isPtr {
		panic(unsupported("json.Unmarshal target is not a pointer"))
	}
	dst := ti.v.(*value)
	if dst == nil {
		panic(unsupported("json.Unmarshal into nil pointer"))
	}
	nv := m.jsonConv(pt.Elem(), *dst, blob.t, blob.v)
	m.store(dst, nv)
	return iface{}
}

type jsonField struct {
	name      string
	omitempty bool
	skip      bool
}

func jsonFieldInfo(st *types.Struct, i int) jsonField {
	f := st.Field(i)
	tag := reflect.StructTag(st.Tag(i)).Get("json")
	jf := jsonField{name: f.Name()}
	if !f.Exported() {
		jf.skip = true
	}
	if tag == "-" {
		jf.skip = true
		return jf
	}
	parts := strings.Split(tag, ",")
	if parts[0] != "" {
		jf.name = parts[0]
	}
	for _, p := range parts[1:] {
		if p == "omitempty" {
			jf.omitempty = true
		}
	}
	return jf
}

func jsonEmpty(v value) bool {
	switch x := v.(type) {
	case bool:
		return !x
	case int64:
		return x == 0
	case float64:
		return x == 0
	case string:
		return x == ""
	case *SymStr:
		return len(x.B) == 0
	case []value:
		return len(x) == 0
	case *Map:
		return x.Len() == 0
	case *value:
		return x == nil
	case iface:
		return x.t == nil
	}
	return false
}

func isRawMessage(t types.Type) bool {
	n, ok := t.(*types.Named)
	return ok && n.Obj().Name() == "RawMessage" && n.Obj().Pkg() != nil && n.Obj().Pkg().Path() == "encoding/json"
}

// jsonConv converts the stored (srcT, src) into a value of type dstT; cur is
// the current content of the destination (kept for fields absent in src).
func (m *Machine) jsonConv(dstT types.Type, cur value, srcT types.Type, src value) value {
	// unwrap source pointers / interfaces
	for {
		if si, ok := src.(iface); ok {
			if si.t == nil {
				return zero(dstT) // null
			}
			srcT, src = si.t, si.v
			continue
		}
		if sp, ok := srcT.Underlying().(*types.Pointer); ok {
			p := src.(*value)
			if p == nil {
				return zero(dstT) // null
			}
			srcT, src = sp.Elem(), *p
			continue
		}
		break
	}
	// RawMessage in the source that holds nested stub output: decode it first
	if isRawMessage(srcT) && !isRawMessage(dstT) {
		if blob, ok := m.blobOf(src); ok {
			return m.jsonConv(dstT, cur, blob.t, blob.v)
		}
	}
	switch dt := dstT.Underlying().(type) {
	case *types.Pointer:
		inner := zero(dt.Elem())
		if cp, ok := cur.(*value); ok && cp != nil {
			inner = *cp
		}
		nv := m.jsonConv(dt.Elem(), inner, srcT, src)
		return &nv
	case *types.Interface:
		return m.jsonToAny(srcT, src)
	case *types.Struct:
		ss, ok := srcT.Underlying().(*types.Struct)
		if !ok {
			panic(unsupported(fmt.Sprintf("json stub: %s into struct %s", typeString(srcT), typeString(dstT))))
		}
		out, _ := copyVal(cur).(structure)
		if out == nil {
			out = zero(dstT).(structure)
		}
		sv := src.(structure)
		for di := 0; di < dt.NumFields(); di++ {
			df := jsonFieldInfo(dt, di)
			if df.skip {
				continue
			}
			for si := 0; si < ss.NumFields(); si++ {
				sf := jsonFieldInfo(ss, si)
				if sf.skip || !strings.EqualFold(sf.name, df.name) {
					continue
				}
				if sf.omitempty && jsonEmpty(sv[si]) {
					break // absent in the text
				}
				out[di] = m.jsonConv(dt.Field(di).Type(), out[di], ss.Field(si).Type(), sv[si])
				break
			}
		}
		return out
	case *types.Slice:
		if isRawMessage(dstT) {
			if isRawMessage(srcT) {
				s := src.([]value)
				if s == nil {
					return zero(dstT)
				}
				return append([]value{}, s...)
			}
			// raw view of a structured value: re-marshal
			r := m.jsonMarshal(iface{srcT, src}).(tuple)
			return r[0]
		}
		st, ok := srcT.Underlying().(*types.Slice)
		if !ok {
			if sa, isArr := srcT.Underlying().(*types.Array); isArr {
				a := src.(array)
				out := make([]value, len(a))
				for i := range a {
					out[i] = m.jsonConv(dt.Elem(), zero(dt.Elem()), sa.Elem(), a[i])
				}
				return out
			}
			panic(unsupported(fmt.Sprintf("json stub: %s into slice", typeString(srcT))))
		}
		s := src.([]value)
		if s == nil {
			return zero(dstT) // null
		}
		out := make([]value, len(s))
		for i := range s {
			out[i] = m.jsonConv(dt.Elem(), zero(dt.Elem()), st.Elem(), s[i])
		}
		return out
	case *types.Map:
		sm, ok := srcT.Underlying().(*types.Map)
		if !ok {
			panic(unsupported(fmt.Sprintf("json stub: %s into map", typeString(srcT))))
		}
		smv := src.(*Map)
		if smv == nil {
			return zero(dstT)
		}
		out, _ := cur.(*Map)
		if out == nil {
			out = newMap(dt.Key())
		}
		for _, e := range smv.entries {
			if e.deleted {
				continue
			}
			m.mapInsert(out, e.k, m.jsonConv(dt.Elem(), zero(dt.Elem()), sm.Elem(), e.v))
		}
		return out
	case *types.Basic:
		sb, ok := srcT.Underlying().(*types.Basic)
		if !ok {
			panic(unsupported(fmt.Sprintf("json stub: %s into %s", typeString(srcT), typeString(dstT))))
		}
		if dt.Info()&types.IsString != 0 && sb.Info()&types.IsString != 0 {
			return src
		}
		if dt.Info()&types.IsBoolean != 0 && sb.Info()&types.IsBoolean != 0 {
			return src
		}
		if dt.Info()&types.IsNumeric != 0 && sb.Info()&types.IsNumeric != 0 {
			return m.conv(dstT, srcT, src)
		}
		panic(unsupported(fmt.Sprintf("json stub: %s into %s", typeString(srcT), typeString(dstT))))
	}
	panic(unsupported("json stub: target type " + typeString(dstT)))
}

// jsonToAny decodes into interface{}: float64, string, bool, nil, []any, map[string]any.
func (m *Machine) jsonToAny(srcT types.Type, src value) value {
	anyT := types.NewInterfaceType(nil, nil)
	switch st := srcT.Underlying().(type) {
	case *types.Basic:
		switch {
		case st.Info()&types.IsString != 0:
			return iface{types.Typ[types.String], src}
		case st.Info()&types.IsBoolean != 0:
			return iface{types.Typ[types.Bool], src}
		case st.Info()&types.IsNumeric != 0:
			return iface{types.Typ[types.Float64], m.conv(types.Typ[types.Float64], srcT, src)}
		}
	case *types.Slice:
		s := src.([]value)
		if s == nil {
			return iface{}
		}
		out := make([]value, len(s))
		for i := range s {
			out[i] = m.jsonConv(anyT, iface{}, st.Elem(), s[i])
		}
		return iface{types.NewSlice(anyT), out}
	case *types.Map:
		smv := src.(*Map)
		if smv == nil {
			return iface{}
		}
		out := newMap(types.Typ[types.String])
		for _, e := range smv.entries {
			if !e.deleted {
				m.mapInsert(out, e.k, m.jsonConv(anyT, iface{}, st.Elem(), e.v))
			}
		}
		return iface{types.NewMap(types.Typ[types.String], anyT), out}
	case *types.Struct:
		out := newMap(types.Typ[types.String])
		sv := src.(structure)
		for i := 0; i < st.NumFields(); i++ {
			jf := jsonFieldInfo(st, i)
			if jf.skip || (jf.omitempty && jsonEmpty(sv[i])) {
				continue
			}
			m.mapInsert(out, jf.name, m.jsonConv(anyT, iface{}, st.Field(i).Type(), sv[i]))
		}
		return iface{types.NewMap(types.Typ[types.String], anyT), out}
	}
	panic(unsupported("json stub: " + typeString(srcT) + " into interface{}"))
}

// jsonDeepEqual: do two stored values marshal to the same JSON text? Decided
// structurally (the text itself is behind the stub): same shape, same field
// order, equal leaves. Symbolic leaves are not supported here.
func (m *Machine) jsonDeepEqual(at types.Type, a value, bt types.Type, b value, depth int) bool {
	if depth > 60 {
		panic(unsupported("json stub: comparison too deep"))
	}
	for {
		if ai, ok := a.(iface); ok {
			bi, okb := b.(iface)
			if !okb {
				return false
			}
			if ai.t == nil || bi.t == nil {
				return ai.t == nil && bi.t == nil
			}
			at, a, bt, b = ai.t, ai.v, bi.t, bi.v
			continue
		}
		break
	}
	if isRawMessage(at) && isRawMessage(bt) {
		ba, oka := m.blobOf(a)
		bb, okb := m.blobOf(b)
		if oka && okb {
			return m.jsonDeepEqual(ba.t, ba.v, bb.t, bb.v, depth+1)
		}
	}
	switch x := a.(type) {
	case structure:
		y, ok := b.(structure)
		sa, oka := at.Underlying().(*types.Struct)
		sb, okb := bt.Underlying().(*types.Struct)
		if !ok || !oka || !okb || len(x) != len(y) {
			return false
		}
		for i := range x {
			fa, fb := jsonFieldInfo(sa, i), jsonFieldInfo(sb, i)
			if fa.skip != fb.skip || fa.name != fb.name {
				return false
			}
			if fa.skip {
				continue
			}
			ea, eb := fa.omitempty && jsonEmpty(x[i]), fb.omitempty && jsonEmpty(y[i])
			if ea != eb {
				return false
			}
			if ea {
				continue
			}
			if !m.jsonDeepEqual(sa.Field(i).Type(), x[i], sb.Field(i).Type(), y[i], depth+1) {
				return false
			}
		}
		return true
	case array:
		y, ok := b.(array)
		if !ok || len(x) != len(y) {
			return false
		}
		et := at.Underlying().(*types.Array).Elem()
		for i := range x {
			if !m.jsonDeepEqual(et, x[i], et, y[i], depth+1) {
				return false
			}
		}
		return true
	case []value:
		y, ok := b.([]value)
		if !ok || len(x) != len(y) || (x == nil) != (y == nil) {
			return false
		}
		var ea, eb types.Type
		if st, ok := at.Underlying().(*types.Slice); ok {
			ea = st.Elem()
		}
		if st, ok := bt.Underlying().(*types.Slice); ok {
			eb = st.Elem()
		}
		if ea == nil || eb == nil {
			return false
		}
		for i := range x {
			if !m.jsonDeepEqual(ea, x[i], eb, y[i], depth+1) {
				return false
			}
		}
		return true
	case *value:
		y, ok := b.(*value)
		if !ok || (x == nil) != (y == nil) {
			return false
		}
		if x == nil {
			return true
		}
		return m.jsonDeepEqual(deref(at), *x, deref(bt), *y, depth+1)
	case *Map:
		y, ok := b.(*Map)
		if !ok || (x == nil) != (y == nil) {
			return false
		}
		if x == nil {
			return true
		}
		if x.Len() != y.Len() {
			return false
		}
		ea := at.Underlying().(*types.Map).Elem()
		eb := bt.Underlying().(*types.Map).Elem()
		for _, e := range x.entries {
			if e.deleted {
				continue
			}
			v, found := m.mapLookup(y, e.k)
			if !found || !m.jsonDeepEqual(ea, e.v, eb, v, depth+1) {
				return false
			}
		}
		return true
	case string, int64, float64, bool:
		return a == b
	case *Sym, *SymStr:
		panic(unsupported("json stub: comparing marshalled texts with symbolic content"))
	}
	panic(unsupported(fmt.Sprintf("json stub: comparing %T", a)))
}

// jsonTextsEqual: both byte slices are stub output -> structural comparison.
func (m *Machine) jsonTextsEqual(a, b value) (bool, bool) {
	ba, oka := m.blobOf(a)
	bb, okb := m.blobOf(b)
	if !oka || !okb {
		return false, false
	}
	return m.jsonDeepEqual(ba.t, ba.v, bb.t, bb.v, 0), true
}

func registerJSON() {
	externals["encoding/json.Marshal"] = func(m *Machine, fr *frame, a []value) value {
		return m.jsonMarshal(a[0])
	}
	externals["encoding/json.MarshalIndent"] = func(m *Machine, fr *frame, a []value) value {
		return m.jsonMarshal(a[0])
	}
	externals["encoding/json.Unmarshal"] = func(m *Machine, fr *frame, a []value) value {
		return m.jsonUnmarshal(a[0], a[1])
	}
}
