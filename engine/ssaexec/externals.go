package ssaexec

import (
	"fmt"
	"go/token"
	"go/types"
	"math"
	"strings"

	"golang.org/x/tools/go/ssa"

	"verif/engine/smt"
)

const verifrtPath = "github.com/risor-io/risor/internal/verifrt"

func (e *Engine) lookupExternal(fn *ssa.Function) externalFn {
	name := fn.String()
	if o := fn.Origin(); o != nil {
		name = o.String()
	}
	if x, ok := externals[name]; ok {
		return x
	}
	if fn.Pkg != nil && fn.Pkg.Pkg.Path() == "math" && fn.Blocks == nil {
		return mathNative(fn.Name())
	}
	if name == "os.ReadFile" {
		// files registered with verifrt.TempDirWithFiles are served from memory
		return func(m *Machine, fr *frame, args []value) value {
			if m.path != nil {
				if p, ok := args[0].(string); ok {
					if content, found := m.path.vfiles[p]; found {
						return tuple{append([]value{}, strBytes(content)...), iface{}}
					}
					for dir := range m.path.vdirs {
						if strings.HasPrefix(p, dir+"/") {
							// inside a registered directory: the file does not exist
							return tuple{[]value(nil), m.mkError("open " + p + ": no such file or directory")}
						}
					}
				}
			}
			return m.trap(name, fn, args)
		}
	}
	if fn.Pkg != nil {
		p := fn.Pkg.Pkg.Path()
		if trapPkgs[p] && fn.Parent() == nil {
			if _, allowed := trapAllow[name]; !allowed {
				return func(m *Machine, fr *frame, args []value) value {
					return m.trap(name, fn, args)
				}
			}
		}
	}
	return nil
}

// trapPkgs are packages whose functions must not be executed (real OS access).
var trapPkgs = map[string]bool{
	"os": true, "syscall": true, "os/exec": true, "os/user": true, "net": true, "io/ioutil": true,
	"os/signal": true, "internal/poll": true, "internal/syscall/unix": true,
}

// trapAllow lists pure helpers inside trapped packages that are interpreted.
var trapAllow = map[string]bool{
	"os.IsNotExist": true, "os.IsExist": true, "os.IsPermission": true, "os.underlyingError": true,
	"os.underlyingErrorIs": true, "(*os.PathError).Error": true, "(*os.PathError).Unwrap": true,
	"(os.FileMode).String": true, "(os.FileMode).IsDir": true, "(os.FileMode).Perm": true,
	"os.IsPathSeparator": true, "(syscall.Errno).Error": true, "(syscall.Errno).Is": true,
	"os.init": true, "syscall.init": true, "(*os.LinkError).Error": true, "(*os.SyscallError).Error": true,
	"os.NewSyscallError": true, "(*os.LinkError).Unwrap": true,
}

func (m *Machine) trap(name string, fn *ssa.Function, args []value) value {
	if m.path == nil || m.path.res == nil || m.path.solver == nil {
		panic(unsupported("trap: real-OS function reached during init: " + name))
	}
	if m.path.trapHandler != nil {
		if r, ok := m.path.trapHandler(m, name, fn, args); ok {
			return r
		}
	}
	// Record and continue with zero results, so that the harness's own
	// (natively confirmable) assertions can expose the bypass.
	if name == "(*os.File).Read" || name == "(*os.File).ReadAt" {
		// a trapped file has no content: end of file (zero results would loop forever)
		if iop := m.eng.pkgByPath["io"]; iop != nil {
			if g, ok := iop.Members["EOF"].(*ssa.Global); ok {
				return tuple{int64(0), m.load(m.globals[g])}
			}
		}
	}
	note := "trap: real-OS function reached: " + name
	if m.path.trapsExpected {
		note = ""
	}
	seen := false
	for _, s := range m.path.res.Traps {
		if s == note {
			seen = true
		}
	}
	if !seen && note != "" {
		m.path.res.Traps = append(m.path.res.Traps, note)
	}
	if fn == nil {
		return nil
	}
	// remember string arguments (host paths) for verifrt.TrappedStrings
	params := fn.Signature.Params()
	off := 0
	if fn.Signature.Recv() != nil {
		off = 1
	}
	for i := 0; i < params.Len() && i+off < len(args); i++ {
		if isString(params.At(i).Type()) {
			m.path.trapStrings = append(m.path.trapStrings, args[i+off])
		}
	}
	res := fn.Signature.Results()
	// An unexpected trap fails like an unavailable OS would: a function whose
	// last result is an error returns a non-nil error, so that the caller takes
	// its error path instead of using zero results (e.g. a nil *user.Group).
	// Harnesses that use traps as their oracle (ExpectTraps) keep zero results
	// so that every later OS call of the operation is still reached.
	isErr := func(t types.Type) bool {
		n, ok := t.(*types.Named)
		return ok && n.Obj().Pkg() == nil && n.Obj().Name() == "error"
	}
	switch res.Len() {
	case 0:
		return nil
	case 1:
		if !m.path.trapsExpected && isErr(res.At(0).Type()) {
			return m.mkError("verif: real-OS call trapped: " + name)
		}
		if !m.path.trapsExpected && isString(res.At(0).Type()) {
			// a recognisable non-empty answer, so that a value obtained from the
			// real OS is visible where it flows (e.g. into a host-OS argument)
			return "/trapped:" + name
		}
		return zero(res.At(0).Type())
	}
	z := zero(res).(tuple)
	statLike := name == "os.Lstat" || name == "os.Stat" // a nil FileInfo with a nil error would be dereferenced by every caller
	if (!m.path.trapsExpected || statLike) && isErr(res.At(res.Len()-1).Type()) {
		z[res.Len()-1] = m.mkError("verif: real-OS call trapped: " + name)
	}
	return z
}

var externals map[string]externalFn

func init() {
	externals = map[string]externalFn{
		// ---- harness runtime ----
		verifrtPath + ".Bool":    func(m *Machine, fr *frame, a []value) value { return m.inputBool() },
		verifrtPath + ".Int64":   func(m *Machine, fr *frame, a []value) value { return m.inputInt("i64", 64, true) },
		verifrtPath + ".Int":     func(m *Machine, fr *frame, a []value) value { return m.inputInt("i64", 64, true) },
		verifrtPath + ".Int32":   func(m *Machine, fr *frame, a []value) value { return m.inputInt("i32", 32, true) },
		verifrtPath + ".Int16":   func(m *Machine, fr *frame, a []value) value { return m.inputInt("i16", 16, true) },
		verifrtPath + ".Int8":    func(m *Machine, fr *frame, a []value) value { return m.inputInt("i8", 8, true) },
		verifrtPath + ".Rune":    func(m *Machine, fr *frame, a []value) value { return m.inputInt("i32", 32, true) },
		verifrtPath + ".Uint8":   func(m *Machine, fr *frame, a []value) value { return m.inputInt("u8", 8, false) },
		verifrtPath + ".Uint16":  func(m *Machine, fr *frame, a []value) value { return m.inputInt("u16", 16, false) },
		verifrtPath + ".Uint32":  func(m *Machine, fr *frame, a []value) value { return m.inputInt("u32", 32, false) },
		verifrtPath + ".Uint64":  func(m *Machine, fr *frame, a []value) value { return m.inputInt("u64", 64, false) },
		verifrtPath + ".Uint":    func(m *Machine, fr *frame, a []value) value { return m.inputInt("u64", 64, false) },
		verifrtPath + ".Float64": func(m *Machine, fr *frame, a []value) value { return m.inputFloat(64) },
		verifrtPath + ".Float32": func(m *Machine, fr *frame, a []value) value { return m.inputFloat(32) },
		verifrtPath + ".Bytes": func(m *Machine, fr *frame, a []value) value {
			n := int(m.concretizeInt(a[0], intInfo{64, true}))
			return m.inputBytes(n)
		},
		verifrtPath + ".String": func(m *Machine, fr *frame, a []value) value {
			n := int(m.concretizeInt(a[0], intInfo{64, true}))
			return mkStr(m.inputBytes(n))
		},
		verifrtPath + ".Choose": func(m *Machine, fr *frame, a []value) value {
			n := a[0].(int64)
			v := m.inputInt("choose", 64, true)
			if s, ok := v.(*Sym); ok {
				F := m.F()
				m.path.inputs[len(m.path.inputs)-1].N = int(n)
				m.assume(fromTerm(F.And(F.BVSle(F.BVConst(0, 64), s.T), F.BVSlt(s.T, F.BVConst(uint64(n), 64))), false))
			}
			return v
		},
		verifrtPath + ".Concretize": func(m *Machine, fr *frame, a []value) value {
			return m.concretizeInt(a[0], intInfo{64, true})
		},
		verifrtPath + ".Assume": func(m *Machine, fr *frame, a []value) value { m.assume(a[0]); return nil },
		verifrtPath + ".Assert": func(m *Machine, fr *frame, a []value) value {
			m.assertProp(a[0], concStr(a[1]))
			return nil
		},
		verifrtPath + ".Fail": func(m *Machine, fr *frame, a []value) value {
			m.assertProp(false, concStr(a[0]))
			return nil
		},
		verifrtPath + ".Reach": func(m *Machine, fr *frame, a []value) value { m.reach(concStr(a[0])); return nil },
		verifrtPath + ".And":   func(m *Machine, fr *frame, a []value) value { return m.and(a[0], a[1]) },
		verifrtPath + ".Or":    func(m *Machine, fr *frame, a []value) value { return m.or(a[0], a[1]) },
		verifrtPath + ".Not":   func(m *Machine, fr *frame, a []value) value { return m.not(a[0]) },
		verifrtPath + ".Implies": func(m *Machine, fr *frame, a []value) value {
			return m.or(m.not(a[0]), a[1])
		},
		verifrtPath + ".IteInt": func(m *Machine, fr *frame, a []value) value {
			return m.iteScalar(a[0], a[1], a[2], types.Typ[types.Int64])
		},
		verifrtPath + ".MapOrderAll": func(m *Machine, fr *frame, a []value) value {
			m.path.mapOrderAll = a[0].(bool)
			return nil
		},
		verifrtPath + ".ObserveInt": func(m *Machine, fr *frame, a []value) value {
			m.observe(concStr(a[0]), a[1], types.Typ[types.Int64])
			return nil
		},
		verifrtPath + ".ObserveBool": func(m *Machine, fr *frame, a []value) value {
			m.observe(concStr(a[0]), a[1], types.Typ[types.Bool])
			return nil
		},
		verifrtPath + ".ObserveString": func(m *Machine, fr *frame, a []value) value {
			m.observe(concStr(a[0]), a[1], types.Typ[types.String])
			return nil
		},
		verifrtPath + ".Thorough": func(m *Machine, fr *frame, a []value) value { return m.eng.Thorough },
		verifrtPath + ".Seed": func(m *Machine, fr *frame, a []value) value { return int64(m.eng.Seed) },
		verifrtPath + ".Symbolic": func(m *Machine, fr *frame, a []value) value { return true },
		verifrtPath + ".Yield": func(m *Machine, fr *frame, a []value) value { m.yield(); return nil },
		verifrtPath + ".AtYield": func(m *Machine, fr *frame, a []value) value {
			k := int(m.concretizeInt(a[0], intInfo{64, true}))
			m.sch().atYield[m.sch().yields+k] = a[1]
			return nil
		},
		verifrtPath + ".Quiesce": func(m *Machine, fr *frame, a []value) value {
			// let every other task run until it finishes or blocks
			s := m.sch()
			for {
				next := m.pickNext(s.cur)
				if next == nil {
					return nil
				}
				m.switchTo(next)
			}
		},
		verifrtPath + ".QuiesceSteps": func(m *Machine, fr *frame, a []value) value {
			// let the other tasks run for at most n synchronisation points
			s := m.sch()
			end := s.yields + int(a[0].(int64))
			for s.yields < end {
				next := m.pickNext(s.cur)
				if next == nil {
					return nil
				}
				m.switchTo(next)
			}
			return nil
		},
		verifrtPath + ".SchedBounds": func(m *Machine, fr *frame, a []value) value {
			m.sch().maxPreempt = int(a[0].(int64))
			m.sch().fairLimit = int(a[1].(int64))
			return nil
		},
		verifrtPath + ".SchedPreemptAtLoads": func(m *Machine, fr *frame, a []value) value {
			m.sch().preemptAtLoads = a[0].(bool)
			return nil
		},
		verifrtPath + ".RaceDetect": func(m *Machine, fr *frame, a []value) value {
			s := m.sch()
			s.race = &raceState{label: concStr(a[0]), vc: map[*task]vclock{}, objVC: map[interface{}]vclock{},
				cells: map[interface{}]*shadowCell{}, reported: map[string]bool{}}
			m.raceActive = true
			return nil
		},
		verifrtPath + ".TempDirWithFiles": func(m *Machine, fr *frame, a []value) value {
			mp, _ := a[0].(*Map)
			p := m.path
			if p.vfiles == nil {
				p.vfiles, p.vdirs = map[string]string{}, map[string]bool{}
			}
			dir := fmt.Sprintf("/verifvfs-%d", len(p.vdirs))
			p.vdirs[dir] = true
			if mp != nil {
				for _, e := range mp.entries {
					if !e.deleted {
						p.vfiles[dir+"/"+concStr(e.k)] = concStr(e.v)
					}
				}
			}
			return dir
		},
		verifrtPath + ".RemoveTempDir": func(m *Machine, fr *frame, a []value) value { return nil },
		verifrtPath + ".SchedPreemptBeforeChanOps": func(m *Machine, fr *frame, a []value) value {
			m.sch().preemptBeforeChanOps = a[0].(bool)
			return nil
		},
		verifrtPath + ".Yields": func(m *Machine, fr *frame, a []value) value { return int64(m.sch().yields) },
		verifrtPath + ".MustTerminate": func(m *Machine, fr *frame, a []value) value {
			m.path.mustTerminate = concStr(a[0])
			if n := int(a[1].(int64)); n > 0 {
				m.path.maxSteps = m.path.steps + n
			}
			return nil
		},
		verifrtPath + ".Terminated": func(m *Machine, fr *frame, a []value) value {
			m.path.mustTerminate = ""
			m.path.maxSteps = m.path.steps + m.path.stepBudget
			return nil
		},
		verifrtPath + ".ExpectTraps": func(m *Machine, fr *frame, a []value) value {
			m.path.trapsExpected = true
			return nil
		},
		verifrtPath + ".TrappedStrings": func(m *Machine, fr *frame, a []value) value {
			out := make([]value, len(m.path.trapStrings))
			copy(out, m.path.trapStrings)
			return out
		},
		verifrtPath + ".EqString": func(m *Machine, fr *frame, a []value) value {
			return m.strBinop(token.EQL, a[0], a[1])
		},
		verifrtPath + ".SameBacking": func(m *Machine, fr *frame, a []value) value {
			return sameBacking(a[0], a[1])
		},
		verifrtPath + ".IsConcrete": func(m *Machine, fr *frame, a []value) value {
			return !isSym(a[0].(iface).v)
		},

		// ---- sync ----
		"(*sync.Mutex).Lock":      mutexLock,
		"(*sync.Mutex).Unlock":    mutexUnlock,
		"(*sync.Mutex).TryLock":   mutexTryLock,
		"(*sync.RWMutex).Lock":    mutexLock,
		"(*sync.RWMutex).Unlock":  mutexUnlock,
		"(*sync.RWMutex).RLock":   rwRLock,
		"(*sync.RWMutex).RUnlock": rwRUnlock,
		"(*sync.RWMutex).TryLock": mutexTryLock,
		"(*sync.Pool).Put":        nop,
		"(*sync.Pool).Get": func(m *Machine, fr *frame, a []value) value {
			p := a[0].(*value)
			st := (*p).(structure)
			// last field is New func() any
			nf := st[len(st)-1]
			if isNilFunc(nf) {
				return iface{}
			}
			return m.call(fr, token.NoPos, nf, nil)
		},
		"(*sync.WaitGroup).Add": func(m *Machine, fr *frame, a []value) value {
			p := a[0].(*value)
			s := m.sch()
			if s.wgCount == nil {
				s.wgCount = map[*value]int64{}
			}
			s.wgCount[p] += a[1].(int64)
			if s.wgCount[p] < 0 {
				m.rtPanicPlain("sync: negative WaitGroup counter")
			}
			m.raceSync(p, false, true)
			m.yield()
			return nil
		},
		"(*sync.WaitGroup).Done": func(m *Machine, fr *frame, a []value) value {
			p := a[0].(*value)
			s := m.sch()
			if s.wgCount == nil {
				s.wgCount = map[*value]int64{}
			}
			s.wgCount[p]--
			if s.wgCount[p] < 0 {
				m.rtPanicPlain("sync: negative WaitGroup counter")
			}
			m.raceSync(p, false, true)
			m.yield()
			return nil
		},
		"(*sync.WaitGroup).Wait": func(m *Machine, fr *frame, a []value) value {
			p := a[0].(*value)
			s := m.sch()
			m.blockUntil(func() bool { return s.wgCount[p] == 0 })
			m.raceSync(p, true, false)
			return nil
		},
		"time.Sleep": func(m *Machine, fr *frame, a []value) value { m.yield(); return nil },
		"time.After": func(m *Machine, fr *frame, a []value) value { return &Chan{cap: 1} },
		"sync.runtime_registerPoolCleanup": nop,
		"sync.runtime_notifyListCheck":     nop,
		"sync.throw": func(m *Machine, fr *frame, a []value) value {
			panic(unsupported("sync.throw: " + concStr(a[0])))
		},
		"sync.fatal": func(m *Machine, fr *frame, a []value) value {
			panic(unsupported("sync.fatal: " + concStr(a[0])))
		},

		// ---- sync/atomic ----
		"sync/atomic.LoadInt32":   atomicLoad,
		"sync/atomic.LoadInt64":   atomicLoad,
		"sync/atomic.LoadUint32":  atomicLoad,
		"sync/atomic.LoadUint64":  atomicLoad,
		"sync/atomic.LoadUintptr": atomicLoad,
		"sync/atomic.LoadPointer": atomicLoad,
		"sync/atomic.StoreInt32":   atomicStore,
		"sync/atomic.StoreInt64":   atomicStore,
		"sync/atomic.StoreUint32":  atomicStore,
		"sync/atomic.StoreUint64":  atomicStore,
		"sync/atomic.StoreUintptr": atomicStore,
		"sync/atomic.StorePointer": atomicStore,
		"sync/atomic.AddInt32":   atomicAdd(intInfo{32, true}),
		"sync/atomic.AddInt64":   atomicAdd(intInfo{64, true}),
		"sync/atomic.AddUint32":  atomicAdd(intInfo{32, false}),
		"sync/atomic.AddUint64":  atomicAdd(intInfo{64, false}),
		"sync/atomic.AddUintptr": atomicAdd(intInfo{64, false}),
		"sync/atomic.SwapInt32":   atomicSwap,
		"sync/atomic.SwapInt64":   atomicSwap,
		"sync/atomic.SwapUint32":  atomicSwap,
		"sync/atomic.SwapUint64":  atomicSwap,
		"sync/atomic.SwapPointer": atomicSwap,
		"sync/atomic.CompareAndSwapInt32":   atomicCAS(types.Typ[types.Int32]),
		"sync/atomic.CompareAndSwapInt64":   atomicCAS(types.Typ[types.Int64]),
		"sync/atomic.CompareAndSwapUint32":  atomicCAS(types.Typ[types.Uint32]),
		"sync/atomic.CompareAndSwapUint64":  atomicCAS(types.Typ[types.Uint64]),
		"sync/atomic.CompareAndSwapUintptr": atomicCAS(types.Typ[types.Uintptr]),
		"sync/atomic.CompareAndSwapPointer": atomicCAS(types.Typ[types.UnsafePointer]),
		"(*sync/atomic.Value).Load": func(m *Machine, fr *frame, a []value) value {
			st := (*a[0].(*value)).(structure)
			return st[0]
		},
		"(*sync/atomic.Value).Store": func(m *Machine, fr *frame, a []value) value {
			st := (*a[0].(*value)).(structure)
			m.write(&st[0], a[1])
			return nil
		},
		"(*sync/atomic.Value).CompareAndSwap": func(m *Machine, fr *frame, a []value) value {
			st := (*a[0].(*value)).(structure)
			if m.branchVal(m.equals(types.NewInterfaceType(nil, nil), st[0], a[1])) {
				m.write(&st[0], a[2])
				return true
			}
			return false
		},

		// ---- math/rand (environment stub: a fixed stream) ----
		"math/rand.Int63":   func(m *Machine, fr *frame, a []value) value { return int64(4) },
		"math/rand.Int31":   func(m *Machine, fr *frame, a []value) value { return int64(4) },
		"math/rand.Int":     func(m *Machine, fr *frame, a []value) value { return int64(4) },
		"math/rand.Uint32":  func(m *Machine, fr *frame, a []value) value { return int64(4) },
		"math/rand.Uint64":  func(m *Machine, fr *frame, a []value) value { return int64(4) },
		"math/rand.Float64": func(m *Machine, fr *frame, a []value) value { return float64(0.25) },
		"math/rand.Intn": func(m *Machine, fr *frame, a []value) value {
			n := m.concretizeInt(a[0], intInfo{64, true})
			if n <= 0 {
				m.rtPanicPlain("invalid argument to Intn")
			}
			return int64(4 % n)
		},
		"math/rand.Int63n": func(m *Machine, fr *frame, a []value) value {
			n := m.concretizeInt(a[0], intInfo{64, true})
			if n <= 0 {
				m.rtPanicPlain("invalid argument to Int63n")
			}
			return int64(4 % n)
		},

		// ---- runtime ----
		"runtime.SetFinalizer": nop,
		"runtime.KeepAlive":    nop,
		"runtime.Gosched":      nop,
		"runtime.GC":           nop,
		"runtime.GOMAXPROCS":   func(m *Machine, fr *frame, a []value) value { return int64(1) },
		"runtime.NumCPU":       func(m *Machine, fr *frame, a []value) value { return int64(1) },
		"runtime.NumGoroutine": func(m *Machine, fr *frame, a []value) value { return int64(1) },
		"runtime.Caller": func(m *Machine, fr *frame, a []value) value {
			return tuple{int64(0), "", int64(0), false}
		},
		"runtime.Callers":       func(m *Machine, fr *frame, a []value) value { return int64(0) },
		"(*runtime.Func).Name":  func(m *Machine, fr *frame, a []value) value { return "" },
		"runtime.FuncForPC":     func(m *Machine, fr *frame, a []value) value { return (*value)(nil) },
		"runtime/debug.Stack":   func(m *Machine, fr *frame, a []value) value { return []value{} },
		"internal/godebug.New":  func(m *Machine, fr *frame, a []value) value { return (*value)(nil) },
		"(*internal/godebug.Setting).Value": func(m *Machine, fr *frame, a []value) value {
			return ""
		},
		"(*internal/godebug.Setting).IncNonDefault": nop,

		// ---- bytealg ----
		"internal/bytealg.IndexByte":       extIndexByte,
		"internal/bytealg.IndexByteString": extIndexByte,
		"internal/bytealg.CountString":     extCount,
		"internal/bytealg.Count":           extCount,
		"internal/bytealg.Equal": func(m *Machine, fr *frame, a []value) value {
			return m.strBinop(token.EQL, mkStr(a[0].([]value)), mkStr(a[1].([]value)))
		},
		"bytes.Equal": func(m *Machine, fr *frame, a []value) value {
			if m.path != nil && len(m.path.blobs) > 0 {
				if eq, ok := m.jsonTextsEqual(a[0], a[1]); ok {
					return eq
				}
			}
			return m.strBinop(token.EQL, mkStr(a[0].([]value)), mkStr(a[1].([]value)))
		},
		"internal/bytealg.Compare": func(m *Machine, fr *frame, a []value) value {
			return m.strCompare(mkStr(a[0].([]value)), mkStr(a[1].([]value)))
		},
		"bytes.Compare": func(m *Machine, fr *frame, a []value) value {
			return m.strCompare(mkStr(a[0].([]value)), mkStr(a[1].([]value)))
		},
		"strings.Compare": func(m *Machine, fr *frame, a []value) value {
			return m.strCompare(a[0], a[1])
		},
		"internal/bytealg.CompareString": func(m *Machine, fr *frame, a []value) value {
			return m.strCompare(a[0], a[1])
		},
		"cmp.Compare": nil, // placeholder removed below
		"internal/bytealg.MakeNoZero": func(m *Machine, fr *frame, a []value) value {
			n := int(m.concretizeInt(a[0], intInfo{64, true}))
			if n < 0 || n > 1<<24 {
				m.rtPanic("makeslice: len out of range")
			}
			s := make([]value, n)
			for i := range s {
				s[i] = int64(0)
			}
			return s
		},
		"internal/bytealg.IndexString": extIndexString,
		"internal/bytealg.Index":       extIndexString,
		"internal/bytealg.Cutover":     func(m *Machine, fr *frame, a []value) value { return int64(1 << 30) },
		"internal/bytealg.LastIndexByteString": extLastIndexByte,
		"internal/bytealg.LastIndexByte":       extLastIndexByte,
		"internal/stringslite.Index":    nil,

		// ---- strings.Builder (unsafe-free model) ----
		"(*strings.Builder).String": func(m *Machine, fr *frame, a []value) value {
			st := (*a[0].(*value)).(structure)
			buf, _ := st[1].([]value)
			return mkStr(buf)
		},
		"(*strings.Builder).copyCheck": nop,
		"strings.Clone":                func(m *Machine, fr *frame, a []value) value { return a[0] },
		"internal/stringslite.Clone":   func(m *Machine, fr *frame, a []value) value { return a[0] },
		"unique.Make":                  nil,

		// ---- math bits on floats ----
		"math.Float64bits": func(m *Machine, fr *frame, a []value) value {
			return m.floatBits(a[0], 64)
		},
		"math.Float32bits": func(m *Machine, fr *frame, a []value) value {
			return m.floatBits(a[0], 32)
		},
		"math.Float64frombits": func(m *Machine, fr *frame, a []value) value {
			if c, ok := a[0].(int64); ok {
				return math.Float64frombits(uint64(c))
			}
			return fromTerm(m.F().FPFromBits(a[0].(*Sym).T), true)
		},
		"math.Float32frombits": func(m *Machine, fr *frame, a []value) value {
			if c, ok := a[0].(int64); ok {
				return float64(math.Float32frombits(uint32(c)))
			}
			return fromTerm(m.F().FPFromBits(a[0].(*Sym).T), true)
		},
		"math.IsNaN": func(m *Machine, fr *frame, a []value) value {
			if c, ok := a[0].(float64); ok {
				return math.IsNaN(c)
			}
			return fromTerm(m.F().FPIsNaN(a[0].(*Sym).T), false)
		},
		"math.IsInf": func(m *Machine, fr *frame, a []value) value {
			if c, ok := a[0].(float64); ok {
				if s, ok := a[1].(int64); ok {
					return math.IsInf(c, int(s))
				}
			}
			F := m.F()
			x := m.floatTerm(a[0], 64)
			sgn := m.intTerm(a[1], intInfo{64, true})
			z := F.FPConst64(0)
			inf := F.FPIsInf(x)
			pos := F.FPCmp(smt.OFPLt, z, x)
			sz := F.BVConst(0, 64)
			r := F.And(inf, F.Or(F.Eq(sgn, sz), F.Ite(F.BVSlt(sz, sgn), pos, F.Not(pos))))
			return fromTerm(r, false)
		},
		"math.Abs": func(m *Machine, fr *frame, a []value) value {
			if c, ok := a[0].(float64); ok {
				return math.Abs(c)
			}
			return fromTerm(m.F().FPAbs(a[0].(*Sym).T), true)
		},
		"math.NaN": func(m *Machine, fr *frame, a []value) value { return math.NaN() },
		"math.Inf": func(m *Machine, fr *frame, a []value) value {
			if c, ok := a[0].(int64); ok {
				return math.Inf(int(c))
			}
			F := m.F()
			if m.branch(F.BVSle(F.BVConst(0, 64), a[0].(*Sym).T)) {
				return math.Inf(1)
			}
			return math.Inf(-1)
		},

		// ---- errors ----
		"errors.Is": extErrorsIs,
		"errors.As": extErrorsAs,

		// ---- sort helpers via reflectlite ----
		"internal/reflectlite.Swapper": extSwapper,
		"reflect.Swapper":              extSwapper,
		"internal/reflectlite.ValueOf": func(m *Machine, fr *frame, a []value) value {
			return structure{a[0], nil, int64(0)}
		},
		"(internal/reflectlite.Value).Len": func(m *Machine, fr *frame, a []value) value {
			x := a[0].(structure)[0].(iface)
			switch v := x.v.(type) {
			case []value:
				return int64(len(v))
			case string:
				return int64(len(v))
			case *Map:
				return int64(v.Len())
			}
			panic(unsupported(fmt.Sprintf("reflectlite.Value.Len on %T", x.v)))
		},
		"internal/reflectlite.TypeOf": func(m *Machine, fr *frame, a []value) value {
			x := a[0].(iface)
			if x.t == nil {
				return iface{}
			}
			return m.mkRType(x.t, "internal/reflectlite")
		},
	}
	for k, v := range externals {
		if v == nil {
			delete(externals, k)
		}
	}
	registerFmt()
	registerJSON()
	registerRegexp()
	registerReflect()
	registerReflectValue()
	registerMisc()
}

func nop(m *Machine, fr *frame, a []value) value { return nil }

func concStr(v value) string {
	switch s := v.(type) {
	case string:
		return s
	case *SymStr:
		return fmt.Sprintf("<symstr %d>", len(s.B))
	}
	return fmt.Sprintf("<%T>", v)
}

func sameBacking(a, b value) bool {
	x, ok1 := a.([]value)
	y, ok2 := b.([]value)
	if !ok1 || !ok2 || cap(x) == 0 || cap(y) == 0 {
		return false
	}
	// compare addresses of the last element of full-capacity views
	fx := x[:cap(x)]
	fy := y[:cap(y)]
	return &fx[len(fx)-1] == &fy[len(fy)-1]
}

// ---- inputs ----

func (m *Machine) inputBool() value {
	p := m.path
	t := p.newVar(smt.Bool)
	p.syncDecls()
	p.inputs = append(p.inputs, Input{Kind: "bool", Terms: []*smt.Term{t}})
	return &Sym{t}
}

func (m *Machine) inputInt(kind string, w int, signed bool) value {
	p := m.path
	t := p.newVar(smt.BV(w))
	p.syncDecls()
	p.inputs = append(p.inputs, Input{Kind: kind, Terms: []*smt.Term{t}})
	return &Sym{t}
}

func (m *Machine) inputFloat(w int) value {
	p := m.path
	t := p.newVar(smt.BV(w))
	p.syncDecls()
	kind := "f64"
	if w == 32 {
		kind = "f32"
	}
	p.inputs = append(p.inputs, Input{Kind: kind, Terms: []*smt.Term{t}})
	return &Sym{p.F.FPFromBits(t)}
}

func (m *Machine) inputBytes(n int) []value {
	p := m.path
	out := make([]value, n)
	var ts []*smt.Term
	for i := 0; i < n; i++ {
		t := p.newVar(smt.BV(8))
		ts = append(ts, t)
		out[i] = &Sym{t}
	}
	p.syncDecls()
	p.inputs = append(p.inputs, Input{Kind: "bytes", N: n, Terms: ts})
	return out
}

func (m *Machine) iteScalar(c, a, b value, t types.Type) value {
	if cb, ok := c.(bool); ok {
		if cb {
			return a
		}
		return b
	}
	return fromTermT(m.F().Ite(c.(*Sym).T, m.scalarTerm(a, t), m.scalarTerm(b, t)), t)
}

func (m *Machine) observe(label string, v value, t types.Type) {
	p := m.path
	o := Observation{Label: label}
	switch x := v.(type) {
	case int64, bool:
		o.Conc = fmt.Sprint(x)
	case string:
		o.Conc = fmt.Sprintf("%q", x)
	case *Sym:
		o.Term = x.T
		if ii, ok := intOf(t); ok {
			o.Signed = ii.signed
		}
	case *SymStr:
		o.StrB = x.B
	}
	p.obs = append(p.obs, o)
}

// evalObservations evaluates recorded observations under a model.
func (p *Path) evalObservations(mdl Model) []string {
	var out []string
	ev := func(t *smt.Term) (uint64, bool) {
		r, ok := p.F.Eval(t, mdl, map[int]*smt.Term{})
		if !ok {
			return 0, false
		}
		return r.U, true
	}
	for _, o := range p.obs {
		switch {
		case o.Term != nil:
			v, ok := ev(o.Term)
			if !ok {
				out = append(out, o.Label+"=?")
				continue
			}
			if o.Term.Sort.Kind == smt.KBool {
				out = append(out, fmt.Sprintf("%s=%v", o.Label, v == 1))
			} else if o.Signed {
				ii := intInfo{o.Term.Sort.W, true}
				out = append(out, fmt.Sprintf("%s=%d", o.Label, ii.norm(int64(v))))
			} else {
				out = append(out, fmt.Sprintf("%s=%d", o.Label, v))
			}
		case o.StrB != nil:
			bs := make([]byte, len(o.StrB))
			okAll := true
			for i, b := range o.StrB {
				switch x := b.(type) {
				case int64:
					bs[i] = byte(x)
				case *Sym:
					v, ok := ev(x.T)
					if !ok {
						okAll = false
					} else {
						bs[i] = byte(v)
					}
				}
			}
			if okAll {
				out = append(out, fmt.Sprintf("%s=%q", o.Label, string(bs)))
			} else {
				out = append(out, o.Label+"=?")
			}
		default:
			out = append(out, o.Label+"="+o.Conc)
		}
	}
	return out
}

// ---- mutexes ----
//
// Outside a path (package init) and while only one task exists a mutex cannot
// be contended; the holder is still recorded so that a task created later
// blocks on a mutex held across its creation.

func mutexLock(m *Machine, fr *frame, a []value) value {
	if m.path == nil || m.path.sched == nil {
		return nil
	}
	s := m.sch()
	p := a[0].(*value)
	if p == nil {
		m.rtPanic("invalid memory address or nil pointer dereference")
	}
	if s.mutexHeld[p] != nil || s.rwReaders[p] > 0 {
		m.blockUntil(func() bool { return s.mutexHeld[p] == nil && s.rwReaders[p] == 0 })
	}
	s.mutexHeld[p] = s.cur
	m.raceSync(p, true, false)
	m.raceSync(rwReaderKey{p}, true, false) // a writer also waits for the readers
	return nil
}

// rwReaderKey: the clock into which the readers of an RWMutex release. Only
// writers acquire it: two read-locked sections are not ordered with each other.
type rwReaderKey struct{ p *value }

func mutexTryLock(m *Machine, fr *frame, a []value) value {
	if m.path == nil || m.path.sched == nil {
		return true
	}
	s := m.sch()
	p := a[0].(*value)
	if s.mutexHeld[p] != nil || s.rwReaders[p] > 0 {
		return false
	}
	s.mutexHeld[p] = s.cur
	m.raceSync(p, true, false)
	return true
}

func mutexUnlock(m *Machine, fr *frame, a []value) value {
	if m.path == nil || m.path.sched == nil {
		return nil
	}
	s := m.sch()
	p := a[0].(*value)
	if s.mutexHeld[p] == nil {
		// locked before the path began (package init) or never: Go would
		// report "unlock of unlocked mutex" only for the latter
		return nil
	}
	m.raceSync(p, false, true)
	delete(s.mutexHeld, p)
	// a task waiting for this mutex may get to run right away (on a real machine
	// it runs in parallel with what the releasing goroutine does next)
	for _, t := range s.tasks {
		if t != s.cur && t.blocked && !t.done && t.waitCond != nil && t.waitCond() {
			m.yield()
			break
		}
	}
	return nil
}

func rwRLock(m *Machine, fr *frame, a []value) value {
	if m.path == nil || m.path.sched == nil {
		return nil
	}
	s := m.sch()
	p := a[0].(*value)
	if s.mutexHeld[p] != nil {
		m.blockUntil(func() bool { return s.mutexHeld[p] == nil })
	}
	if s.rwReaders == nil {
		s.rwReaders = map[*value]int{}
	}
	s.rwReaders[p]++
	m.raceSync(p, true, false) // acquire from the writers only
	return nil
}

func rwRUnlock(m *Machine, fr *frame, a []value) value {
	if m.path == nil || m.path.sched == nil {
		return nil
	}
	s := m.sch()
	p := a[0].(*value)
	if s.rwReaders[p] > 0 {
		s.rwReaders[p]--
	}
	// readers release into their own clock, which only writers acquire
	m.raceSync(rwReaderKey{p}, false, true)
	return nil
}

// ---- atomics ----

// atomicKey identifies the location of an atomic operation for the race
// detector's happens-before bookkeeping.
func atomicKey(a value) interface{} {
	switch p := a.(type) {
	case *value:
		return p
	case *symElemPtr:
		return p
	}
	return a
}

func atomicLoad(m *Machine, fr *frame, a []value) (r value) {
	m.softYield()
	m.raceQuiet(func() { r = m.loadAny(a[0]) })
	m.raceSync(atomicKey(a[0]), true, true)
	return r
}
func atomicStore(m *Machine, fr *frame, a []value) value {
	m.raceSync(atomicKey(a[0]), true, true)
	m.raceQuiet(func() { m.storeAny(a[0], a[1]) })
	m.yield()
	return nil
}
func atomicSwap(m *Machine, fr *frame, a []value) (old value) {
	m.raceSync(atomicKey(a[0]), true, true)
	m.raceQuiet(func() {
		old = m.loadAny(a[0])
		m.storeAny(a[0], a[1])
	})
	m.yield()
	return old
}
func atomicAdd(ii intInfo) externalFn {
	return func(m *Machine, fr *frame, a []value) (nv value) {
		m.raceSync(atomicKey(a[0]), true, true)
		m.raceQuiet(func() {
			old := m.loadAny(a[0])
			t := types.Typ[types.Int64]
			nv = m.intBinop(token.ADD, ii, old, a[1], t)
			m.storeAny(a[0], nv)
		})
		return nv
	}
}
func atomicCAS(t types.Type) externalFn {
	return func(m *Machine, fr *frame, a []value) value {
		m.raceSync(atomicKey(a[0]), true, true)
		var old value
		m.raceQuiet(func() { old = m.loadAny(a[0]) })
		if m.branchVal(m.equals(t, old, a[1])) {
			m.raceQuiet(func() { m.storeAny(a[0], a[2]) })
			return true
		}
		return false
	}
}

// ---- bytealg models ----

func bytesOf(v value) []value {
	switch x := v.(type) {
	case []value:
		return x
	default:
		return strBytes(v)
	}
}

// extIndexByte: first index of byte c in s, or -1. Symbolic: fork per position.
func extIndexByte(m *Machine, fr *frame, a []value) value {
	bs := bytesOf(a[0])
	b8 := intInfo{8, false}
	for i, b := range bs {
		if m.branchVal(m.intBinop(token.EQL, b8, b, a[1], nil)) {
			return int64(i)
		}
	}
	return int64(-1)
}

func extLastIndexByte(m *Machine, fr *frame, a []value) value {
	bs := bytesOf(a[0])
	b8 := intInfo{8, false}
	for i := len(bs) - 1; i >= 0; i-- {
		if m.branchVal(m.intBinop(token.EQL, b8, bs[i], a[1], nil)) {
			return int64(i)
		}
	}
	return int64(-1)
}

// extCount counts occurrences without forking (sum of ite).
func extCount(m *Machine, fr *frame, a []value) value {
	bs := bytesOf(a[0])
	b8 := intInfo{8, false}
	i64 := intInfo{64, true}
	var acc value = int64(0)
	for _, b := range bs {
		eq := m.intBinop(token.EQL, b8, b, a[1], nil)
		switch e := eq.(type) {
		case bool:
			if e {
				acc = m.intBinop(token.ADD, i64, acc, int64(1), nil)
			}
		case *Sym:
			one := m.iteScalar(e, int64(1), int64(0), types.Typ[types.Int64])
			acc = m.intBinop(token.ADD, i64, acc, one, nil)
		}
	}
	return acc
}

func extIndexString(m *Machine, fr *frame, a []value) value {
	hs, nd := bytesOf(a[0]), bytesOf(a[1])
	n := len(nd)
	for i := 0; i+n <= len(hs); i++ {
		if m.branchVal(m.strBinop(token.EQL, mkStr(hs[i:i+n]), mkStr(nd))) {
			return int64(i)
		}
	}
	return int64(-1)
}

// strCompare returns -1/0/+1 (forking when symbolic).
func (m *Machine) strCompare(x, y value) value {
	if m.branchVal(m.strBinop(token.EQL, x, y)) {
		return int64(0)
	}
	if m.branchVal(m.strBinop(token.LSS, x, y)) {
		return int64(-1)
	}
	return int64(1)
}

func (m *Machine) floatBits(v value, w int) value {
	if c, ok := v.(float64); ok {
		if w == 32 {
			return int64(math.Float32bits(float32(c)))
		}
		return int64(math.Float64bits(c))
	}
	t := v.(*Sym).T
	if t.Op == smt.OFPFromBits {
		return fromTerm(t.Args[0], false)
	}
	p := m.path
	b := p.newVar(smt.BV(w))
	p.syncDecls()
	// structural equality: to_fp(b) = t (all NaNs are one value in SMT-LIB;
	// the payload of a computed NaN is therefore unconstrained, as in Go)
	eq := p.F.FPStructEq(p.F.FPFromBits(b), t)
	p.assertTerm(eq)
	return fromTerm(b, false)
}

// ---- errors.Is / errors.As ----

var emptyIface = types.NewInterfaceType(nil, nil)

func extErrorsIs(m *Machine, fr *frame, a []value) value {
	err, target := a[0].(iface), a[1].(iface)
	if err.t == nil || target.t == nil {
		return err.t == nil && target.t == nil
	}
	comparable := types.Comparable(target.t)
	return m.errorsIs(fr, err, target, comparable, 0)
}

func (m *Machine) errorsIs(fr *frame, err, target iface, comparable bool, depth int) bool {
	for depth < 64 {
		depth++
		if comparable && types.Identical(err.t, target.t) && types.Comparable(err.t) {
			if m.branchVal(m.equals(err.t, err.v, target.v)) {
				return true
			}
		}
		if f := m.findMethod(err.t, "Is"); f != nil {
			sig := f.Signature
			if sig.Params().Len() == 1 && sig.Results().Len() == 1 && isBool(sig.Results().At(0).Type()) {
				r := m.call(fr, token.NoPos, f, []value{copyVal(err.v), target})
				if m.branchVal(r) {
					return true
				}
			}
		}
		if f := m.findMethod(err.t, "Unwrap"); f != nil {
			res := f.Signature.Results()
			if res.Len() == 1 {
				r := m.call(fr, token.NoPos, f, []value{copyVal(err.v)})
				if nxt, ok := r.(iface); ok {
					if nxt.t == nil {
						return false
					}
					err = nxt
					continue
				}
				if list, ok := r.([]value); ok {
					for _, e := range list {
						ei := e.(iface)
						if ei.t == nil {
							continue
						}
						if m.errorsIs(fr, ei, target, comparable, depth) {
							return true
						}
					}
					return false
				}
			}
		}
		return false
	}
	return false
}

func (m *Machine) findMethod(t types.Type, name string) *ssa.Function {
	ms := m.prog.MethodSets.MethodSet(t)
	for k := 0; k < ms.Len(); k++ {
		sel := ms.At(k)
		if sel.Obj().Name() == name && sel.Obj().Exported() {
			return m.prog.MethodValue(sel)
		}
	}
	return nil
}

func extErrorsAs(m *Machine, fr *frame, a []value) value {
	err, target := a[0].(iface), a[1].(iface)
	if err.t == nil {
		return false
	}
	if target.t == nil {
		m.rtPanicPlain("errors: target cannot be nil")
	}
	pt, ok := target.t.Underlying().(*types.Pointer)
	if !ok {
		m.rtPanicPlain("errors: target must be a non-nil pointer")
	}
	tp := target.v.(*value)
	if tp == nil {
		m.rtPanicPlain("errors: target must be a non-nil pointer")
	}
	et := pt.Elem()
	for depth := 0; depth < 64; depth++ {
		if it, isI := et.Underlying().(*types.Interface); isI {
			if m.implements(err.t, it, et) {
				m.store(tp, err)
				return true
			}
		} else if types.Identical(err.t, et) {
			m.store(tp, err.v)
			return true
		}
		if f := m.findMethod(err.t, "As"); f != nil && f.Signature.Params().Len() == 1 {
			if m.branchVal(m.call(fr, token.NoPos, f, []value{copyVal(err.v), target})) {
				return true
			}
		}
		f := m.findMethod(err.t, "Unwrap")
		if f == nil {
			return false
		}
		r := m.call(fr, token.NoPos, f, []value{copyVal(err.v)})
		nxt, ok := r.(iface)
		if !ok || nxt.t == nil {
			return false
		}
		err = nxt
	}
	return false
}

func extSwapper(m *Machine, fr *frame, a []value) value {
	x := a[0].(iface)
	s, ok := x.v.([]value)
	if !ok {
		panic(unsupported(fmt.Sprintf("Swapper on %T", x.v)))
	}
	return &nativeFunc{name: "swapper", f: func(m *Machine, caller *frame, args []value) value {
		i, j := args[0].(int64), args[1].(int64)
		if i < 0 || j < 0 || int(i) >= len(s) || int(j) >= len(s) {
			m.rtPanic("reflect: slice index out of range")
		}
		vi, vj := s[i], s[j]
		m.write(&s[i], vj)
		m.write(&s[j], vi)
		return nil
	}}
}

// ---- math natives ----

var mathFuncs1 = map[string]func(float64) float64{
	"archFloor": math.Floor, "archCeil": math.Ceil, "archTrunc": math.Trunc, "archSqrt": math.Sqrt,
	"archExp": math.Exp, "archLog": math.Log, "sqrt": math.Sqrt, "Sqrt": math.Sqrt, "archExp2": math.Exp2,
	"archSin": math.Sin, "archCos": math.Cos, "archTan": math.Tan, "archAsin": math.Asin, "archAcos": math.Acos,
	"archAtan": math.Atan, "archLog10": math.Log10, "archLog2": math.Log2, "archLog1p": math.Log1p,
	"archExpm1": math.Expm1, "archSinh": math.Sinh, "archCosh": math.Cosh, "archTanh": math.Tanh,
	"archAsinh": math.Asinh, "archAcosh": math.Acosh, "archAtanh": math.Atanh, "archCbrt": math.Cbrt,
	"archErf": math.Erf, "archErfc": math.Erfc,
}

var mathFuncs2 = map[string]func(float64, float64) float64{
	"archMax": math.Max, "archMin": math.Min, "archHypot": math.Hypot, "archAtan2": math.Atan2,
	"archMod": math.Mod, "archPow": math.Pow,
}

func mathNative(name string) externalFn {
	if f, ok := mathFuncs1[name]; ok {
		return func(m *Machine, fr *frame, a []value) value {
			if c, ok := a[0].(float64); ok {
				return f(c)
			}
			return fromTerm(m.F().UF("math_"+name, smt.F64, a[0].(*Sym).T), true)
		}
	}
	if f, ok := mathFuncs2[name]; ok {
		return func(m *Machine, fr *frame, a []value) value {
			x, ok1 := a[0].(float64)
			y, ok2 := a[1].(float64)
			if ok1 && ok2 {
				return f(x, y)
			}
			return fromTerm(m.F().UF("math_"+name, smt.F64, m.floatTerm(a[0], 64), m.floatTerm(a[1], 64)), true)
		}
	}
	return nil
}

var _ = strings.Contains
