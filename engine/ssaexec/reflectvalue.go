package ssaexec

import (
	"fmt"
	"go/types"
	"reflect"
	"sort"

	"golang.org/x/tools/go/ssa"
)

// reflect.Value model (DESIGN §10.4). A reflect.Value is the engine value
// rval: the go/types type it carries plus either the contained value (not
// addressable) or the heap cell it designates (addressable). The operations
// follow package reflect's documented behaviour, including its panics
// (assignability in Set and Call, Elem of a non-pointer, ...), which are
// raised as *target* panics because the code under test can trigger them.
//
// Trusted base: this file. It is validated like every other model by running
// sampled path models natively (§3.4): harness results computed through this
// model must equal the results of the real reflect package.
type rval struct {
	t    types.Type // nil: the zero (invalid) Value
	v    value      // contents when addr == nil
	addr *value     // the designated cell when addressable
	ro   bool       // reached through an unexported field
	fn   value      // for Kind Func obtained from Type.Method: the callable
}

func (r rval) get() value {
	if r.addr != nil {
		return copyVal(*r.addr)
	}
	return r.v
}

// asRval accepts an rval or the zero reflect.Value (a 3-field structure).
func asRval(v value) rval {
	switch x := v.(type) {
	case rval:
		return x
	case structure:
		return rval{}
	}
	panic(engineFault(fmt.Sprintf("reflect.Value is %T", v)))
}

func (m *Machine) rvOfIface(x iface) rval {
	if x.t == nil {
		return rval{}
	}
	return rval{t: x.t, v: x.v}
}

func (m *Machine) rvPanic(method string, r rval) {
	if r.t == nil {
		m.rtPanicPlain("reflect: call of reflect.Value." + method + " on zero Value")
	}
	m.rtPanicPlain("reflect: call of reflect.Value." + method + " on " + reflectKind(r.t).String() + " Value")
}

// assignTo converts a Value's content for storage into a location of type dst
// following reflect.Value.assignTo; ok=false when not assignable.
func (m *Machine) rvAssignTo(r rval, dst types.Type) (value, bool) {
	if r.t == nil {
		return nil, false
	}
	v := r.get()
	if types.Identical(r.t, dst) {
		return v, true
	}
	_, dstIsIface := dst.Underlying().(*types.Interface)
	_, srcIsIface := r.t.Underlying().(*types.Interface)
	if dstIsIface {
		di := dst.Underlying().(*types.Interface)
		if srcIsIface {
			// interface to interface: the dynamic value must implement dst
			iv := v.(iface)
			if iv.t == nil {
				return iface{}, true
			}
			if m.implements(iv.t, di, dst) {
				return iv, true
			}
			return nil, false
		}
		if m.implements(r.t, di, dst) {
			return iface{r.t, v}, true
		}
		return nil, false
	}
	// directly assignable: identical underlying types and at least one unnamed
	_, srcNamed := r.t.(*types.Named)
	_, dstNamed := dst.(*types.Named)
	if (!srcNamed || !dstNamed) && types.Identical(r.t.Underlying(), dst.Underlying()) {
		if _, isBasic := dst.Underlying().(*types.Basic); isBasic && (srcNamed || dstNamed) {
			return nil, false // named basic vs basic are distinct defined types
		}
		return v, true
	}
	return nil, false
}

func (m *Machine) mkRValueSlice(rs []rval) value {
	out := make([]value, len(rs))
	for i := range rs {
		out[i] = rs[i]
	}
	return out
}

// exportedMethods returns the exported methods of t sorted by name, as
// reflect.Type.Method enumerates them.
func (m *Machine) exportedMethods(t types.Type) []*types.Selection {
	ms := m.prog.MethodSets.MethodSet(t)
	var out []*types.Selection
	for i := 0; i < ms.Len(); i++ {
		if ms.At(i).Obj().Exported() {
			out = append(out, ms.At(i))
		}
	}
	sort.Slice(out, func(i, j int) bool { return out[i].Obj().Name() < out[j].Obj().Name() })
	return out
}

func methodFuncType(recv types.Type, sig *types.Signature) *types.Signature {
	ps := []*types.Var{types.NewParam(0, nil, "", recv)}
	for i := 0; i < sig.Params().Len(); i++ {
		ps = append(ps, sig.Params().At(i))
	}
	return types.NewSignatureType(nil, nil, nil, types.NewTuple(ps...), sig.Results(), sig.Variadic())
}

// reflectStruct builds a value of a struct type of package reflect by field name.
func (m *Machine) reflectStruct(typeName string, fields map[string]value) structure {
	pkg := m.eng.pkgByPath["reflect"]
	st := pkg.Type(typeName).Type().Underlying().(*types.Struct)
	sv := zero(st).(structure)
	for i := 0; i < st.NumFields(); i++ {
		if v, ok := fields[st.Field(i).Name()]; ok {
			sv[i] = v
		}
	}
	return sv
}

func (m *Machine) rtMethod(t types.Type, sel *types.Selection, index int) value {
	fnObj := sel.Obj().(*types.Func)
	sig := fnObj.Type().(*types.Signature)
	pkgPath := ""
	if !fnObj.Exported() && fnObj.Pkg() != nil {
		pkgPath = fnObj.Pkg().Path()
	}
	var mtyp types.Type
	var fv value = zero(m.eng.pkgByPath["reflect"].Type("Value").Type())
	if _, isIface := t.Underlying().(*types.Interface); isIface {
		mtyp = types.NewSignatureType(nil, nil, nil, sig.Params(), sig.Results(), sig.Variadic())
	} else {
		ft := methodFuncType(t, sig)
		mtyp = ft
		f := m.prog.MethodValue(sel)
		if f == nil {
			panic(unsupported("reflect: no method value for " + sel.String()))
		}
		fv = rval{t: ft, v: f, fn: f}
	}
	return m.reflectStruct("Method", map[string]value{
		"Name": fnObj.Name(), "PkgPath": pkgPath, "Type": m.mkRType(mtyp, "reflect"),
		"Func": fv, "Index": int64(index),
	})
}

func (m *Machine) rtStructField(st *types.Struct, i int) value {
	f := st.Field(i)
	pkgPath := ""
	if !f.Exported() && f.Pkg() != nil {
		pkgPath = f.Pkg().Path()
	}
	return m.reflectStruct("StructField", map[string]value{
		"Name": f.Name(), "PkgPath": pkgPath, "Type": m.mkRType(f.Type(), "reflect"),
		"Tag": st.Tag(i), "Index": []value{int64(i)}, "Anonymous": f.Embedded(),
	})
}

func (m *Machine) rvLen(r rval, method string) int {
	switch x := r.get().(type) {
	case []value:
		if _, ok := r.t.Underlying().(*types.Slice); ok {
			return len(x)
		}
	case array:
		return len(x)
	case string:
		return len(x)
	case *SymStr:
		return len(x.B)
	case *Map:
		return x.Len()
	case *Chan:
		panic(unsupported("reflect.Value.Len of chan"))
	}
	if _, ok := r.t.Underlying().(*types.Slice); ok {
		return 0
	}
	m.rvPanic(method, r)
	return 0
}

// rvIsZero: reflect.Value.IsZero. Symbolic scalars fork.
func (m *Machine) rvIsZero(t types.Type, v value) bool {
	switch x := v.(type) {
	case bool:
		return !x
	case int64:
		return x == 0
	case float64:
		return x == 0 && !(1/x < 0) // -0.0 is not the zero bit pattern
	case string:
		return x == ""
	case *SymStr:
		return len(x.B) == 0
	case *Sym:
		F := m.F()
		if ii, ok := intOf(t); ok {
			return m.branch(F.Eq(x.T, F.BVConst(0, ii.w)))
		}
		if isBool(t) {
			return !m.branch(x.T)
		}
		panic(unsupported("reflect.Value.IsZero of symbolic float"))
	case *value:
		return x == nil
	case []value:
		return x == nil
	case *Map:
		return x == nil
	case *Chan:
		return x == nil
	case iface:
		return x.t == nil
	case *ssa.Function:
		return x == nil
	case *closure:
		return x == nil
	case array:
		et := t.Underlying().(*types.Array).Elem()
		for _, e := range x {
			if !m.rvIsZero(et, e) {
				return false
			}
		}
		return true
	case structure:
		st := t.Underlying().(*types.Struct)
		for i, e := range x {
			if !m.rvIsZero(st.Field(i).Type(), e) {
				return false
			}
		}
		return true
	}
	panic(unsupported(fmt.Sprintf("reflect.Value.IsZero of %T", v)))
}

func (m *Machine) rvIsNil(r rval) bool {
	switch x := r.get().(type) {
	case *value:
		return x == nil
	case []value:
		return x == nil
	case *Map:
		return x == nil
	case *Chan:
		return x == nil
	case iface:
		return x.t == nil
	case *ssa.Function:
		return x == nil
	case *closure:
		return x == nil
	case unsafePtr:
		return x.p == nil
	}
	m.rvPanic("IsNil", r)
	return false
}

// rvCall implements reflect.Value.Call for method Funcs and func values.
func (m *Machine) rvCall(fr *frame, f rval, in []value) value {
	return m.rvCallX(fr, f, in, false)
}

func (m *Machine) rvCallX(fr *frame, f rval, in []value, isSlice bool) value {
	sig, ok := f.t.Underlying().(*types.Signature)
	if f.t == nil || !ok {
		m.rvPanic("Call", f)
	}
	callee := f.fn
	if callee == nil {
		callee = f.get()
	}
	n := sig.Params().Len()
	if isSlice {
		if !sig.Variadic() {
			m.rtPanicPlain("reflect: CallSlice of non-variadic function")
		}
		if len(in) < n {
			m.rtPanicPlain("reflect: CallSlice with too few input arguments")
		}
		if len(in) > n {
			m.rtPanicPlain("reflect: CallSlice with too many input arguments")
		}
	} else if sig.Variadic() {
		if len(in) < n-1 {
			m.rtPanicPlain("reflect: Call with too few input arguments")
		}
	} else if len(in) != n {
		if len(in) < n {
			m.rtPanicPlain("reflect: Call with too few input arguments")
		}
		m.rtPanicPlain("reflect: Call with too many input arguments")
	}
	for _, a := range in {
		if asRval(a).t == nil {
			m.rtPanicPlain("reflect: Call using zero Value argument")
		}
	}
	conv := func(a value, pt types.Type) value {
		r := asRval(a)
		v, ok := m.rvAssignTo(r, pt)
		if !ok {
			m.rtPanicPlain("reflect: Call using " + shortType(r.t) + " as type " + shortType(pt))
		}
		return copyVal(v)
	}
	var args []value
	fixed := n
	if sig.Variadic() && !isSlice {
		fixed = n - 1
	}
	for i := 0; i < fixed; i++ {
		args = append(args, conv(in[i], sig.Params().At(i).Type()))
	}
	if sig.Variadic() && !isSlice {
		et := sig.Params().At(n - 1).Type().(*types.Slice).Elem()
		var rest []value
		for i := fixed; i < len(in); i++ {
			rest = append(rest, conv(in[i], et))
		}
		args = append(args, rest)
	}
	res := m.call(fr, 0, callee, args)
	nr := sig.Results().Len()
	out := make([]value, nr)
	switch nr {
	case 0:
	case 1:
		out[0] = rval{t: sig.Results().At(0).Type(), v: res}
	default:
		tp := res.(tuple)
		for i := 0; i < nr; i++ {
			out[i] = rval{t: sig.Results().At(i).Type(), v: tp[i]}
		}
	}
	return out
}

func registerReflectValue() {
	V := "(reflect.Value)."
	externals["reflect.ValueOf"] = func(m *Machine, fr *frame, a []value) value {
		return m.rvOfIface(a[0].(iface))
	}
	externals["reflect.Indirect"] = func(m *Machine, fr *frame, a []value) value {
		r := asRval(a[0])
		if r.t == nil {
			return r
		}
		if pt, ok := r.t.Underlying().(*types.Pointer); ok {
			p := r.get().(*value)
			if p == nil {
				return rval{}
			}
			return rval{t: pt.Elem(), addr: p}
		}
		return r
	}
	externals["reflect.New"] = func(m *Machine, fr *frame, a []value) value {
		t := rtOf(a[0])
		cell := new(value)
		*cell = zero(t)
		return rval{t: m.eng.ptrTo(t), v: cell}
	}
	externals["reflect.Zero"] = func(m *Machine, fr *frame, a []value) value {
		t := rtOf(a[0])
		return rval{t: t, v: zero(t)}
	}
	mkPtr := func(m *Machine, fr *frame, a []value) value {
		return m.mkRType(m.eng.ptrTo(rtOf(a[0])), "reflect")
	}
	externals["reflect.PtrTo"] = mkPtr
	externals["reflect.PointerTo"] = mkPtr
	externals["reflect.SliceOf"] = func(m *Machine, fr *frame, a []value) value {
		return m.mkRType(types.NewSlice(rtOf(a[0])), "reflect")
	}
	externals["reflect.MapOf"] = func(m *Machine, fr *frame, a []value) value {
		return m.mkRType(types.NewMap(rtOf(a[0]), rtOf(a[1])), "reflect")
	}
	externals["reflect.ArrayOf"] = func(m *Machine, fr *frame, a []value) value {
		n := m.concretizeInt(a[0], intInfo{64, true})
		if n < 0 {
			m.rtPanicPlain("reflect: negative length passed to ArrayOf")
		}
		return m.mkRType(types.NewArray(rtOf(a[1]), n), "reflect")
	}
	externals["reflect.MakeSlice"] = func(m *Machine, fr *frame, a []value) value {
		t := rtOf(a[0])
		st, ok := t.Underlying().(*types.Slice)
		if !ok {
			m.rtPanicPlain("reflect.MakeSlice of non-slice type")
		}
		ln := m.concretizeInt(a[1], intInfo{64, true})
		cp := m.concretizeInt(a[2], intInfo{64, true})
		if ln < 0 {
			m.rtPanicPlain("reflect.MakeSlice: negative len")
		}
		if cp < 0 {
			m.rtPanicPlain("reflect.MakeSlice: negative cap")
		}
		if ln > cp {
			m.rtPanicPlain("reflect.MakeSlice: len > cap")
		}
		if cp > 1<<16 {
			panic(unsupported("reflect.MakeSlice: huge capacity"))
		}
		s := make([]value, ln, cp)
		full := s[:cp]
		for i := range full {
			full[i] = zero(st.Elem())
		}
		return rval{t: t, v: s}
	}
	mkMap := func(m *Machine, fr *frame, a []value) value {
		t := rtOf(a[0])
		mt, ok := t.Underlying().(*types.Map)
		if !ok {
			m.rtPanicPlain("reflect.MakeMapWithSize of non-map type")
		}
		return rval{t: t, v: newMap(mt.Key())}
	}
	externals["reflect.MakeMapWithSize"] = mkMap
	externals["reflect.MakeMap"] = mkMap
	externals["reflect.Append"] = func(m *Machine, fr *frame, a []value) value {
		s := asRval(a[0])
		st, ok := s.t.Underlying().(*types.Slice)
		if s.t == nil || !ok {
			m.rvPanic("Append", s)
		}
		cur, _ := s.get().([]value)
		xs, _ := a[1].([]value)
		out := cur
		for _, x := range xs {
			r := asRval(x)
			v, ok := m.rvAssignTo(r, st.Elem())
			if !ok {
				what := "zero Value"
				if r.t != nil {
					what = "value of type " + shortType(r.t)
				}
				m.rtPanicPlain("reflect.Set: " + what + " is not assignable to type " + shortType(st.Elem()))
			}
			if len(out) < cap(out) {
				out = out[:len(out)+1]
				m.store(&out[len(out)-1], copyVal(v))
			} else {
				out = append(out[:len(out):len(out)], copyVal(v))
			}
		}
		return rval{t: s.t, v: out}
	}

	// ---- Value methods ----
	externals[V+"IsValid"] = func(m *Machine, fr *frame, a []value) value { return asRval(a[0]).t != nil }
	externals[V+"Kind"] = func(m *Machine, fr *frame, a []value) value {
		r := asRval(a[0])
		if r.t == nil {
			return int64(reflect.Invalid)
		}
		return int64(reflectKind(r.t))
	}
	externals[V+"Type"] = func(m *Machine, fr *frame, a []value) value {
		r := asRval(a[0])
		if r.t == nil {
			m.rvPanic("Type", r)
		}
		return m.mkRType(r.t, "reflect")
	}
	externals[V+"CanAddr"] = func(m *Machine, fr *frame, a []value) value { return asRval(a[0]).addr != nil }
	externals[V+"CanSet"] = func(m *Machine, fr *frame, a []value) value {
		r := asRval(a[0])
		return r.addr != nil && !r.ro
	}
	externals[V+"CanInterface"] = func(m *Machine, fr *frame, a []value) value {
		r := asRval(a[0])
		if r.t == nil {
			m.rvPanic("CanInterface", r)
		}
		return !r.ro
	}
	externals[V+"Interface"] = func(m *Machine, fr *frame, a []value) value {
		r := asRval(a[0])
		if r.t == nil {
			m.rvPanic("Interface", r)
		}
		if r.ro {
			m.rtPanicPlain("reflect.Value.Interface: cannot return value obtained from unexported field or method")
		}
		v := r.get()
		if _, isIface := r.t.Underlying().(*types.Interface); isIface {
			return v.(iface)
		}
		return iface{r.t, v}
	}
	externals[V+"Addr"] = func(m *Machine, fr *frame, a []value) value {
		r := asRval(a[0])
		if r.addr == nil {
			m.rtPanicPlain("reflect.Value.Addr of unaddressable value")
		}
		return rval{t: m.eng.ptrTo(r.t), v: r.addr, ro: r.ro}
	}
	externals[V+"Elem"] = func(m *Machine, fr *frame, a []value) value {
		r := asRval(a[0])
		if r.t == nil {
			m.rvPanic("Elem", r)
		}
		switch t := r.t.Underlying().(type) {
		case *types.Pointer:
			p := r.get().(*value)
			if p == nil {
				return rval{}
			}
			return rval{t: t.Elem(), addr: p, ro: r.ro}
		case *types.Interface:
			iv := r.get().(iface)
			if iv.t == nil {
				return rval{}
			}
			return rval{t: iv.t, v: iv.v, ro: r.ro}
		}
		m.rvPanic("Elem", r)
		return nil
	}
	externals[V+"Len"] = func(m *Machine, fr *frame, a []value) value {
		r := asRval(a[0])
		if r.t == nil {
			m.rvPanic("Len", r)
		}
		return int64(m.rvLen(r, "Len"))
	}
	externals[V+"Cap"] = func(m *Machine, fr *frame, a []value) value {
		r := asRval(a[0])
		if r.t != nil {
			switch x := r.get().(type) {
			case []value:
				return int64(cap(x))
			case array:
				return int64(len(x))
			}
		}
		m.rvPanic("Cap", r)
		return nil
	}
	externals[V+"Index"] = func(m *Machine, fr *frame, a []value) value {
		r := asRval(a[0])
		if r.t == nil {
			m.rvPanic("Index", r)
		}
		i := m.concretizeInt(a[1], intInfo{64, true})
		switch t := r.t.Underlying().(type) {
		case *types.Slice:
			s, _ := r.get().([]value)
			if i < 0 || int(i) >= len(s) {
				m.rtPanicPlain("reflect: slice index out of range")
			}
			return rval{t: t.Elem(), addr: &s[i], ro: r.ro}
		case *types.Array:
			if i < 0 || i >= t.Len() {
				m.rtPanicPlain("reflect: array index out of range")
			}
			if r.addr != nil {
				arr := (*r.addr).(array)
				return rval{t: t.Elem(), addr: &arr[i], ro: r.ro}
			}
			return rval{t: t.Elem(), v: copyVal(r.v.(array)[i]), ro: r.ro}
		case *types.Basic:
			if t.Info()&types.IsString != 0 {
				bs := strBytes(r.get())
				if i < 0 || int(i) >= len(bs) {
					m.rtPanicPlain("reflect: string index out of range")
				}
				return rval{t: types.Typ[types.Uint8], v: bs[i], ro: r.ro}
			}
		}
		m.rvPanic("Index", r)
		return nil
	}
	externals[V+"NumField"] = func(m *Machine, fr *frame, a []value) value {
		r := asRval(a[0])
		if r.t != nil {
			if st, ok := r.t.Underlying().(*types.Struct); ok {
				return int64(st.NumFields())
			}
		}
		m.rvPanic("NumField", r)
		return nil
	}
	field := func(m *Machine, r rval, idx int) rval {
		st := r.t.Underlying().(*types.Struct)
		f := st.Field(idx)
		ro := r.ro || !f.Exported()
		if r.addr != nil {
			s := (*r.addr).(structure)
			return rval{t: f.Type(), addr: &s[idx], ro: ro}
		}
		return rval{t: f.Type(), v: copyVal(r.v.(structure)[idx]), ro: ro}
	}
	externals[V+"Field"] = func(m *Machine, fr *frame, a []value) value {
		r := asRval(a[0])
		if r.t != nil {
			if st, ok := r.t.Underlying().(*types.Struct); ok {
				i := m.concretizeInt(a[1], intInfo{64, true})
				if i < 0 || int(i) >= st.NumFields() {
					m.rtPanicPlain("reflect: Field index out of range")
				}
				return field(m, r, int(i))
			}
		}
		m.rvPanic("Field", r)
		return nil
	}
	externals[V+"FieldByName"] = func(m *Machine, fr *frame, a []value) value {
		r := asRval(a[0])
		if r.t == nil {
			m.rvPanic("FieldByName", r)
		}
		if _, ok := r.t.Underlying().(*types.Struct); !ok {
			m.rvPanic("FieldByName", r)
		}
		name, ok := a[1].(string)
		if !ok {
			panic(unsupported("reflect.Value.FieldByName with a symbolic name"))
		}
		obj, index, _ := types.LookupFieldOrMethod(r.t, true, nil, name)
		if _, isVar := obj.(*types.Var); !isVar || obj == nil {
			// unexported names need the package: search the direct fields
			st := r.t.Underlying().(*types.Struct)
			for i := 0; i < st.NumFields(); i++ {
				if st.Field(i).Name() == name {
					return field(m, r, i)
				}
			}
			return rval{}
		}
		cur := r
		for _, ix := range index {
			if pt, isPtr := cur.t.Underlying().(*types.Pointer); isPtr {
				p := cur.get().(*value)
				if p == nil {
					m.rtPanicPlain("reflect: indirection through nil pointer to embedded struct")
				}
				cur = rval{t: pt.Elem(), addr: p, ro: cur.ro}
			}
			cur = field(m, cur, ix)
		}
		return cur
	}
	set := func(m *Machine, dst rval, src rval) {
		if dst.addr == nil {
			m.rtPanicPlain("reflect: reflect.Value.Set using unaddressable value")
		}
		if dst.ro {
			m.rtPanicPlain("reflect: reflect.Value.Set using value obtained using unexported field")
		}
		if src.t == nil {
			m.rtPanicPlain("reflect: call of reflect.Value.Set on zero Value")
		}
		if src.ro {
			m.rtPanicPlain("reflect: reflect.Value.Set using value obtained using unexported field")
		}
		v, ok := m.rvAssignTo(src, dst.t)
		if !ok {
			m.rtPanicPlain("reflect.Set: value of type " + shortType(src.t) + " is not assignable to type " + shortType(dst.t))
		}
		m.store(dst.addr, copyVal(v))
	}
	externals[V+"Set"] = func(m *Machine, fr *frame, a []value) value {
		set(m, asRval(a[0]), asRval(a[1]))
		return nil
	}
	externals[V+"SetZero"] = func(m *Machine, fr *frame, a []value) value {
		r := asRval(a[0])
		if r.addr == nil || r.ro {
			m.rtPanicPlain("reflect: reflect.Value.SetZero using unaddressable value")
		}
		m.store(r.addr, zero(r.t))
		return nil
	}
	setScalar := func(name string, okKind func(types.Type) bool) {
		externals[V+name] = func(m *Machine, fr *frame, a []value) value {
			r := asRval(a[0])
			if r.t == nil || !okKind(r.t) {
				m.rvPanic(name, r)
			}
			if r.addr == nil || r.ro {
				m.rtPanicPlain("reflect: reflect.Value." + name + " using unaddressable value")
			}
			v := a[1]
			if ii, ok := intOf(r.t); ok {
				v = m.convInt(ii, intInfo{64, ii.signed}, v)
			}
			m.store(r.addr, v)
			return nil
		}
	}
	setScalar("SetInt", func(t types.Type) bool { ii, ok := intOf(t); return ok && ii.signed })
	setScalar("SetUint", func(t types.Type) bool { ii, ok := intOf(t); return ok && !ii.signed })
	setScalar("SetBool", isBool)
	setScalar("SetString", isString)
	setScalar("SetFloat", func(t types.Type) bool { _, ok := isFloat(t); return ok })
	getScalar := func(name string, okKind func(types.Type) bool) {
		externals[V+name] = func(m *Machine, fr *frame, a []value) value {
			r := asRval(a[0])
			if r.t == nil || !okKind(r.t) {
				m.rvPanic(name, r)
			}
			return r.get()
		}
	}
	getScalar("Int", func(t types.Type) bool { ii, ok := intOf(t); return ok && ii.signed })
	getScalar("Uint", func(t types.Type) bool { ii, ok := intOf(t); return ok && !ii.signed })
	getScalar("Bool", isBool)
	getScalar("Float", func(t types.Type) bool { _, ok := isFloat(t); return ok })
	externals[V+"String"] = func(m *Machine, fr *frame, a []value) value {
		r := asRval(a[0])
		if r.t == nil {
			return "<invalid Value>"
		}
		if isString(r.t) {
			return r.get()
		}
		return "<" + shortType(r.t) + " Value>"
	}
	externals[V+"Bytes"] = func(m *Machine, fr *frame, a []value) value {
		r := asRval(a[0])
		if r.t != nil {
			if st, ok := r.t.Underlying().(*types.Slice); ok {
				if b, ok := st.Elem().Underlying().(*types.Basic); ok && b.Kind() == types.Uint8 {
					s, _ := r.get().([]value)
					return s
				}
			}
		}
		m.rvPanic("Bytes", r)
		return nil
	}
	externals[V+"IsNil"] = func(m *Machine, fr *frame, a []value) value {
		r := asRval(a[0])
		if r.t == nil {
			m.rvPanic("IsNil", r)
		}
		return m.rvIsNil(r)
	}
	externals[V+"IsZero"] = func(m *Machine, fr *frame, a []value) value {
		r := asRval(a[0])
		if r.t == nil {
			m.rvPanic("IsZero", r)
		}
		return m.rvIsZero(r.t, r.get())
	}
	externals[V+"MapKeys"] = func(m *Machine, fr *frame, a []value) value {
		r := asRval(a[0])
		if r.t != nil {
			if mt, ok := r.t.Underlying().(*types.Map); ok {
				mp, _ := r.get().(*Map)
				it := m.mapRange(mp).(*mapIter)
				out := []value{}
				for {
					tp := it.next(m)
					if !tp[0].(bool) {
						break
					}
					out = append(out, rval{t: mt.Key(), v: tp[1]})
				}
				return out
			}
		}
		m.rvPanic("MapKeys", r)
		return nil
	}
	externals[V+"MapIndex"] = func(m *Machine, fr *frame, a []value) value {
		r := asRval(a[0])
		if r.t != nil {
			if mt, ok := r.t.Underlying().(*types.Map); ok {
				k := asRval(a[1])
				kv, ok := m.rvAssignTo(k, mt.Key())
				if !ok {
					m.rtPanicPlain("reflect.Value.MapIndex: value of type " + shortTypeOrZero(k.t) + " is not assignable to type " + shortType(mt.Key()))
				}
				mp, _ := r.get().(*Map)
				if mp == nil {
					return rval{}
				}
				v, found := m.mapLookup(mp, kv)
				if !found {
					return rval{}
				}
				return rval{t: mt.Elem(), v: copyVal(v), ro: r.ro}
			}
		}
		m.rvPanic("MapIndex", r)
		return nil
	}
	externals[V+"SetMapIndex"] = func(m *Machine, fr *frame, a []value) value {
		r := asRval(a[0])
		if r.t != nil {
			if mt, ok := r.t.Underlying().(*types.Map); ok {
				if r.ro {
					m.rtPanicPlain("reflect: reflect.Value.SetMapIndex using value obtained using unexported field")
				}
				k := asRval(a[1])
				kv, ok := m.rvAssignTo(k, mt.Key())
				if !ok {
					m.rtPanicPlain("reflect.Value.SetMapIndex: value of type " + shortTypeOrZero(k.t) + " is not assignable to type " + shortType(mt.Key()))
				}
				mp, _ := r.get().(*Map)
				e := asRval(a[2])
				if e.t == nil {
					if mp != nil {
						m.mapDelete(mp, kv)
					}
					return nil
				}
				ev, ok := m.rvAssignTo(e, mt.Elem())
				if !ok {
					m.rtPanicPlain("reflect.Value.SetMapIndex: value of type " + shortType(e.t) + " is not assignable to type " + shortType(mt.Elem()))
				}
				if mp == nil {
					m.rtPanicPlain("assignment to entry in nil map")
				}
				m.mapInsert(mp, kv, copyVal(ev))
				return nil
			}
		}
		m.rvPanic("SetMapIndex", r)
		return nil
	}
	externals[V+"NumMethod"] = func(m *Machine, fr *frame, a []value) value {
		r := asRval(a[0])
		if r.t == nil {
			m.rvPanic("NumMethod", r)
		}
		return int64(len(m.exportedMethods(r.t)))
	}
	externals[V+"CallSlice"] = func(m *Machine, fr *frame, a []value) value {
		r := asRval(a[0])
		in, _ := a[1].([]value)
		return m.rvCallX(fr, r, in, true)
	}
	externals[V+"Call"] = func(m *Machine, fr *frame, a []value) value {
		r := asRval(a[0])
		in, _ := a[1].([]value)
		return m.rvCall(fr, r, in)
	}

	// ---- additional Type methods ----
	pre := "(*reflect.rtype)."
	sigOf := func(m *Machine, a value, method string) *types.Signature {
		sig, ok := rtOf(a).Underlying().(*types.Signature)
		if !ok {
			m.rtPanicPlain("reflect: " + method + " of non-func type " + shortType(rtOf(a)))
		}
		return sig
	}
	externals[pre+"NumIn"] = func(m *Machine, fr *frame, a []value) value {
		return int64(sigOf(m, a[0], "NumIn").Params().Len())
	}
	externals[pre+"NumOut"] = func(m *Machine, fr *frame, a []value) value {
		return int64(sigOf(m, a[0], "NumOut").Results().Len())
	}
	externals[pre+"IsVariadic"] = func(m *Machine, fr *frame, a []value) value {
		return sigOf(m, a[0], "IsVariadic").Variadic()
	}
	externals[pre+"In"] = func(m *Machine, fr *frame, a []value) value {
		sig := sigOf(m, a[0], "In")
		i := m.concretizeInt(a[1], intInfo{64, true})
		if i < 0 || int(i) >= sig.Params().Len() {
			m.rtPanic("index out of range [" + fmt.Sprint(i) + "] with length " + fmt.Sprint(sig.Params().Len()))
		}
		return m.mkRType(sig.Params().At(int(i)).Type(), "reflect")
	}
	externals[pre+"Out"] = func(m *Machine, fr *frame, a []value) value {
		sig := sigOf(m, a[0], "Out")
		i := m.concretizeInt(a[1], intInfo{64, true})
		if i < 0 || int(i) >= sig.Results().Len() {
			m.rtPanic("index out of range [" + fmt.Sprint(i) + "] with length " + fmt.Sprint(sig.Results().Len()))
		}
		return m.mkRType(sig.Results().At(int(i)).Type(), "reflect")
	}
	externals[pre+"NumField"] = func(m *Machine, fr *frame, a []value) value {
		st, ok := rtOf(a[0]).Underlying().(*types.Struct)
		if !ok {
			m.rtPanicPlain("reflect: NumField of non-struct type " + shortType(rtOf(a[0])))
		}
		return int64(st.NumFields())
	}
	externals[pre+"Field"] = func(m *Machine, fr *frame, a []value) value {
		st, ok := rtOf(a[0]).Underlying().(*types.Struct)
		if !ok {
			m.rtPanicPlain("reflect: Field of non-struct type " + shortType(rtOf(a[0])))
		}
		i := m.concretizeInt(a[1], intInfo{64, true})
		if i < 0 || int(i) >= st.NumFields() {
			m.rtPanicPlain("reflect: Field index out of bounds")
		}
		return m.rtStructField(st, int(i))
	}
	externals[pre+"Method"] = func(m *Machine, fr *frame, a []value) value {
		t := rtOf(a[0])
		ms := m.exportedMethods(t)
		i := m.concretizeInt(a[1], intInfo{64, true})
		if i < 0 || int(i) >= len(ms) {
			m.rtPanicPlain("reflect: Method index out of range")
		}
		return m.rtMethod(t, ms[i], int(i))
	}
	externals[pre+"MethodByName"] = func(m *Machine, fr *frame, a []value) value {
		t := rtOf(a[0])
		name, ok := a[1].(string)
		if !ok {
			panic(unsupported("reflect.Type.MethodByName with a symbolic name"))
		}
		for i, sel := range m.exportedMethods(t) {
			if sel.Obj().Name() == name {
				return tuple{m.rtMethod(t, sel, i), true}
			}
		}
		return tuple{zero(m.eng.pkgByPath["reflect"].Type("Method").Type()), false}
	}
}

func shortTypeOrZero(t types.Type) string {
	if t == nil {
		return "zero Value"
	}
	return shortType(t)
}
