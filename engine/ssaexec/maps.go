package ssaexec

import (
	"fmt"
	"go/types"
	"math"
	"strings"
)

// Map is the engine's Go map: insertion-ordered entries, a native index for
// fully concrete keys, linear symbolic comparison otherwise.
type Map struct {
	kt      types.Type
	entries []*mapEntry
	idx     map[interface{}]*mapEntry
	n       int
}

type mapEntry struct {
	k, v    value
	ck      interface{} // canonical concrete key, nil when symbolic
	deleted bool
}

func newMap(kt types.Type) *Map {
	return &Map{kt: kt, idx: map[interface{}]*mapEntry{}}
}

func (mp *Map) Len() int {
	if mp == nil {
		return 0
	}
	return mp.n
}

type ifaceKey struct {
	t string
	k interface{}
}

type ptrKey struct{ p interface{} }

// concKey returns a comparable canonical form of a fully concrete key.
func (m *Machine) concKey(t types.Type, k value) (interface{}, bool) {
	switch kv := k.(type) {
	case int64, string, bool:
		return kv, true
	case float64:
		return kv, true
	case *Sym, *SymStr:
		return nil, false
	case *value:
		return ptrKey{kv}, true
	case *Chan:
		return ptrKey{kv}, true
	case unsafePtr:
		return ptrKey{kv.p}, true
	case rtype:
		return "rtype:" + typeString(kv.t), true
	case iface:
		if kv.t == nil {
			return ifaceKey{"", nil}, true
		}
		if !types.Comparable(kv.t) {
			m.rtPanic("hash of unhashable type " + typeString(kv.t))
		}
		ck, ok := m.concKey(kv.t, kv.v)
		if !ok {
			return nil, false
		}
		return ifaceKey{typeString(kv.t), ck}, true
	case structure:
		var sb strings.Builder
		st := t.Underlying().(*types.Struct)
		for i, f := range kv {
			ck, ok := m.concKey(st.Field(i).Type(), f)
			if !ok {
				return nil, false
			}
			writeKey(&sb, ck)
		}
		return "S" + sb.String(), true
	case array:
		var sb strings.Builder
		at := t.Underlying().(*types.Array)
		for _, f := range kv {
			ck, ok := m.concKey(at.Elem(), f)
			if !ok {
				return nil, false
			}
			writeKey(&sb, ck)
		}
		return "A" + sb.String(), true
	case poison:
		panic(unsupported("poison value used as map key: " + kv.why))
	}
	panic(engineFault(fmt.Sprintf("concKey: %T", k)))
}

func writeKey(sb *strings.Builder, ck interface{}) {
	switch c := ck.(type) {
	case string:
		fmt.Fprintf(sb, "s%d:%s|", len(c), c)
	case float64:
		fmt.Fprintf(sb, "f%x|", math.Float64bits(c))
	case ptrKey:
		fmt.Fprintf(sb, "p%p|", c.p)
	case ifaceKey:
		fmt.Fprintf(sb, "i<%s>", c.t)
		writeKey(sb, c.k)
	default:
		fmt.Fprintf(sb, "%T%v|", c, c)
	}
}

func isNaNKey(ck interface{}) bool {
	switch c := ck.(type) {
	case float64:
		return c != c
	case ifaceKey:
		return isNaNKey(c.k)
	case string:
		return false
	}
	return false
}

// find locates the entry equal to k (forking on symbolic comparisons).
func (m *Machine) mapFind(mp *Map, k value) *mapEntry {
	if mp == nil {
		return nil
	}
	ck, conc := m.concKey(mp.kt, k)
	if conc {
		if e, ok := mp.idx[ck]; ok && !e.deleted {
			return e
		}
		// compare against symbolic-key entries only
		for _, e := range mp.entries {
			if e.deleted || e.ck != nil {
				continue
			}
			if m.branchVal(m.equals(mp.kt, e.k, k)) {
				return e
			}
		}
		return nil
	}
	for _, e := range mp.entries {
		if e.deleted {
			continue
		}
		if m.branchVal(m.equals(mp.kt, e.k, k)) {
			return e
		}
	}
	return nil
}

func (m *Machine) mapLookup(mp *Map, k value) (value, bool) {
	if m.raceActive {
		m.raceMap(mp, false)
	}
	e := m.mapFind(mp, k)
	if e == nil {
		return nil, false
	}
	return copyVal(e.v), true
}

func (m *Machine) mapInsert(mp *Map, k, v value) {
	if mp == nil {
		m.rtPanic("assignment to entry in nil map")
	}
	if m.raceActive {
		m.raceMap(mp, true)
	}
	if e := m.mapFind(mp, k); e != nil {
		old := e.v
		m.logUndo(func() { e.v = old })
		e.v = copyVal(v)
		return
	}
	ck, conc := m.concKey(mp.kt, k)
	e := &mapEntry{k: copyVal(k), v: copyVal(v)}
	if conc {
		e.ck = ck
		if !isNaNKey(ck) {
			prev, had := mp.idx[ck]
			mp.idx[ck] = e
			m.logUndo(func() {
				if had {
					mp.idx[ck] = prev
				} else {
					delete(mp.idx, ck)
				}
			})
		}
	}
	mp.entries = append(mp.entries, e)
	mp.n++
	m.logUndo(func() {
		mp.entries = mp.entries[:len(mp.entries)-1]
		mp.n--
	})
	// compact tombstones occasionally (only outside journaling, to keep undo simple)
	if !m.journaling && len(mp.entries) > 32 && len(mp.entries) > 2*mp.n {
		mp.compact()
	}
}

func (mp *Map) compact() {
	out := mp.entries[:0:0]
	for _, e := range mp.entries {
		if !e.deleted {
			out = append(out, e)
		}
	}
	mp.entries = out
}

func (m *Machine) mapDelete(mp *Map, k value) {
	if mp == nil {
		return
	}
	if m.raceActive {
		m.raceMap(mp, true)
	}
	e := m.mapFind(mp, k)
	if e == nil {
		return
	}
	e.deleted = true
	mp.n--
	var hadIdx bool
	if e.ck != nil {
		if cur, ok := mp.idx[e.ck]; ok && cur == e {
			delete(mp.idx, e.ck)
			hadIdx = true
		}
	}
	m.logUndo(func() {
		e.deleted = false
		mp.n++
		if hadIdx {
			mp.idx[e.ck] = e
		}
	})
}

func (m *Machine) mapClear(mp *Map) {
	if mp == nil {
		return
	}
	if m.raceActive {
		m.raceMap(mp, true)
	}
	for _, e := range mp.entries {
		if !e.deleted {
			m.mapDeleteEntry(mp, e)
		}
	}
}

func (m *Machine) mapDeleteEntry(mp *Map, e *mapEntry) {
	e.deleted = true
	mp.n--
	var hadIdx bool
	if e.ck != nil {
		if cur, ok := mp.idx[e.ck]; ok && cur == e {
			delete(mp.idx, e.ck)
			hadIdx = true
		}
	}
	m.logUndo(func() {
		e.deleted = false
		mp.n++
		if hadIdx {
			mp.idx[e.ck] = e
		}
	})
}

// ---- iteration ----

type iter interface {
	next(m *Machine) tuple
}

type mapIter struct {
	mp    *Map
	order []*mapEntry
	pos   int
}

// mapRange snapshots the live entries in the order chosen for this range
// statement. With MapOrderAll the order is a nondeterministic permutation.
func (m *Machine) mapRange(mp *Map) iter {
	it := &mapIter{mp: mp}
	if mp == nil {
		return it
	}
	if m.raceActive {
		m.raceMap(mp, false)
	}
	for _, e := range mp.entries {
		if !e.deleted {
			it.order = append(it.order, e)
		}
	}
	if m.path != nil && m.path.mapOrderAll && len(it.order) >= 2 {
		n := len(it.order)
		if n <= m.path.mapPermMax {
			// full permutation by successive choices
			for i := 0; i < n-1; i++ {
				j := i + m.choose(n-i, "map-order")
				it.order[i], it.order[j] = it.order[j], it.order[i]
			}
		} else {
			// insertion, reverse, two rotations
			switch m.choose(4, "map-order-large") {
			case 1:
				for i, j := 0, n-1; i < j; i, j = i+1, j-1 {
					it.order[i], it.order[j] = it.order[j], it.order[i]
				}
			case 2:
				it.order = append(it.order[1:], it.order[0])
			case 3:
				it.order = append(it.order[n/2:], it.order[:n/2]...)
			}
		}
	}
	return it
}

func (it *mapIter) next(m *Machine) tuple {
	for it.pos < len(it.order) {
		e := it.order[it.pos]
		it.pos++
		if e.deleted {
			continue
		}
		return tuple{true, copyVal(e.k), copyVal(e.v)}
	}
	return tuple{false, nil, nil}
}

type stringIter struct {
	bs  []value
	pos int
}

func (it *stringIter) next(m *Machine) tuple {
	if it.pos >= len(it.bs) {
		return tuple{false, int64(0), int64(0)}
	}
	r, sz := m.decodeRuneAt(it.bs, it.pos)
	i := it.pos
	it.pos += sz
	return tuple{true, int64(i), r}
}
