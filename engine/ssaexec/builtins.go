package ssaexec

import (
	"fmt"
	"go/token"
	"go/types"

	"golang.org/x/tools/go/ssa"
)

func (m *Machine) callBuiltin(caller *frame, callpos token.Pos, fn *ssa.Builtin, args []value) value {
	switch fn.Name() {
	case "append":
		if len(args) == 1 {
			return args[0]
		}
		var src []value
		switch s := args[1].(type) {
		case string, *SymStr:
			src = strBytes(s)
		case []value:
			src = s
		default:
			panic(engineFault(fmt.Sprintf("append src %T", args[1])))
		}
		dst, _ := args[0].([]value)
		if len(src) == 0 {
			return dst
		}
		n := len(dst)
		if n+len(src) <= cap(dst) {
			out := dst[:n+len(src)]
			for i, v := range src {
				m.write(&out[n+i], copyVal(v))
			}
			return out
		}
		// grow: fresh backing array (Go-like amortised growth)
		nc := cap(dst) * 2
		if nc < n+len(src) {
			nc = n + len(src)
		}
		out := make([]value, n+len(src), nc)
		for i := range dst {
			out[i] = dst[i]
		}
		for i, v := range src {
			out[n+i] = copyVal(v)
		}
		// zero the spare capacity
		if nc > n+len(src) {
			et := fn.Type().(*types.Signature).Results().At(0).Type().Underlying().(*types.Slice).Elem()
			full := out[:nc]
			for i := n + len(src); i < nc; i++ {
				full[i] = zero(et)
			}
		}
		return out

	case "copy":
		dst := args[0].([]value)
		var src []value
		switch s := args[1].(type) {
		case string, *SymStr:
			src = strBytes(s)
		case []value:
			src = s
		}
		n := len(dst)
		if len(src) < n {
			n = len(src)
		}
		// handle overlap like memmove
		tmp := make([]value, n)
		for i := 0; i < n; i++ {
			tmp[i] = copyVal(src[i])
		}
		for i := 0; i < n; i++ {
			m.write(&dst[i], tmp[i])
		}
		return int64(n)

	case "close":
		m.chanClose(args[0].(*Chan))
		return nil

	case "delete":
		m.mapDelete(args[0].(*Map), args[1])
		return nil

	case "clear":
		switch x := args[0].(type) {
		case *Map:
			m.mapClear(x)
		case []value:
			et := fn.Type().(*types.Signature).Params().At(0).Type().Underlying().(*types.Slice).Elem()
			for i := range x {
				m.write(&x[i], zero(et))
			}
		}
		return nil

	case "print", "println":
		return nil

	case "len":
		switch x := args[0].(type) {
		case string:
			return int64(len(x))
		case *SymStr:
			return int64(len(x.B))
		case array:
			return int64(len(x))
		case *value:
			return int64(len((*x).(array)))
		case []value:
			return int64(len(x))
		case *Map:
			return int64(x.Len())
		case *Chan:
			if x == nil {
				return int64(0)
			}
			return int64(len(x.buf))
		case poison:
			panic(unsupported("len of poison: " + x.why))
		}
		panic(engineFault(fmt.Sprintf("len: illegal operand: %T", args[0])))

	case "cap":
		switch x := args[0].(type) {
		case array:
			return int64(len(x))
		case *value:
			return int64(len((*x).(array)))
		case []value:
			return int64(cap(x))
		case *Chan:
			if x == nil {
				return int64(0)
			}
			return int64(x.cap)
		}
		panic(engineFault(fmt.Sprintf("cap: illegal operand: %T", args[0])))

	case "min", "max":
		t := fn.Type().(*types.Signature).Params().At(0).Type()
		acc := args[0]
		for _, a := range args[1:] {
			var lt value
			if fn.Name() == "min" {
				lt = m.binop(token.LSS, t, t, a, acc)
			} else {
				lt = m.binop(token.GTR, t, t, a, acc)
			}
			if m.branchVal(lt) {
				acc = a
			}
		}
		return acc

	case "panic":
		panic(targetPanic{args[0]})

	case "recover":
		return m.doRecover(caller)

	case "ssa:wrapnilchk":
		recv := args[0]
		if p, ok := recv.(*value); ok && p == nil {
			m.rtPanic(fmt.Sprintf("value method %s.%s called using nil *%s pointer", args[1], args[2], args[1]))
		}
		return recv

	case "ssa:deferstack":
		return &caller.defers
	}
	panic(engineFault("unknown built-in: " + fn.Name()))
}
