package ssaexec

import (
	"fmt"
	"go/types"
	"os"
	"sync"

	"golang.org/x/tools/go/ssa"
)

// Tasks, channels and yield points (DESIGN §2.6).
//
// `go f()` creates a task (a coroutine: its own goroutine, but only the holder
// of the baton runs). Control moves between tasks only at synchronisation
// points: channel operations, select, task start/end, sync/atomic accesses,
// time.Sleep, contended mutexes/WaitGroups and verifrt.Yield. At such a point
// the choice of the next runnable task is engine nondeterminism (m.choose),
// explored exhaustively under a preemption bound plus a fairness bound (a task
// that has been runnable for fairLimit yield points is scheduled). Interleaving is
// sequentially consistent at these points only; data races are invisible.

type Chan struct {
	buf    []value
	cap    int
	closed bool
}

type selCase struct {
	ch   *Chan
	send bool
	val  value
}

type fireInfo struct {
	idx       int
	val       value
	ok        bool
	sendPanic bool // the channel was closed under a blocked sender
}

type task struct {
	id       int
	fn       value
	args     []value
	resume   chan struct{}
	started  bool
	done     bool
	blocked  bool
	pending  []selCase
	waitCond func() bool
	fired    *fireInfo
	cur      *frame
	depth    int
	waited   int // yield points spent runnable but not running
	blockedAt string
	returnTo  *task // event tasks: the task that was running when the event fired
	inEvent   int   // > 0 while parked in fireEvent
	isMain   bool
}

type taskKilled struct{}

var debugDeadlock = os.Getenv("GOSYM_DEBUG_DEADLOCK") != ""

type sched struct {
	tasks       []*task
	cur         *task
	main        *task
	killed      bool
	abort       interface{} // panic value raised in a non-main task, re-raised in main
	wg          sync.WaitGroup
	yields      int
	preemptions int
	maxPreempt  int
	fairLimit   int
	atYield     map[int]value // yield index -> func() to call there
	mutexHeld   map[*value]*task
	wgCount     map[*value]int64
	// preemptAtLoads makes atomic loads (the VM's halt poll, i.e. every VM
	// instruction boundary) voluntary preemption points as well
	preemptAtLoads bool
	preemptBeforeChanOps bool // a preemption point also right before every channel operation
	race           *raceState
	rwReaders      map[*value]int
}

func (m *Machine) sch() *sched { return m.path.sched }

func newSched() *sched {
	s := &sched{maxPreempt: 2, fairLimit: 2, atYield: map[int]value{}, mutexHeld: map[*value]*task{}}
	s.main = &task{id: 0, resume: make(chan struct{}), started: true, isMain: true}
	s.tasks = []*task{s.main}
	s.cur = s.main
	return s
}

func (m *Machine) makeChan(n int) *Chan {
	if n < 0 {
		m.rtPanic("makechan: size out of range")
	}
	return &Chan{cap: n}
}

// ---- task switching ----

func (m *Machine) runnable(t *task) bool {
	if t.done {
		return false
	}
	if t.blocked {
		if t.fired != nil {
			return true
		}
		if t.waitCond != nil && t.waitCond() {
			return true
		}
		return false
	}
	return true
}

// switchTo hands the baton to t and parks the current task until it is resumed.
func (m *Machine) switchTo(t *task) {
	s := m.sch()
	cur := s.cur
	if t == cur {
		return
	}
	cur.cur, cur.depth = m.cur, m.depth
	s.cur = t
	m.cur, m.depth = t.cur, t.depth
	t.waited = 0
	m.wake(t)
	m.park(cur)
}

func (m *Machine) wake(t *task) {
	s := m.sch()
	if !t.started {
		t.started = true
		s.wg.Add(1)
		go m.taskMain(t)
		return
	}
	t.resume <- struct{}{}
}

func (m *Machine) park(t *task) {
	<-t.resume
	s := m.sch()
	if s.killed && !t.isMain {
		panic(taskKilled{})
	}
	if t.isMain && s.abort != nil {
		r := s.abort
		s.abort = nil
		panic(r)
	}
}

func (m *Machine) taskMain(t *task) {
	s := m.sch()
	defer s.wg.Done()
	defer func() {
		r := recover()
		if _, k := r.(taskKilled); k {
			return
		}
		t.done = true
		if r != nil {
			// an uncaught Go panic in a goroutine crashes the program; engine aborts
			// must also reach the path runner: re-raise in the main task
			s.abort = r
			s.cur = s.main
			m.cur, m.depth = s.main.cur, s.main.depth
			s.main.resume <- struct{}{}
			return
		}
		// normal end: hand the baton on. An injected event returns to the task
		// it interrupted if that task is still waiting for it.
		if rt := t.returnTo; rt != nil && !rt.done && rt.inEvent > 0 {
			s.cur = rt
			m.cur, m.depth = rt.cur, rt.depth
			rt.resume <- struct{}{}
			return
		}
		next := m.pickNext(t)
		if next == nil {
			// nothing can run: if main is blocked forever this is a deadlock
			if debugDeadlock {
				for _, t := range s.tasks {
					if !t.done {
						fmt.Printf("DEADLOCK(task end) task %d blocked=%v at:\n%s\n", t.id, t.blocked, t.blockedAt)
					}
				}
			}
			s.abort = pathEnd{"deadlock:all-tasks-blocked"}
			s.cur = s.main
			m.cur, m.depth = s.main.cur, s.main.depth
			s.main.resume <- struct{}{}
			return
		}
		s.cur = next
		m.cur, m.depth = next.cur, next.depth
		next.waited = 0
		m.wake(next)
	}()
	m.cur, m.depth = nil, 0
	m.call(nil, 0, t.fn, t.args)
}

// pickNext chooses a runnable task other than `not` (nondeterministically).
func (m *Machine) pickNext(not *task) *task {
	s := m.sch()
	var cands []*task
	for _, t := range s.tasks {
		if t != not && m.runnable(t) {
			cands = append(cands, t)
		}
	}
	if len(cands) == 0 {
		return nil
	}
	return cands[m.choose(len(cands), "schedule")]
}

// blockCurrent parks the current task until it becomes runnable again.
func (m *Machine) blockCurrent() {
	s := m.sch()
	cur := s.cur
	cur.blockedAt = m.stack()
	for {
		if m.runnable(cur) {
			return
		}
		next := m.pickNext(cur)
		if next == nil {
			// everything is blocked: time passes until the next injected event
			if len(s.atYield) > 0 {
				first := -1
				for k := range s.atYield {
					if first < 0 || k < first {
						first = k
					}
				}
				f := s.atYield[first]
				delete(s.atYield, first)
				// the event runs as a task of its own while this task stays registered
				// as blocked, so that the event itself (e.g. closing a channel) can fire it
				m.fireEvent(f)
				continue
			}
			if debugDeadlock {
				for _, t := range s.tasks {
					if !t.done {
						fmt.Printf("DEADLOCK task %d blocked=%v at:\n%s\n", t.id, t.blocked, t.blockedAt)
					}
				}
			}
			if cur.isMain {
				panic(pathEnd{"deadlock:main-blocked-forever"})
			}
			panic(pathEnd{"deadlock:all-tasks-blocked"})
		}
		m.switchTo(next)
	}
}

// yield is a synchronisation point: an injected event may fire and another
// runnable task may be scheduled.
func (m *Machine) yield() { m.yieldKind(true) }

// softYield is a synchronisation point at which only injected events and the
// fairness rule apply (used for atomic loads: a read publishes nothing, so a
// voluntary preemption right before it is equivalent to one at the preceding
// write-type synchronisation point).
func (m *Machine) softYield() {
	if m.path != nil && m.path.sched != nil && m.path.sched.preemptAtLoads {
		m.yieldKind(true)
		return
	}
	m.yieldKind(false)
}

func (m *Machine) yieldKind(mayPreempt bool) {
	if m.path == nil || m.path.sched == nil {
		return
	}
	s := m.sch()
	s.yields++
	if f, ok := s.atYield[s.yields]; ok {
		delete(s.atYield, s.yields)
		m.fireEvent(f)
	}
	if len(s.tasks) == 1 {
		return
	}
	cur := s.cur
	var others []*task
	forced := (*task)(nil)
	for _, t := range s.tasks {
		if t != cur && m.runnable(t) {
			others = append(others, t)
			t.waited++
			if t.waited > s.fairLimit && forced == nil {
				forced = t
			}
		}
	}
	if len(others) == 0 {
		return
	}
	if forced != nil {
		m.switchTo(forced)
		return
	}
	if !mayPreempt || s.preemptions >= s.maxPreempt {
		return
	}
	k := m.choose(len(others)+1, "preempt")
	if k == 0 {
		return
	}
	s.preemptions++
	m.switchTo(others[k-1])
}

// fireEvent runs an injected environment event (verifrt.AtYield) as a task of
// its own — it stands for another goroutine of the host, e.g. one calling
// cancel() — and returns when that task has finished or, if it blocked, when
// the scheduler resumes the interrupted task.
func (m *Machine) fireEvent(f value) {
	s := m.sch()
	cur := s.cur
	t := &task{id: len(s.tasks), fn: f, resume: make(chan struct{}), returnTo: cur}
	s.tasks = append(s.tasks, t)
	m.raceFork(t)
	cur.inEvent++
	m.switchTo(t)
	cur.inEvent--
}

func (m *Machine) spawn(fr *frame, instr *ssa.Go, fn value, args []value) {
	if m.path == nil || m.path.sched == nil {
		panic(unsupported("go statement outside a path"))
	}
	s := m.sch()
	t := &task{id: len(s.tasks), fn: fn, args: args, resume: make(chan struct{})}
	s.tasks = append(s.tasks, t)
	m.raceFork(t)
	m.yield()
}

// killTasks ends every task goroutine of the path (called by the path runner).
func (m *Machine) killTasks() {
	if m.path == nil || m.path.sched == nil {
		return
	}
	s := m.sch()
	s.killed = true
	for _, t := range s.tasks {
		if t.isMain || !t.started || t.done {
			continue
		}
		// every live non-main task is parked on its resume channel
		t.resume <- struct{}{}
	}
	s.wg.Wait()
}

// ---- channel operations ----

func (m *Machine) findBlocked(ch *Chan, wantSend bool) (*task, int) {
	s := m.sch()
	for _, t := range s.tasks {
		if !t.blocked || t.fired != nil || t == s.cur {
			continue
		}
		for i, c := range t.pending {
			if c.ch == ch && c.send == wantSend {
				return t, i
			}
		}
	}
	return nil, -1
}

func (m *Machine) caseReady(c selCase) bool {
	if c.ch == nil {
		return false
	}
	if c.send {
		if c.ch.closed || len(c.ch.buf) < c.ch.cap {
			return true
		}
		t, _ := m.findBlocked(c.ch, false)
		return t != nil
	}
	if len(c.ch.buf) > 0 || c.ch.closed {
		return true
	}
	t, _ := m.findBlocked(c.ch, true)
	return t != nil
}

// execCase performs a ready case of the current task.
func (m *Machine) execCase(c selCase) (value, bool) {
	ch := c.ch
	if c.send {
		if ch.closed {
			m.rtPanicPlain("send on closed channel")
		}
		if len(ch.buf) == 0 {
			if t, i := m.findBlocked(ch, false); t != nil {
				t.fired = &fireInfo{idx: i, val: copyVal(c.val), ok: true}
				return nil, false
			}
		}
		old := ch.buf
		ch.buf = append(append([]value{}, ch.buf...), copyVal(c.val))
		m.logUndo(func() { ch.buf = old })
		return nil, false
	}
	if len(ch.buf) > 0 {
		v := ch.buf[0]
		old := ch.buf
		ch.buf = append([]value{}, ch.buf[1:]...)
		m.logUndo(func() { ch.buf = old })
		// a sender blocked on the full buffer can now complete
		if t, i := m.findBlocked(ch, true); t != nil {
			ch.buf = append(ch.buf, copyVal(t.pending[i].val))
			t.fired = &fireInfo{idx: i}
		}
		return v, true
	}
	if t, i := m.findBlocked(ch, true); t != nil {
		v := copyVal(t.pending[i].val)
		t.fired = &fireInfo{idx: i}
		return v, true
	}
	if ch.closed {
		return nil, false
	}
	panic(engineFault("execCase: case not ready"))
}

// selectCases implements select over the given cases.
func (m *Machine) selectCases(cases []selCase, blocking bool) (int, value, bool) {
	if m.path == nil || m.path.sched == nil {
		panic(unsupported("channel operation outside a path"))
	}
	s := m.sch()
	cur := s.cur
	if s.preemptBeforeChanOps && len(s.tasks) > 1 {
		// another task may run between whatever this task observed before (e.g.
		// len(ch)) and the operation itself
		m.yieldKind(true)
	}
	for {
		var ready []int
		for i, c := range cases {
			if m.caseReady(c) {
				ready = append(ready, i)
			}
		}
		if len(ready) > 0 {
			i := ready[m.choose(len(ready), "select")]
			m.raceSync(cases[i].ch, true, true)
			v, ok := m.execCase(cases[i])
			m.raceSync(cases[i].ch, true, true)
			m.yield()
			return i, v, ok
		}
		if !blocking {
			return -1, nil, false
		}
		cur.blocked, cur.pending, cur.fired = true, cases, nil
		for _, c := range cases {
			if c.ch != nil {
				m.raceSync(c.ch, false, true)
			}
		}
		m.blockCurrent()
		cur.blocked, cur.pending = false, nil
		if f := cur.fired; f != nil {
			cur.fired = nil
			if f.idx >= 0 && f.idx < len(cases) {
				m.raceSync(cases[f.idx].ch, true, true)
			}
			if f.sendPanic {
				m.rtPanicPlain("send on closed channel")
			}
			return f.idx, f.val, f.ok
		}
	}
}

func (m *Machine) chanSend(c *Chan, v value) {
	if c == nil {
		// blocks forever
		m.blockForever("send on nil channel")
	}
	m.selectCases([]selCase{{ch: c, send: true, val: v}}, true)
}

func (m *Machine) chanRecv(c *Chan, commaOk bool, et types.Type) value {
	if c == nil {
		m.blockForever("receive from nil channel")
	}
	_, v, ok := m.selectCases([]selCase{{ch: c}}, true)
	if !ok {
		v = zero(et)
	}
	if commaOk {
		return tuple{v, ok}
	}
	return v
}

func (m *Machine) blockForever(why string) {
	s := m.sch()
	cur := s.cur
	cur.blocked, cur.pending, cur.fired, cur.waitCond = true, nil, nil, nil
	m.blockCurrent()
	panic(engineFault("blockForever resumed: " + why))
}

func (m *Machine) chanClose(c *Chan) {
	if c == nil {
		m.rtPanicPlain("close of nil channel")
	}
	if c.closed {
		m.rtPanicPlain("close of closed channel")
	}
	c.closed = true
	m.logUndo(func() { c.closed = false })
	m.raceSync(c, true, true)
	if m.path != nil && m.path.sched != nil {
		s := m.sch()
		for _, t := range s.tasks {
			if !t.blocked || t.fired != nil {
				continue
			}
			for i, pc := range t.pending {
				if pc.ch != c {
					continue
				}
				if pc.send {
					t.fired = &fireInfo{idx: i, sendPanic: true}
				} else if len(c.buf) == 0 {
					t.fired = &fireInfo{idx: i, ok: false}
				}
				break
			}
		}
		m.yield()
	}
}

// blockUntil parks the current task until cond holds.
func (m *Machine) blockUntil(cond func() bool) {
	if cond() {
		return
	}
	s := m.sch()
	cur := s.cur
	cur.blocked, cur.pending, cur.fired, cur.waitCond = true, nil, nil, cond
	m.blockCurrent()
	cur.blocked, cur.waitCond = false, nil
}

func (m *Machine) rtPanicPlain(msg string) { m.rtPanic(msg) }

func (m *Machine) doSelect(fr *frame, instr *ssa.Select) value {
	cases := make([]selCase, len(instr.States))
	for i, st := range instr.States {
		c, _ := fr.get(st.Chan).(*Chan)
		cases[i] = selCase{ch: c, send: st.Dir == types.SendOnly}
		if st.Send != nil {
			cases[i].val = fr.get(st.Send)
		}
	}
	chosen, recvVal, recvOk := m.selectCases(cases, instr.Blocking)
	if chosen >= 0 && cases[chosen].send {
		recvOk = false
	}
	r := tuple{int64(chosen), recvOk}
	for i, st := range instr.States {
		if st.Dir == types.RecvOnly {
			if i == chosen && recvOk {
				r = append(r, recvVal)
			} else {
				r = append(r, zero(st.Chan.Type().Underlying().(*types.Chan).Elem()))
			}
		}
	}
	return r
}

var _ = fmt.Sprint
