package ssaexec

import (
	"fmt"
	"go/types"

	"golang.org/x/tools/go/ssa"
)

// Chan is a bounded FIFO with a closed flag (DESIGN §2.6).
type Chan struct {
	buf    []value
	cap    int
	closed bool
	id     int
}

type task struct {
	id   int
	fn   value
	args []value
	done bool
}

func (m *Machine) makeChan(n int) *Chan {
	return &Chan{cap: n}
}

func (m *Machine) spawn(fr *frame, instr *ssa.Go, fn value, args []value) {
	t := &task{id: len(m.tasks) + 1, fn: fn, args: args}
	m.tasks = append(m.tasks, t)
	m.logUndo(func() { m.tasks = m.tasks[:len(m.tasks)-1] })
}

func (m *Machine) chanSend(c *Chan, v value) {
	if c == nil {
		panic(pathEnd{"deadlock:send-on-nil-chan"})
	}
	if c.closed {
		m.rtPanicPlain("send on closed channel")
	}
	if len(c.buf) < c.cap {
		c.buf = append(c.buf, copyVal(v))
		m.logUndo(func() { c.buf = c.buf[:len(c.buf)-1] })
		return
	}
	panic(unsupported("blocking channel send (task model not enabled)"))
}

func (m *Machine) chanRecv(c *Chan, commaOk bool, et types.Type) value {
	if c == nil {
		panic(pathEnd{"deadlock:recv-on-nil-chan"})
	}
	if len(c.buf) > 0 {
		v := c.buf[0]
		old := c.buf
		c.buf = c.buf[1:]
		m.logUndo(func() { c.buf = old })
		if commaOk {
			return tuple{v, true}
		}
		return v
	}
	if c.closed {
		if commaOk {
			return tuple{zero(et), false}
		}
		return zero(et)
	}
	panic(unsupported("blocking channel receive (task model not enabled)"))
}

func (m *Machine) chanClose(c *Chan) {
	if c == nil {
		m.rtPanicPlain("close of nil channel")
	}
	if c.closed {
		m.rtPanicPlain("close of closed channel")
	}
	c.closed = true
	m.logUndo(func() { c.closed = false })
}

// rtPanicPlain raises a runtime panic whose text has no "runtime error: " prefix
// in real Go either (plainError); we still model it as runtime.Error.
func (m *Machine) rtPanicPlain(msg string) {
	m.rtPanic(msg)
}

func (m *Machine) doSelect(fr *frame, instr *ssa.Select) value {
	// readiness evaluation in source order; no task switching yet
	chosen := -1
	var recvVal value
	recvOk := false
	for i, st := range instr.States {
		c, _ := fr.get(st.Chan).(*Chan)
		if c == nil {
			continue
		}
		if st.Dir == types.RecvOnly {
			if len(c.buf) > 0 || c.closed {
				r := m.chanRecv(c, true, st.Chan.Type().Underlying().(*types.Chan).Elem()).(tuple)
				recvVal, recvOk = r[0], r[1].(bool)
				chosen = i
				break
			}
		} else {
			if c.closed {
				m.rtPanicPlain("send on closed channel")
			}
			if len(c.buf) < c.cap {
				m.chanSend(c, fr.get(st.Send))
				chosen = i
				break
			}
		}
	}
	if chosen < 0 && instr.Blocking {
		panic(pathEnd{"deadlock:select"})
	}
	r := tuple{int64(chosen), recvOk}
	for i, st := range instr.States {
		if st.Dir == types.RecvOnly {
			if i == chosen && recvOk {
				r = append(r, recvVal)
			} else {
				r = append(r, zero(st.Chan.Type().Underlying().(*types.Chan).Elem()))
			}
		}
	}
	return r
}

var _ = fmt.Sprint
