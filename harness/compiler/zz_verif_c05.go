//go:build verif

package compiler

import (
	"context"

	"github.com/risor-io/risor/internal/verifrt"
	"github.com/risor-io/risor/parser"
)

func sameConst(a, b any) bool {
	switch x := a.(type) {
	case *Function:
		y, ok := b.(*Function)
		return ok && sameCode(x.Code(), y.Code())
	default:
		return a == b
	}
}

func sameCode(a, b *Code) bool {
	if a.InstructionCount() != b.InstructionCount() || a.ConstantsCount() != b.ConstantsCount() || a.NameCount() != b.NameCount() {
		return false
	}
	// the source text is part of the serialised form (MarshalCode)
	if a.Source() != b.Source() {
		return false
	}
	for i := 0; i < a.InstructionCount(); i++ {
		if a.Instruction(i) != b.Instruction(i) {
			return false
		}
	}
	for i := 0; i < a.ConstantsCount(); i++ {
		if !sameConst(a.Constant(i), b.Constant(i)) {
			return false
		}
	}
	for i := 0; i < a.NameCount(); i++ {
		if a.Name(i) != b.Name(i) {
			return false
		}
	}
	return true
}

var c05Sources = []string{
	`{a: 1, b: 2}`,
	`{a: f(), b: g()}`,
	`{"a": 1, "a": 2}`,
	`{a: 1, b: 2, c: 3}`,
	`x := {k: f(), "j": g(), i: 3}; x`,
	`func h(x=1, y=2, z="s") { x }; h()`,
	`func h(x, y=nil, z=true) { {p: x, q: y} }; h(1)`,
	`{a: {b: 1, c: 2}, d: [1, 2]}`,
	`{1, 2, 3}`,
	`[f(), g()]`,
	"m := {\n\t\"alpha\": f(),\n\t\"beta\": g(),\n\t\"gamma\": 3,\n\t\"beta\": 5,\n}\nm",
	"{\n a: 1,\n b: {\n  c: f(),\n  d: g(),\n },\n}",
}

// HarnessC05CompileUnderEveryMapOrder: compiling the same syntax tree yields
// identical bytecode whatever order Go iterates its maps in.
func HarnessC05CompileUnderEveryMapOrder() {
	src := c05Sources[verifrt.Choose(len(c05Sources))]
	// the compiler rewrites function bodies in the tree it is given, so each
	// compilation gets its own parse of the same source
	prog, err := parser.Parse(context.Background(), src)
	prog2, errB := parser.Parse(context.Background(), src)
	verifrt.Assert(err == nil && errB == nil, "parses")
	if err != nil || errB != nil {
		return
	}
	names := []string{"f", "g"}
	first, err1 := Compile(prog, WithGlobalNames(names))
	verifrt.MapOrderAll(true)
	second, err2 := Compile(prog2, WithGlobalNames(names))
	verifrt.MapOrderAll(false)
	verifrt.Assert(err1 == nil && err2 == nil, "compiles")
	if err1 != nil || err2 != nil {
		return
	}
	verifrt.Reach("compared")
	verifrt.Assert(sameCode(first, second), "bytecode-independent-of-map-iteration-order")
}

// HarnessC05SymbolTableOrder: global symbol indices do not depend on the order
// in which the host listed the names (compiler.New sorts them).
func HarnessC05SymbolTableOrder() {
	names := []string{"zeta", "alpha", "mid"}
	// a symbolic permutation of the names
	i := verifrt.Choose(3)
	j := verifrt.Choose(2)
	perm := append([]string{}, names...)
	perm[0], perm[i] = perm[i], perm[0]
	perm[1], perm[1+j] = perm[1+j], perm[1]
	prog, _ := parser.Parse(context.Background(), `alpha + mid + zeta`)
	c1, err1 := Compile(prog, WithGlobalNames(names))
	c2, err2 := Compile(prog, WithGlobalNames(perm))
	verifrt.Assert(err1 == nil && err2 == nil, "compiles")
	if err1 == nil && err2 == nil {
		verifrt.Assert(sameCode(c1, c2), "bytecode-independent-of-global-name-order")
	}
	verifrt.Reach("done")
}

// programs the compiler rejects: the error must be the same one every time
var c05Rejected = []string{
	`func k1(a=[1], b=[2]) { }`,
	`func k2(a={x: 1}, b=[2], c=f()) { }`,
	`{a: zz1, b: zz2}`,
	`x := {k: zz1, "j": zz2}`,
	`func h() { return [zz1, zz2] }`,
}

// HarnessC05CompileErrorsUnderEveryMapOrder: a program the compiler rejects is
// rejected with the same message whatever order Go iterates its maps in.
func HarnessC05CompileErrorsUnderEveryMapOrder() {
	src := c05Rejected[verifrt.Choose(len(c05Rejected))]
	prog, err := parser.Parse(context.Background(), src)
	prog2, errB := parser.Parse(context.Background(), src)
	verifrt.Assert(err == nil && errB == nil, "parses")
	if err != nil || errB != nil {
		return
	}
	_, err1 := Compile(prog, WithGlobalNames([]string{"f", "g"}))
	verifrt.MapOrderAll(true)
	_, err2 := Compile(prog2, WithGlobalNames([]string{"f", "g"}))
	verifrt.MapOrderAll(false)
	verifrt.Assert(err1 != nil && err2 != nil, "rejected")
	if err1 == nil || err2 == nil {
		return
	}
	verifrt.Reach("compared")
	verifrt.Assert(err1.Error() == err2.Error(), "compile-error-independent-of-map-iteration-order")
}
