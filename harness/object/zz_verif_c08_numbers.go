//go:build verif

package object

import (
	"reflect"

	"github.com/risor-io/risor/internal/verifrt"
)

// HarnessC08ScriptFloatsAndBytesToGoFP: a script float or byte handed to a Go
// integer parameter of any size arrives as exactly that number or is rejected
// (the int sources are covered by HarnessC08ScriptToGo).
func HarnessC08ScriptFloatsAndBytesToGoFP() {
	var obj Object
	var want float64
	if verifrt.Bool() {
		x := verifrt.Float64()
		verifrt.Assume(x == x)
		obj, want = NewFloat(x), x
	} else {
		b := verifrt.Uint8()
		obj, want = NewByte(b), float64(b)
	}
	var r any
	var err error
	switch verifrt.Choose(11) {
	case 0:
		r, err = (&Int8Converter{}).To(obj)
	case 1:
		r, err = (&Int16Converter{}).To(obj)
	case 2:
		r, err = (&Int32Converter{}).To(obj)
	case 3:
		r, err = (&Int64Converter{}).To(obj)
	case 4:
		r, err = (&IntConverter{}).To(obj)
	case 5:
		r, err = (&Uint8Converter{}).To(obj)
	case 6:
		r, err = (&Uint16Converter{}).To(obj)
	case 7:
		r, err = (&Uint32Converter{}).To(obj)
	case 8:
		r, err = (&Uint64Converter{}).To(obj)
	case 9:
		r, err = (&UintConverter{}).To(obj)
	case 10:
		r, err = (&ByteConverter{}).To(obj)
	}
	if err != nil {
		return
	}
	verifrt.Reach("converted")
	var got float64
	known := true
	switch v := r.(type) {
	case int8:
		got = float64(v)
	case int16:
		got = float64(v)
	case int32:
		got = float64(v)
	case int64:
		got = float64(v)
	case int:
		got = float64(v)
	case uint8:
		got = float64(v)
	case uint16:
		got = float64(v)
	case uint32:
		got = float64(v)
	case uint64:
		got = float64(v)
	case uint:
		got = float64(v)
	default:
		known = false
	}
	verifrt.Assert(known && got == want, "script-number-arrives-exactly-or-is-rejected")
}

type c08MapInner struct{ N int }
type c08MapOuter struct {
	P  *int
	In c08MapInner
	Q  *c08MapInner
	S  string
}

// HarnessC08StructFromScriptMap: a script map handed to a Go parameter of
// struct type builds that struct field by field: nil for a pointer field, a
// nested map for a struct-valued or struct-pointer field; never a panic, and
// the values arrive as written.
func HarnessC08StructFromScriptMap() {
	conv, err := NewTypeConverter(reflect.TypeOf(c08MapOuter{}))
	verifrt.Assert(err == nil, "converter-exists")
	if err != nil {
		return
	}
	x := verifrt.Int64()
	inner := NewMap(map[string]Object{"N": NewInt(x)})
	var m *Map
	which := verifrt.Choose(5)
	switch which {
	case 0:
		m = NewMap(map[string]Object{"P": Nil, "S": NewString("s")})
	case 1:
		m = NewMap(map[string]Object{"In": inner})
	case 2:
		m = NewMap(map[string]Object{"Q": inner})
	case 3:
		m = NewMap(map[string]Object{"P": NewInt(x)})
	case 4:
		m = NewMap(map[string]Object{"In": inner, "Q": inner, "P": Nil})
	}
	var out any
	var cerr error
	panicked := false
	func() {
		defer func() {
			if r := recover(); r != nil {
				panicked = true
			}
		}()
		out, cerr = conv.To(m)
	}()
	verifrt.Assert(!panicked, "struct-from-map-never-panics")
	if panicked || cerr != nil {
		return
	}
	verifrt.Reach("converted")
	o, ok := out.(c08MapOuter)
	verifrt.Assert(ok, "struct-from-map-has-the-struct-type")
	if !ok {
		return
	}
	switch which {
	case 0:
		verifrt.Assert(o.P == nil && o.S == "s", "struct-from-map-fields-as-written")
	case 1:
		verifrt.Assert(o.In.N == int(x), "struct-from-map-fields-as-written")
	case 2:
		verifrt.Assert(o.Q != nil && o.Q.N == int(x), "struct-from-map-fields-as-written")
	case 3:
		verifrt.Assert(o.P != nil && *o.P == int(x), "struct-from-map-fields-as-written")
	case 4:
		verifrt.Assert(o.P == nil && o.In.N == int(x) && o.Q != nil && o.Q.N == int(x), "struct-from-map-fields-as-written")
	}
}
