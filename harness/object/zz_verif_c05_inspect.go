//go:build verif

package object

import (
	"context"
	"errors"
	"strings"

	"github.com/risor-io/risor/internal/verifrt"
)

func c05FreshObject(which int) Object {
	switch which {
	case 0:
		return NewChan(0)
	case 1:
		return NewChan(3)
	case 2:
		return NewBuiltin("b", func(ctx context.Context, args ...Object) Object { return Nil })
	case 3:
		return NewError(errors.New("boom"))
	case 4:
		return NewListIter(NewList([]Object{NewInt(1), NewChan(0)}))
	case 5:
		return NewIntIter(NewInt(4))
	case 6:
		return NewPartial(NewBuiltin("b", func(ctx context.Context, args ...Object) Object { return Nil }), []Object{NewChan(0)})
	case 7:
		return NewList([]Object{NewChan(0), NewMap(map[string]Object{"k": NewChan(1)}), NewSet([]Object{NewInt(1)})})
	case 8:
		return NewMapIter(NewMap(map[string]Object{"k": NewChan(0)}))
	case 9:
		return NewSetIter(NewSet([]Object{NewInt(1)}).(*Set))
	}
	return NewByteSlice([]byte("ab"))
}

// HarnessC05PrintedFormCarriesNoAddress: two values a script can make in the
// same way print the same, i.e. the printed form of script-made values (channels,
// iterators, partials, builtins, errors, containers of them) does not depend on
// where they live in memory.
func HarnessC05PrintedFormCarriesNoAddress() {
	which := verifrt.Choose(11)
	x, y := c05FreshObject(which), c05FreshObject(which)
	verifrt.Reach("made")
	xi, yi := x.Inspect(), y.Inspect()
	verifrt.Assert(xi == yi, "same-construction-prints-the-same")
	verifrt.Assert(!strings.Contains(xi, "0x"), "printed-form-has-no-address")
	if s, ok := x.(interface{ String() string }); ok {
		if t, ok := y.(interface{ String() string }); ok {
			verifrt.Assert(s.String() == t.String(), "same-construction-prints-the-same")
		}
	}
}
