//go:build verif

package object

import "github.com/risor-io/risor/internal/verifrt"

// HarnessC16ResolveIndex: ResolveIndex over all int64 (idx, size>=0).
func HarnessC16ResolveIndex() {
	idx, size := verifrt.Int64(), verifrt.Int64()
	verifrt.Assume(size >= 0)
	r, err := ResolveIndex(idx, size)
	inRange := verifrt.And(idx >= -size, idx < size)
	if err == nil {
		verifrt.Reach("ok")
		verifrt.Assert(inRange, "accepted-implies-in-range")
		verifrt.Assert(verifrt.And(r >= 0, r < size), "result-in-bounds")
		verifrt.Assert(verifrt.Or(r == idx, r == idx+size), "result-is-normalised-index")
		verifrt.Assert(verifrt.Implies(idx >= 0, r == idx), "nonneg-unchanged")
	} else {
		verifrt.Reach("err")
		verifrt.Assert(verifrt.Not(inRange), "rejected-implies-out-of-range")
	}
}
