//go:build verif

package object

import (
	"reflect"
	"time"

	"github.com/risor-io/risor/internal/verifrt"
)

type c08Int64 int64
type c08Int int
type c08String string
type c08Bool bool
type c08Float float64
type c08Uint8 uint8

// c08FromTo pushes a Go value through the real converter selection, From and To.
func c08FromTo(v any) (obj Object, back any, rejected bool, panicked bool) {
	defer func() {
		if r := recover(); r != nil {
			panicked = true
		}
	}()
	conv, err := NewTypeConverter(reflect.TypeOf(v))
	if err != nil {
		return nil, nil, true, false
	}
	obj, err = conv.From(v)
	if err != nil {
		return nil, nil, true, false
	}
	back, err = conv.To(obj)
	if err != nil {
		return obj, nil, true, false
	}
	return obj, back, false, false
}

func c08IntContent(obj Object) (int64, bool) {
	switch o := obj.(type) {
	case *Int:
		return o.value, true
	case *Byte:
		return int64(o.value), true
	}
	return 0, false
}

// HarnessC08SignedInts: every signed integer kind, unnamed.
func HarnessC08SignedInts() {
	var v any
	var want int64
	switch verifrt.Choose(5) {
	case 0:
		x := verifrt.Int()
		v, want = x, int64(x)
	case 1:
		x := verifrt.Int8()
		v, want = x, int64(x)
	case 2:
		x := verifrt.Int16()
		v, want = x, int64(x)
	case 3:
		x := verifrt.Int32()
		v, want = x, int64(x)
	case 4:
		x := verifrt.Int64()
		v, want = x, x
	}
	obj, back, rejected, panicked := c08FromTo(v)
	verifrt.Assert(!panicked, "conversion-never-panics")
	if panicked {
		return
	}
	if obj != nil {
		got, ok := c08IntContent(obj)
		verifrt.Assert(ok && got == want, "script-value-equals-go-value")
	}
	if rejected {
		return
	}
	verifrt.Reach("converted")
	verifrt.Assert(back == v, "converts-back-to-an-equal-go-value")
}

// HarnessC08UnsignedInts: the script side must show the same mathematical number.
func HarnessC08UnsignedInts() {
	var v any
	var want uint64
	switch verifrt.Choose(5) {
	case 0:
		x := verifrt.Uint()
		v, want = x, uint64(x)
	case 1:
		x := verifrt.Uint8()
		v, want = x, uint64(x)
	case 2:
		x := verifrt.Uint16()
		v, want = x, uint64(x)
	case 3:
		x := verifrt.Uint32()
		v, want = x, uint64(x)
	case 4:
		x := verifrt.Uint64()
		v, want = x, x
	}
	obj, back, rejected, panicked := c08FromTo(v)
	verifrt.Assert(!panicked, "conversion-never-panics")
	if panicked {
		return
	}
	if obj != nil {
		// whatever happens on the way back, the value the script sees is the Go value
		got, ok := c08IntContent(obj)
		// equal as mathematical numbers: non-negative and same magnitude
		verifrt.Assert(ok && got >= 0 && uint64(got) == want, "script-value-equals-go-value")
	}
	if rejected {
		return
	}
	verifrt.Reach("converted")
	verifrt.Assert(back == v, "converts-back-to-an-equal-go-value")
}

func HarnessC08FloatsBoolsStringsFP() {
	switch verifrt.Choose(4) {
	case 0:
		x := verifrt.Float64()
		obj, back, rejected, panicked := c08FromTo(x)
		verifrt.Assert(!panicked, "conversion-never-panics")
		if panicked || rejected {
			return
		}
		f, ok := obj.(*Float)
		verifrt.Assert(ok && (f.value == x || (f.value != f.value && x != x)), "script-value-equals-go-value")
		bf, isF := back.(float64)
		verifrt.Assert(isF && (bf == x || (bf != bf && x != x)), "converts-back-to-an-equal-go-value")
	case 1:
		x := verifrt.Float32()
		obj, back, rejected, panicked := c08FromTo(x)
		verifrt.Assert(!panicked, "conversion-never-panics")
		if panicked || rejected {
			return
		}
		f, ok := obj.(*Float)
		verifrt.Assert(ok && (f.value == float64(x) || x != x), "script-value-equals-go-value")
		bf, isF := back.(float32)
		verifrt.Assert(isF && (bf == x || x != x), "converts-back-to-an-equal-go-value")
	case 2:
		x := verifrt.Bool()
		obj, back, rejected, panicked := c08FromTo(x)
		verifrt.Assert(!panicked, "conversion-never-panics")
		if panicked || rejected {
			return
		}
		b, ok := obj.(*Bool)
		verifrt.Assert(ok && b.value == x, "script-value-equals-go-value")
		verifrt.Assert(back == any(x), "converts-back-to-an-equal-go-value")
	case 3:
		x := verifrt.String(verifrt.Choose(3))
		obj, back, rejected, panicked := c08FromTo(x)
		verifrt.Assert(!panicked, "conversion-never-panics")
		if panicked || rejected {
			return
		}
		s, ok := obj.(*String)
		verifrt.Assert(ok && s.value == x, "script-value-equals-go-value")
		bs, isS := back.(string)
		verifrt.Assert(isS && bs == x, "converts-back-to-an-equal-go-value")
	}
	verifrt.Reach("converted")
}

// HarnessC08NamedScalarTypes: named types such as time.Duration are converted
// faithfully or rejected with an error, never a panic.
func HarnessC08NamedScalarTypes() {
	var v any
	switch verifrt.Choose(7) {
	case 0:
		v = time.Duration(verifrt.Int64())
	case 1:
		v = c08Int64(verifrt.Int64())
	case 2:
		v = c08Int(verifrt.Int())
	case 3:
		v = c08String(verifrt.String(1))
	case 4:
		v = c08Bool(verifrt.Bool())
	case 5:
		v = c08Uint8(verifrt.Uint8())
	case 6:
		v = c08Float(1.5)
	}
	_, back, rejected, panicked := c08FromTo(v)
	verifrt.Reach("done")
	verifrt.Assert(!panicked, "named-type-conversion-never-panics")
	if !panicked && !rejected {
		verifrt.Assert(back == v, "named-type-converts-back-to-an-equal-go-value")
	}
}

// HarnessC08ScriptToGo: To returns exactly the script value in the target
// kind, or rejects it; it never hands Go a different number.
func HarnessC08ScriptToGo() {
	x := verifrt.Int64()
	obj := &Int{value: x}
	var r any
	var err error
	var got int64
	exact := true
	k := verifrt.Choose(11)
	switch k {
	case 0:
		r, err = (&Int8Converter{}).To(obj)
		if v, ok := r.(int8); ok {
			got = int64(v)
		}
	case 1:
		r, err = (&Int16Converter{}).To(obj)
		if v, ok := r.(int16); ok {
			got = int64(v)
		}
	case 2:
		r, err = (&Int32Converter{}).To(obj)
		if v, ok := r.(int32); ok {
			got = int64(v)
		}
	case 3:
		r, err = (&Int64Converter{}).To(obj)
		if v, ok := r.(int64); ok {
			got = v
		}
	case 4:
		r, err = (&IntConverter{}).To(obj)
		if v, ok := r.(int); ok {
			got = int64(v)
		}
	case 5:
		r, err = (&Uint8Converter{}).To(obj)
		if v, ok := r.(uint8); ok {
			got = int64(v)
		}
	case 6:
		r, err = (&Uint16Converter{}).To(obj)
		if v, ok := r.(uint16); ok {
			got = int64(v)
		}
	case 7:
		r, err = (&Uint32Converter{}).To(obj)
		if v, ok := r.(uint32); ok {
			got = int64(v)
		}
	case 8:
		r, err = (&Uint64Converter{}).To(obj)
		if v, ok := r.(uint64); ok {
			got, exact = int64(v), v <= 1<<63-1
		}
	case 9:
		r, err = (&UintConverter{}).To(obj)
		if v, ok := r.(uint); ok {
			got, exact = int64(v), uint64(v) <= 1<<63-1
		}
	case 10:
		r, err = (&ByteConverter{}).To(obj)
		if v, ok := r.(byte); ok {
			got = int64(v)
		}
	}
	if err == nil {
		verifrt.Reach("converted")
		verifrt.Assert(exact && got == x, "script-int-arrives-exactly-or-is-rejected")
	}
	// values that fit are never rejected
	if x >= 0 && x <= 127 {
		verifrt.Assert(err == nil, "value-that-fits-every-kind-is-accepted")
	}
	// wrongly typed objects are rejected, not converted
	_, err = (&Int64Converter{}).To(NewString("1"))
	verifrt.Assert(err != nil, "string-is-not-an-int")
	_, err = (&BoolConverter{}).To(obj)
	verifrt.Assert(err != nil, "int-is-not-a-bool")
	verifrt.Reach("done")
}

// HarnessC08FromGoType: dynamically typed data.
func HarnessC08FromGoType() {
	i := verifrt.Int64()
	u := verifrt.Uint32()
	s := verifrt.String(1)
	b := verifrt.Bool()
	obj := FromGoType(map[string]interface{}{"i": i, "l": []interface{}{u, s, b, nil}})
	m, ok := obj.(*Map)
	verifrt.Assert(ok, "map-becomes-map")
	if !ok {
		return
	}
	iv, isInt := m.Get("i").(*Int)
	verifrt.Assert(isInt && iv.value == i, "int-content")
	l, isList := m.Get("l").(*List)
	verifrt.Assert(isList && len(l.items) == 4, "list-content")
	if isList && len(l.items) == 4 {
		uv, ok1 := l.items[0].(*Int)
		sv, ok2 := l.items[1].(*String)
		bv, ok3 := l.items[2].(*Bool)
		verifrt.Assert(ok1 && uv.value == int64(u), "uint32-content")
		verifrt.Assert(ok2 && sv.value == s, "string-content")
		verifrt.Assert(ok3 && bv.value == b, "bool-content")
		verifrt.Assert(l.items[3] == Nil, "nil-content")
	}
	verifrt.Reach("done")
}
