//go:build verif

package object

import (
	"context"
	"unicode/utf8"

	"github.com/risor-io/risor/internal/verifrt"
)

// ---- map: arbitrary small state, one operation, reference model ----

type c16KV struct {
	k string
	v int64 // c16NilVal stands for a stored nil
}

// c16NilVal marks a stored nil in the model (the generator never produces it as an int)
const c16NilVal = int64(-0x7eadbeef)

func c16Obj(v int64) Object {
	if v == c16NilVal {
		return Nil
	}
	return &Int{value: v}
}

func c16ModelGet(model []c16KV, k string) (int64, bool) {
	for _, e := range model {
		if e.k == k {
			return e.v, true
		}
	}
	return 0, false
}

func c16ModelSet(model []c16KV, k string, v int64) []c16KV {
	for i := range model {
		if model[i].k == k {
			model[i].v = v
			return model
		}
	}
	return append(model, c16KV{k, v})
}

func c16ModelDel(model []c16KV, k string) []c16KV {
	for i := range model {
		if model[i].k == k {
			return append(append([]c16KV{}, model[:i]...), model[i+1:]...)
		}
	}
	return model
}

func c16MkMap(maxN int) (*Map, []c16KV) {
	n := verifrt.Choose(maxN + 1)
	m := NewMap(map[string]Object{})
	var model []c16KV
	for i := 0; i < n; i++ {
		k := verifrt.String(1)
		v := verifrt.Int64()
		verifrt.Assume(v != c16NilVal)
		if verifrt.Bool() {
			v = c16NilVal // maps can hold nil
		}
		m.Set(k, c16Obj(v))
		model = c16ModelSet(model, k, v)
	}
	return m, model
}

func c16SameMap(m *Map, model []c16KV) bool {
	if m.Size() != len(model) {
		return false
	}
	ok := true
	for _, e := range model {
		got, found := m.items[e.k]
		if !found {
			return false
		}
		if e.v == c16NilVal {
			if got != Object(Nil) {
				return false
			}
			continue
		}
		iv, isInt := got.(*Int)
		if !isInt {
			return false
		}
		ok = verifrt.And(ok, iv.value == e.v)
	}
	return ok
}

func c16Is(o Object, v int64) bool {
	if v == c16NilVal {
		return o == Object(Nil)
	}
	iv, isInt := o.(*Int)
	return isInt && iv.value == v
}

func HarnessC16MapOperations() {
	m, model := c16MkMap(2)
	k := verifrt.String(1)
	v := verifrt.Int64()
	verifrt.Assume(v != c16NilVal)
	mv, present := c16ModelGet(model, k)
	switch verifrt.Choose(10) {
	case 9: // the script-level get(key, default) method
		getAttr, ok := m.GetAttr("get")
		verifrt.Assert(ok, "map-has-a-get-method")
		if ok {
			got := getAttr.(*Builtin).Call(context.Background(), NewString(k), &Int{value: v})
			if present {
				verifrt.Reach("opt:get-method-present")
				verifrt.Assert(c16Is(got, mv), "get-returns-the-stored-value-also-when-it-is-nil")
			} else {
				verifrt.Assert(c16Is(got, v), "get-of-a-missing-key-returns-the-default")
			}
		}
	case 0: // get item
		got, err := m.GetItem(NewString(k))
		if present {
			verifrt.Reach("opt:get-present")
			verifrt.Assert(err == nil && c16Is(got, mv), "getitem-returns-stored-value")
		} else {
			verifrt.Assert(err != nil, "getitem-missing-key-is-an-error")
		}
		_, terr := m.GetItem(&Int{value: 0})
		verifrt.Assert(terr != nil, "getitem-int-key-rejected")
	case 1: // set item
		verifrt.Assert(m.SetItem(NewString(k), &Int{value: v}) == nil, "setitem-succeeds")
		model = c16ModelSet(model, k, v)
	case 2: // delete
		m.Delete(k)
		model = c16ModelDel(model, k)
	case 3: // pop with default
		got := m.Pop(k, &Int{value: v})
		if present {
			verifrt.Assert(c16Is(got, mv), "pop-returns-stored-value")
		} else {
			verifrt.Assert(c16Is(got, v), "pop-missing-returns-default")
		}
		model = c16ModelDel(model, k)
	case 4: // setdefault
		got := m.SetDefault(k, &Int{value: v})
		if present {
			verifrt.Assert(c16Is(got, mv), "setdefault-keeps-existing")
		} else {
			verifrt.Assert(c16Is(got, v), "setdefault-stores-default")
			model = c16ModelSet(model, k, v)
		}
	case 5: // update
		other, omodel := c16MkMap(2)
		m.Update(other)
		for _, e := range omodel {
			model = c16ModelSet(model, e.k, e.v)
		}
		verifrt.Assert(c16SameMap(other, omodel), "update-does-not-mutate-argument")
		// the receiver keeps a map of its own: writing to it afterwards does not
		// show in the argument
		m.Set(k, &Int{value: v})
		model = c16ModelSet(model, k, v)
		verifrt.Assert(c16SameMap(other, omodel), "update-does-not-alias-the-argument")
	case 6: // copy independence
		cp := m.Copy()
		verifrt.Assert(c16SameMap(cp, model), "copy-content")
		m.Set(k, &Int{value: v})
		verifrt.Assert(c16SameMap(cp, model), "copy-unaffected-by-mutating-original")
		model = c16ModelSet(model, k, v)
	case 7: // contains / len / truthiness / sorted keys
		verifrt.Assert(m.Contains(NewString(k)).value == present, "contains")
		verifrt.Assert(m.Len().value == int64(len(model)), "len")
		keys := m.Keys().items
		verifrt.Assert(len(keys) == len(model), "keys-length")
		for i := 0; i+1 < len(keys); i++ {
			verifrt.Assert(keys[i].(*String).value < keys[i+1].(*String).value, "keys-sorted-and-distinct")
		}
	case 8: // del item + clear
		verifrt.Assert(m.DelItem(NewString(k)) == nil, "delitem-succeeds")
		model = c16ModelDel(model, k)
		verifrt.Assert(c16SameMap(m, model), "delitem-content")
		m.Clear()
		model = nil
	}
	verifrt.Assert(c16SameMap(m, model), "content-equals-model")
	verifrt.Reach("done")
}

// ---- set ----

func c16MkSet(maxN int) (*Set, []int64) {
	n := verifrt.Choose(maxN + 1)
	s := NewSetWithSize(n)
	var model []int64
	for i := 0; i < n; i++ {
		v := verifrt.Int64()
		s.Add(&Int{value: v})
		if !c16Has(model, v) {
			model = append(model, v)
		}
	}
	return s, model
}

func c16Has(model []int64, v int64) bool {
	for _, x := range model {
		if x == v {
			return true
		}
	}
	return false
}

func c16SameSet(s *Set, model []int64) bool {
	if s.Size() != len(model) {
		return false
	}
	for _, v := range model {
		if !s.Contains(&Int{value: v}).value {
			return false
		}
	}
	return true
}

func HarnessC16SetOperations() {
	s, model := c16MkSet(2)
	other, omodel := c16MkSet(2)
	v := verifrt.Int64()
	switch verifrt.Choose(6) {
	case 0:
		s.Add(&Int{value: v})
		if !c16Has(model, v) {
			model = append(model, v)
		}
	case 1:
		s.Remove(&Int{value: v})
		var nm []int64
		for _, x := range model {
			if x != v {
				nm = append(nm, x)
			}
		}
		model = nm
	case 2:
		u := s.Union(other)
		var um []int64
		um = append(um, model...)
		for _, x := range omodel {
			if !c16Has(um, x) {
				um = append(um, x)
			}
		}
		verifrt.Assert(c16SameSet(u, um), "union-content")
		// the result is a set of its own: adding to it changes neither operand
		u.Add(&Int{value: v})
		u.Add(&Int{value: v + 1})
	case 3:
		in := s.Intersection(other)
		var im []int64
		for _, x := range model {
			if c16Has(omodel, x) {
				im = append(im, x)
			}
		}
		verifrt.Assert(c16SameSet(in, im), "intersection-content")
		in.Add(&Int{value: v})
		in.Add(&Int{value: v + 1})
	case 4:
		d := s.Difference(other)
		var dm []int64
		for _, x := range model {
			if !c16Has(omodel, x) {
				dm = append(dm, x)
			}
		}
		verifrt.Assert(c16SameSet(d, dm), "difference-content")
		d.Add(&Int{value: v})
		d.Add(&Int{value: v + 1})
	case 5:
		verifrt.Assert(s.Contains(&Int{value: v}).value == c16Has(model, v), "contains")
		verifrt.Assert(s.Len().value == int64(len(model)), "len")
	}
	verifrt.Assert(c16SameSet(s, model), "receiver-content-equals-model")
	verifrt.Assert(c16SameSet(other, omodel), "argument-not-mutated")
	verifrt.Reach("done")
}

// ---- string: indexing and slicing by code point ----

// c16Runes splits s into its code points using Go's utf8 package: each entry is
// the text of one code point (invalid bytes become U+FFFD, as in []rune(s)).
func c16Runes(s string) []string {
	var out []string
	for off := 0; off < len(s); {
		r, sz := utf8.DecodeRuneInString(s[off:])
		if r == utf8.RuneError && sz == 1 {
			out = append(out, "�")
		} else {
			out = append(out, s[off:off+sz])
		}
		off += sz
	}
	return out
}

func HarnessC16StringByCodePoint() {
	maxN := 3
	if verifrt.Thorough() {
		maxN = 4
	}
	n := verifrt.Choose(maxN + 1)
	s := verifrt.String(n)
	str := NewString(s)
	runes := c16Runes(s)
	verifrt.Assert(str.Len().value == int64(len(runes)), "len-counts-code-points")
	idx := verifrt.Int64()
	got, err := str.GetItem(&Int{value: idx})
	i, ok := c16Norm(idx, len(runes))
	if ok {
		verifrt.Reach("opt:in-range")
		verifrt.Assert(err == nil, "in-range-index-accepted")
		if err == nil {
			gs, isStr := got.(*String)
			verifrt.Assert(isStr && gs.value == runes[i], "index-returns-the-code-point")
		}
	} else {
		verifrt.Assert(err != nil, "out-of-range-index-rejected")
	}
	// slice [1:] drops exactly the first code point
	if len(runes) >= 2 {
		sl, serr := str.GetSlice(Slice{Start: &Int{value: 1}})
		verifrt.Assert(serr == nil, "slice-accepted")
		if serr == nil {
			want := ""
			for _, r := range runes[1:] {
				want += r
			}
			verifrt.Assert(sl.(*String).value == want, "slice-by-code-point")
		}
	}
	rev := str.Reversed()
	want := ""
	for k := len(runes) - 1; k >= 0; k-- {
		want += runes[k]
	}
	verifrt.Assert(rev.value == want, "reversed-by-code-point")
	verifrt.Assert(str.value == s, "reads-do-not-mutate")
	verifrt.Reach("done")
}
