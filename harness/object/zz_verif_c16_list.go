//go:build verif

package object

import (
	"context"

	"github.com/risor-io/risor/internal/verifrt"
	"github.com/risor-io/risor/op"
)

// ---- arbitrary valid list state: length 0..3, spare capacity 0..2, symbolic ints ----

func c16MkList(maxLen int) (*List, []int64) {
	n := verifrt.Choose(maxLen + 1)
	c := verifrt.Choose(3)
	items := make([]Object, n, n+c)
	model := make([]int64, n)
	for i := range items {
		v := verifrt.Int64()
		items[i] = &Int{value: v}
		model[i] = v
	}
	return NewList(items), model
}

// c16Same: list content equals the model (no forking on values).
func c16Same(items []Object, model []int64) bool {
	if len(items) != len(model) {
		return false
	}
	ok := true
	for i := range model {
		iv, isInt := items[i].(*Int)
		if !isInt {
			return false
		}
		ok = verifrt.And(ok, iv.value == model[i])
	}
	return ok
}

func c16Norm(idx int64, n int) (int, bool) {
	sz := int64(n)
	if idx >= sz || idx < -sz {
		return 0, false
	}
	if idx < 0 {
		idx += sz
	}
	return int(idx), true
}

func HarnessC16ListGetItem() {
	ls, model := c16MkList(3)
	idx := verifrt.Int64()
	before := append([]Object{}, ls.items...)
	got, err := ls.GetItem(&Int{value: idx})
	i, ok := c16Norm(idx, len(model))
	if ok {
		verifrt.Reach("in-range")
		verifrt.Assert(err == nil, "in-range-index-accepted")
		if err == nil {
			iv, isInt := got.(*Int)
			verifrt.Assert(isInt && iv.value == model[i], "returns-model-element")
		}
	} else {
		verifrt.Reach("out-of-range")
		verifrt.Assert(err != nil, "out-of-range-index-rejected")
	}
	verifrt.Assert(c16Same(ls.items, model), "read-does-not-mutate")
	verifrt.Assert(len(before) == len(ls.items), "read-keeps-length")
	// wrongly typed key
	_, err2 := ls.GetItem(NewString("0"))
	verifrt.Assert(err2 != nil, "string-key-rejected")
}

func HarnessC16ListSetItem() {
	ls, model := c16MkList(3)
	idx, v := verifrt.Int64(), verifrt.Int64()
	err := ls.SetItem(&Int{value: idx}, &Int{value: v})
	i, ok := c16Norm(idx, len(model))
	if ok {
		verifrt.Reach("in-range")
		verifrt.Assert(err == nil, "in-range-index-accepted")
		model[i] = v
	} else {
		verifrt.Reach("out-of-range")
		verifrt.Assert(err != nil, "out-of-range-index-rejected")
	}
	verifrt.Assert(c16Same(ls.items, model), "content-equals-model")
}

func c16ModelRemove(model []int64, i int) []int64 {
	out := make([]int64, 0, len(model))
	out = append(out, model[:i]...)
	return append(out, model[i+1:]...)
}

func HarnessC16ListPopDel() {
	ls, model := c16MkList(3)
	idx := verifrt.Int64()
	usePop := verifrt.Bool()
	i, ok := c16Norm(idx, len(model))
	var failed bool
	var popped Object
	if usePop {
		popped = ls.Pop(idx)
		failed = IsError(popped)
	} else {
		failed = ls.DelItem(&Int{value: idx}) != nil
	}
	if ok {
		verifrt.Reach("in-range")
		verifrt.Assert(!failed, "in-range-index-accepted")
		if usePop && !failed {
			iv, isInt := popped.(*Int)
			verifrt.Assert(isInt && iv.value == model[i], "pop-returns-removed-element")
		}
		model = c16ModelRemove(model, i)
	} else {
		verifrt.Reach("out-of-range")
		verifrt.Assert(failed, "out-of-range-index-rejected")
	}
	verifrt.Assert(c16Same(ls.items, model), "content-equals-model")
}

func HarnessC16ListInsert() {
	ls, model := c16MkList(3)
	idx, v := verifrt.Int64(), verifrt.Int64()
	ls.Insert(idx, &Int{value: v})
	n := int64(len(model))
	pos := idx
	if pos < 0 {
		pos += n
		if pos < 0 {
			pos = 0
		}
	}
	if pos > n {
		pos = n
	}
	p := int(pos)
	want := make([]int64, 0, len(model)+1)
	want = append(want, model[:p]...)
	want = append(want, v)
	want = append(want, model[p:]...)
	verifrt.Reach("done")
	verifrt.Assert(c16Same(ls.items, want), "content-equals-model")
}

func HarnessC16ListAppendExtend() {
	ls, model := c16MkList(3)
	other, omodel := c16MkList(2)
	v := verifrt.Int64()
	ls.Append(&Int{value: v})
	model = append(model, v)
	verifrt.Assert(c16Same(ls.items, model), "append-content")
	ls.Extend(other)
	model = append(model, omodel...)
	verifrt.Assert(c16Same(ls.items, model), "extend-content")
	verifrt.Assert(c16Same(other.items, omodel), "extend-does-not-mutate-argument")
	// later mutation of the extended list must not leak into the argument
	if len(ls.items) > 0 {
		ls.items[len(ls.items)-1] = &Int{value: 7}
		verifrt.Assert(c16Same(other.items, omodel), "extended-list-independent-of-argument")
	}
	verifrt.Reach("done")
}

func HarnessC16ListReverse() {
	ls, model := c16MkList(3)
	rev := ls.Reversed()
	want := make([]int64, len(model))
	for i := range model {
		want[len(model)-1-i] = model[i]
	}
	verifrt.Assert(c16Same(rev.items, want), "reversed-content")
	verifrt.Assert(c16Same(ls.items, model), "reversed-does-not-mutate")
	verifrt.Assert(!verifrt.SameBacking(rev.items, ls.items), "reversed-has-own-backing")
	ls.Reverse()
	verifrt.Assert(c16Same(ls.items, want), "reverse-in-place-content")
	verifrt.Assert(c16Same(rev.items, want), "reversed-copy-unaffected-by-reverse")
	verifrt.Reach("done")
}

func HarnessC16ListCopyIndependence() {
	ls, model := c16MkList(3)
	cp := ls.Copy()
	verifrt.Assert(c16Same(cp.items, model), "copy-content")
	verifrt.Assert(!verifrt.SameBacking(cp.items, ls.items), "copy-has-own-backing")
	// mutate the original in every way that re-slices in place
	idx, v := verifrt.Int64(), verifrt.Int64()
	switch verifrt.Choose(4) {
	case 0:
		ls.SetItem(&Int{value: idx}, &Int{value: v})
	case 1:
		ls.Pop(idx)
	case 2:
		ls.Insert(idx, &Int{value: v})
	case 3:
		ls.Append(&Int{value: v})
	}
	verifrt.Assert(c16Same(cp.items, model), "copy-unaffected-by-mutating-original")
	verifrt.Reach("done")
}

func c16OptInt(present bool, v int64) Object {
	if present {
		return &Int{value: v}
	}
	return nil
}

func HarnessC16ListGetSlice() {
	ls, model := c16MkList(3)
	hasStart, hasStop := verifrt.Bool(), verifrt.Bool()
	a, b := verifrt.Int64(), verifrt.Int64()
	got, err := ls.GetSlice(Slice{Start: c16OptInt(hasStart, a), Stop: c16OptInt(hasStop, b)})
	n := int64(len(model))
	start, stop := int64(0), n
	if hasStart {
		start = a
	}
	if hasStop {
		stop = b
	}
	// three-valued oracle (DESIGN §4.1)
	outside := start < -n || start > n || stop < -n || stop > n
	ns, ne := start, stop
	if ns < 0 {
		ns += n
	}
	if ne < 0 {
		ne += n
	}
	mustFail := outside || ns > ne
	mustHold := !outside && ns <= ne && ns < n
	if mustFail {
		verifrt.Reach("must-fail")
		verifrt.Assert(err != nil, "out-of-range-slice-rejected")
	}
	if mustHold {
		verifrt.Reach("must-hold")
		verifrt.Assert(err == nil, "valid-slice-accepted")
	}
	if err == nil {
		res, isList := got.(*List)
		verifrt.Assert(isList, "slice-returns-list")
		if isList && !outside && ns <= ne {
			verifrt.Assert(c16Same(res.items, model[ns:ne]), "slice-content")
			verifrt.Assert(!verifrt.SameBacking(res.items, ls.items), "slice-has-own-backing")
			// slices are independent of the original
			if len(ls.items) > 0 {
				ls.items[0] = &Int{value: 99}
				ls.Append(&Int{value: 98})
				verifrt.Assert(c16Same(res.items, model[ns:ne]), "slice-unaffected-by-mutating-original")
			}
		}
	}
	verifrt.Assert(err != nil || !outside, "accepted-slice-is-in-range")
}

func HarnessC16ListSearch() {
	ls, model := c16MkList(3)
	v := verifrt.Int64()
	probe := &Int{value: v}
	wantCount, wantIndex := int64(0), int64(-1)
	for i := len(model) - 1; i >= 0; i-- {
		if model[i] == v {
			wantCount++
			wantIndex = int64(i)
		}
	}
	verifrt.Assert(ls.Count(probe) == wantCount, "count")
	verifrt.Assert(ls.Index(probe) == wantIndex, "index-of-first")
	verifrt.Assert(ls.Contains(probe).value == (wantIndex >= 0), "contains")
	verifrt.Assert(c16Same(ls.items, model), "search-does-not-mutate")
	ls.Remove(probe)
	if wantIndex >= 0 {
		verifrt.Reach("present")
		model = c16ModelRemove(model, int(wantIndex))
	} else {
		verifrt.Reach("absent")
	}
	verifrt.Assert(c16Same(ls.items, model), "remove-first-occurrence")
}

func HarnessC16ListConcatLenKeys() {
	ls, model := c16MkList(3)
	other, omodel := c16MkList(2)
	sum := ls.RunOperation(op.Add, other)
	res, isList := sum.(*List)
	verifrt.Assert(isList, "concat-returns-list")
	if isList {
		want := append(append([]int64{}, model...), omodel...)
		verifrt.Assert(c16Same(res.items, want), "concat-content")
		verifrt.Assert(!verifrt.SameBacking(res.items, ls.items) && !verifrt.SameBacking(res.items, other.items), "concat-has-own-backing")
	}
	verifrt.Assert(c16Same(ls.items, model) && c16Same(other.items, omodel), "concat-does-not-mutate")
	verifrt.Assert(ls.Len().value == int64(len(model)), "len")
	verifrt.Assert(ls.IsTruthy() == (len(model) != 0), "truthy-iff-nonempty")
	keys, _ := ls.Keys().(*List)
	verifrt.Assert(keys != nil && len(keys.items) == len(model), "keys-length")
	ls.Clear()
	verifrt.Assert(len(ls.items) == 0, "clear-empties")
	verifrt.Reach("done")
}

// callbacks of map: the (index, value) pairs the callback holds after the loop
// equal (i, items[i]).
func HarnessC16ListMapCallbackArgs() {
	ls, model := c16MkList(3)
	var gotIdx, gotVal []Object
	call := func(ctx context.Context, fn *Function, args []Object) (Object, error) {
		if len(args) == 2 {
			gotIdx = append(gotIdx, args[0])
			gotVal = append(gotVal, args[1])
		}
		return Nil, nil
	}
	ctx := WithCallFunc(context.Background(), call)
	fn := &Function{parameters: []string{"i", "x"}}
	res := ls.Map(ctx, fn)
	verifrt.Assert(!IsError(res), "map-succeeds")
	verifrt.Assert(len(gotIdx) == len(model), "callback-called-once-per-item")
	for i := range gotIdx {
		iv, isInt := gotIdx[i].(*Int)
		verifrt.Assert(isInt && iv.value == int64(i), "callback-index-stable-after-loop")
	}
	verifrt.Assert(c16Same(gotVal, model), "callback-values-in-order")
	verifrt.Assert(c16Same(ls.items, model), "map-does-not-mutate")
	verifrt.Reach("done")
}

// HarnessC16ListCallbacksWithBuiltins: map, filter and each accept a builtin as
// the callback just as a script function: no panic, the builtin sees every item
// once and in order, filter keeps exactly the items it approves of, and the
// list itself is not changed.
func HarnessC16ListCallbacksWithBuiltins() {
	ls, model := c16MkList(3)
	var seen []Object
	pos := &Builtin{name: "positive", fn: func(ctx context.Context, args ...Object) Object {
		if len(args) == 1 {
			seen = append(seen, args[0])
			if iv, ok := args[0].(*Int); ok {
				return NewBool(iv.value > 0)
			}
		}
		return False
	}}
	call := func(ctx context.Context, fn *Function, args []Object) (Object, error) { return Nil, nil }
	ctx := WithCallFunc(context.Background(), call)
	var res Object
	which := verifrt.Choose(3)
	panicked := func() (p bool) {
		defer func() {
			if r := recover(); r != nil {
				p = true
			}
		}()
		switch which {
		case 0:
			res = ls.Filter(ctx, pos)
		case 1:
			res = ls.Each(ctx, pos)
		case 2:
			res = ls.Map(ctx, pos)
		}
		return false
	}()
	verifrt.Assert(!panicked, "list-callback-with-a-builtin-never-panics")
	if panicked {
		return
	}
	verifrt.Reach("called")
	verifrt.Assert(!IsError(res), "list-callback-with-a-builtin-succeeds")
	verifrt.Assert(c16Same(seen, model), "builtin-callback-sees-every-item-in-order")
	verifrt.Assert(c16Same(ls.items, model), "callback-methods-do-not-mutate")
	if which == 0 {
		if out, ok := res.(*List); ok {
			var want []Object
			for _, it := range ls.items {
				if iv, isInt := it.(*Int); isInt && iv.value > 0 {
					want = append(want, it)
				}
			}
			verifrt.Assert(len(out.items) == len(want), "filter-keeps-exactly-the-approved-items")
		}
	}
}
