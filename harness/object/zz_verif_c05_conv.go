//go:build verif

package object

import (
	"reflect"

	"github.com/risor-io/risor/internal/verifrt"
)

type c05Limits struct {
	A int8
	B int8
	C string
}

// HarnessC05ConversionErrorsUnderEveryMapOrder: a script map with several
// values that do not fit the Go type it is converted to (a map[string]int8
// parameter, a struct built from a map) is rejected with the same error under
// every Go-map iteration order.
func HarnessC05ConversionErrorsUnderEveryMapOrder() {
	m := NewMap(map[string]Object{})
	var conv TypeConverter
	var err error
	switch verifrt.Choose(2) {
	case 0:
		conv, err = NewTypeConverter(reflect.TypeOf(map[string]int8{}))
		k1, k2, k3 := verifrt.String(1), verifrt.String(1), verifrt.String(1)
		for _, k := range []string{k1, k2, k3} {
			verifrt.Assume(len(k) == 1 && k[0] >= 'a' && k[0] <= 'z')
		}
		verifrt.Assume(k1 != k2 && k2 != k3 && k1 != k3)
		m.Set(k1, NewInt(300))
		m.Set(k2, NewString("x"))
		m.Set(k3, NewInt(1))
	case 1:
		conv, err = NewTypeConverter(reflect.TypeOf(c05Limits{}))
		m.Set("A", NewInt(300))
		m.Set("B", NewString("x"))
		m.Set("C", NewInt(1))
	}
	verifrt.Assert(err == nil, "converter-exists")
	if err != nil {
		return
	}
	_, e1 := conv.To(m)
	verifrt.MapOrderAll(true)
	_, e2 := conv.To(m)
	verifrt.MapOrderAll(false)
	verifrt.Assert(e1 != nil && e2 != nil, "unconvertible-map-is-rejected")
	if e1 == nil || e2 == nil {
		return
	}
	verifrt.Reach("compared")
	verifrt.Assert(e1.Error() == e2.Error(), "conversion-error-independent-of-map-iteration-order")
}
