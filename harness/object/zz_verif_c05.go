//go:build verif

package object

import (
	"github.com/risor-io/risor/internal/verifrt"
)

func sameObjs(a, b []Object) bool {
	if len(a) != len(b) {
		return false
	}
	for i := range a {
		if a[i] != b[i] {
			return false
		}
	}
	return true
}

// HarnessC05MapIterationOrder: keys, values, items and the printed form of a
// map do not depend on Go's map iteration order.
func HarnessC05MapIterationOrder() {
	n := 2 + verifrt.Choose(2)
	m := NewMap(map[string]Object{})
	for i := 0; i < n; i++ {
		k := verifrt.String(1)
		m.Set(k, &Int{value: int64(i)})
	}
	keys1, vals1, ins1 := m.Keys().items, m.Values().items, m.Inspect()
	items1 := m.ListItems().items
	verifrt.MapOrderAll(true)
	keys2, vals2, ins2 := m.Keys().items, m.Values().items, m.Inspect()
	items2 := m.ListItems().items
	verifrt.MapOrderAll(false)
	same := len(keys1) == len(keys2)
	if same {
		for i := range keys1 {
			same = verifrt.And(same, verifrt.EqString(keys1[i].(*String).value, keys2[i].(*String).value))
		}
	}
	verifrt.Assert(same, "keys-order-independent")
	verifrt.Assert(sameObjs(vals1, vals2), "values-order-independent")
	verifrt.Assert(verifrt.EqString(ins1, ins2), "printed-form-order-independent")
	verifrt.Assert(len(items1) == len(items2), "items-length")
	// keys are sorted
	for i := 0; i+1 < len(keys2); i++ {
		verifrt.Assert(keys2[i].(*String).value < keys2[i+1].(*String).value, "keys-sorted")
	}
	verifrt.Reach("done")
}

func c05SetElem(kind int) Object {
	switch kind {
	case 0:
		return &Int{value: verifrt.Int64()}
	case 1:
		return NewString(verifrt.String(1))
	case 2:
		return NewBool(verifrt.Bool())
	}
	return NewFloat(verifrt.Float64())
}

func c05SetOrder(kinds int) {
	n := 2 + verifrt.Choose(2)
	if kinds == 4 && !verifrt.Thorough() {
		n = 2 // with floats: two elements in the quick tier (hashing a float decides integrality in the FP solver)
	}
	s := NewSetWithSize(n)
	for i := 0; i < n; i++ {
		s.Add(c05SetElem(verifrt.Choose(kinds)))
	}
	first := s.SortedItems()
	verifrt.MapOrderAll(true)
	second := s.SortedItems()
	verifrt.MapOrderAll(false)
	verifrt.Reach("compared")
	same := len(first) == len(second)
	if same {
		for i := range first {
			// observable identity: same hash key (two NaNs print the same)
			h1, h2 := first[i].(Hashable).HashKey(), second[i].(Hashable).HashKey()
			eq := verifrt.And(verifrt.And(h1.Type == h2.Type, h1.IntValue == h2.IntValue), verifrt.EqString(h1.StrValue, h2.StrValue))
			fl := verifrt.Or(h1.FltValue == h2.FltValue, verifrt.And(h1.FltValue != h1.FltValue, h2.FltValue != h2.FltValue))
			same = verifrt.And(same, verifrt.And(eq, fl))
		}
	}
	verifrt.Assert(same, "set-order-independent-of-map-iteration")
}

func HarnessC05SetIterationOrder()   { c05SetOrder(3) }
func HarnessC05SetIterationOrderFP() { c05SetOrder(4) }

// HarnessC05GoViewsOfContainers: the Go values that a host (or a codec, or a
// %v in an error message) obtains from a set or a map — Interface(), the list
// form of a set — do not depend on Go-map iteration order.
func HarnessC05GoViewsOfContainers() {
	n := 2
	if verifrt.Thorough() {
		n = 2 + verifrt.Choose(2)
	}
	s := NewSetWithSize(n)
	m := NewMap(map[string]Object{})
	for i := 0; i < n; i++ {
		v := verifrt.Int64()
		s.Add(&Int{value: v})
		m.Set(verifrt.String(1), &Int{value: v})
	}
	render := func() []int64 {
		var out []int64
		if items, ok := s.Interface().([]interface{}); ok {
			for _, it := range items {
				if iv, isInt := it.(int64); isInt {
					out = append(out, iv)
				}
			}
		}
		out = append(out, -1)
		for _, it := range s.List().items {
			if iv, isInt := it.(*Int); isInt {
				out = append(out, iv.value)
			}
		}
		out = append(out, -2)
		for _, it := range m.Values().items {
			if iv, isInt := it.(*Int); isInt {
				out = append(out, iv.value)
			}
		}
		out = append(out, -3)
		for _, it := range m.ListItems().items {
			if pair, isL := it.(*List); isL && len(pair.items) == 2 {
				if iv, isInt := pair.items[1].(*Int); isInt {
					out = append(out, iv.value)
				}
			}
		}
		return out
	}
	first := render()
	verifrt.MapOrderAll(true)
	second := render()
	verifrt.MapOrderAll(false)
	verifrt.Reach("compared")
	same := len(first) == len(second)
	if same {
		for i := range first {
			same = verifrt.And(same, first[i] == second[i])
		}
	}
	verifrt.Assert(same, "go-view-of-a-container-independent-of-map-iteration-order")
}

// HarnessC05GlobalsConversionError: when several of the values a host hands
// over as globals cannot be converted, the error does not depend on Go-map
// iteration order.
func HarnessC05GlobalsConversionError() {
	bad := map[string]any{"zeta": make(chan int), "alpha": func() {}, "mid": 1, "omega": struct{ C chan int }{}}
	_, err1 := AsObjects(bad)
	verifrt.MapOrderAll(true)
	_, err2 := AsObjects(bad)
	verifrt.MapOrderAll(false)
	verifrt.Assert(err1 != nil && err2 != nil, "unconvertible-globals-are-rejected")
	if err1 == nil || err2 == nil {
		return
	}
	verifrt.Reach("compared")
	verifrt.Assert(err1.Error() == err2.Error(), "conversion-error-independent-of-map-iteration-order")
}
