//go:build verif

package object

import (
	"context"
	"strings"

	"github.com/risor-io/risor/internal/verifrt"
)

func c19Method(s *String, name string, args ...Object) (res Object, found, panicked bool) {
	defer func() {
		if r := recover(); r != nil {
			panicked = true
		}
	}()
	attr, ok := s.GetAttr(name)
	if !ok {
		return nil, false, false
	}
	b, isB := attr.(*Builtin)
	if !isB {
		return nil, false, false
	}
	return b.Call(context.Background(), args...), true, false
}

func c19IsStr(o Object, want string) bool {
	s, ok := o.(*String)
	return ok && s.value == want
}

func c19IsInt(o Object, want int) bool {
	i, ok := o.(*Int)
	return ok && i.value == int64(want)
}

func c19IsBool(o Object, want bool) bool {
	b, ok := o.(*Bool)
	return ok && b.value == want
}

func c19IsStrList(o Object, want []string) bool {
	l, ok := o.(*List)
	if !ok || len(l.items) != len(want) {
		return false
	}
	for i := range want {
		if !c19IsStr(l.items[i], want[i]) {
			return false
		}
	}
	return true
}

// HarnessC19StringMethods: every method of the string type that wraps a
// function of Go's strings package returns what that function returns.
func HarnessC19StringMethods() {
	maxA := 2
	if verifrt.Thorough() {
		maxA = 3
	}
	a := verifrt.String(verifrt.Choose(maxA + 1))
	b := verifrt.String(verifrt.Choose(3))
	S, B := NewString(a), NewString(b)
	var r Object
	var found, p bool
	name := ""
	switch verifrt.Choose(16) {
	case 0:
		name = "contains"
		r, found, p = c19Method(S, name, B)
		verifrt.Assert(p || c19IsBool(r, strings.Contains(a, b)), "agrees-with-go:"+name)
	case 1:
		name = "has_prefix"
		r, found, p = c19Method(S, name, B)
		verifrt.Assert(p || c19IsBool(r, strings.HasPrefix(a, b)), "agrees-with-go:"+name)
	case 2:
		name = "has_suffix"
		r, found, p = c19Method(S, name, B)
		verifrt.Assert(p || c19IsBool(r, strings.HasSuffix(a, b)), "agrees-with-go:"+name)
	case 3:
		name = "count"
		r, found, p = c19Method(S, name, B)
		verifrt.Assert(p || c19IsInt(r, strings.Count(a, b)), "agrees-with-go:"+name)
	case 4:
		name = "join"
		c := verifrt.String(1)
		r, found, p = c19Method(S, name, NewList([]Object{B, NewString(c), NewString("z")}))
		verifrt.Assert(p || c19IsStr(r, strings.Join([]string{b, c, "z"}, a)), "agrees-with-go:"+name)
	case 5:
		name = "split"
		r, found, p = c19Method(S, name, B)
		verifrt.Assert(p || c19IsStrList(r, strings.Split(a, b)), "agrees-with-go:"+name)
	case 6:
		name = "fields"
		r, found, p = c19Method(S, name)
		verifrt.Assert(p || c19IsStrList(r, strings.Fields(a)), "agrees-with-go:"+name)
	case 7:
		name = "index"
		r, found, p = c19Method(S, name, B)
		verifrt.Assert(p || c19IsInt(r, strings.Index(a, b)), "agrees-with-go:"+name)
	case 8:
		name = "last_index"
		r, found, p = c19Method(S, name, B)
		verifrt.Assert(p || c19IsInt(r, strings.LastIndex(a, b)), "agrees-with-go:"+name)
	case 9:
		name = "replace_all"
		c := verifrt.String(verifrt.Choose(2))
		r, found, p = c19Method(S, name, B, NewString(c))
		verifrt.Assert(p || c19IsStr(r, strings.ReplaceAll(a, b, c)), "agrees-with-go:"+name)
	case 10:
		name = "to_lower"
		r, found, p = c19Method(S, name)
		verifrt.Assert(p || c19IsStr(r, strings.ToLower(a)), "agrees-with-go:"+name)
	case 11:
		name = "to_upper"
		r, found, p = c19Method(S, name)
		verifrt.Assert(p || c19IsStr(r, strings.ToUpper(a)), "agrees-with-go:"+name)
	case 12:
		name = "trim"
		r, found, p = c19Method(S, name, B)
		verifrt.Assert(p || c19IsStr(r, strings.Trim(a, b)), "agrees-with-go:"+name)
	case 13:
		name = "trim_prefix"
		r, found, p = c19Method(S, name, B)
		verifrt.Assert(p || c19IsStr(r, strings.TrimPrefix(a, b)), "agrees-with-go:"+name)
	case 14:
		name = "trim_suffix"
		r, found, p = c19Method(S, name, B)
		verifrt.Assert(p || c19IsStr(r, strings.TrimSuffix(a, b)), "agrees-with-go:"+name)
	case 15:
		name = "trim_space"
		r, found, p = c19Method(S, name)
		verifrt.Assert(p || c19IsStr(r, strings.TrimSpace(a)), "agrees-with-go:"+name)
	}
	verifrt.Assert(found && !p, "method-exists-and-never-panics:"+name)
	// wrong arity is an error
	r2, _, p2 := c19Method(S, "index")
	_, isErr := r2.(*Error)
	verifrt.Assert(!p2 && isErr, "wrong-arity-is-an-error")
	verifrt.Reach("done")
}
