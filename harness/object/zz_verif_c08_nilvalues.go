//go:build verif

package object

import (
	"reflect"

	"github.com/risor-io/risor/internal/verifrt"
)

// HarnessC08MapsWithNilValues: a Go map whose values include nil (a nil
// pointer, a nil interface) reaches the script with every key, the nil values
// as nil; slices likewise keep their nil elements in place.
func HarnessC08MapsWithNilValues() {
	x := verifrt.Int64()
	xi := int(x)
	var v any
	which := verifrt.Choose(4)
	switch which {
	case 0:
		v = map[string]*int{"a": nil, "b": &xi}
	case 1:
		v = map[string]any{"a": nil, "b": x}
	case 2:
		v = []*int{nil, &xi, nil}
	case 3:
		v = []any{nil, x}
	}
	conv, err := NewTypeConverter(reflect.TypeOf(v))
	verifrt.Assert(err == nil, "converter-exists")
	if err != nil {
		return
	}
	var obj Object
	panicked := false
	func() {
		defer func() {
			if r := recover(); r != nil {
				panicked = true
			}
		}()
		obj, err = conv.From(v)
	}()
	verifrt.Assert(!panicked, "conversion-never-panics")
	if panicked || err != nil {
		return
	}
	verifrt.Reach("converted")
	switch which {
	case 0, 1:
		m, ok := obj.(*Map)
		verifrt.Assert(ok && m.Size() == 2, "map-keeps-every-key")
		if ok && m.Size() == 2 {
			verifrt.Assert(m.Get("a") == Object(Nil), "nil-value-arrives-as-nil")
			iv, isInt := m.Get("b").(*Int)
			verifrt.Assert(isInt && iv.value == x, "value-next-to-a-nil-arrives-unchanged")
		}
	case 2:
		l, ok := obj.(*List)
		verifrt.Assert(ok && len(l.items) == 3, "slice-keeps-every-element")
		if ok && len(l.items) == 3 {
			verifrt.Assert(l.items[0] == Object(Nil) && l.items[2] == Object(Nil), "nil-value-arrives-as-nil")
			iv, isInt := l.items[1].(*Int)
			verifrt.Assert(isInt && iv.value == x, "value-next-to-a-nil-arrives-unchanged")
		}
	case 3:
		l, ok := obj.(*List)
		verifrt.Assert(ok && len(l.items) == 2, "slice-keeps-every-element")
		if ok && len(l.items) == 2 {
			verifrt.Assert(l.items[0] == Object(Nil), "nil-value-arrives-as-nil")
			iv, isInt := l.items[1].(*Int)
			verifrt.Assert(isInt && iv.value == x, "value-next-to-a-nil-arrives-unchanged")
		}
	}
}
