//go:build verif

package object

import (
	"context"
	"errors"
	"reflect"

	"github.com/risor-io/risor/internal/verifrt"
)

// Composite Go values across the boundary: slices, arrays, string-keyed maps,
// pointers and their nestings to depth 3, with symbolic leaves (C08). The
// converters work on reflect.Value; the engine runs them through its
// reflect.Value model (DESIGN §10.4).

func c08ListInts(obj Object) ([]int64, bool) {
	l, ok := obj.(*List)
	if !ok {
		return nil, false
	}
	out := make([]int64, len(l.items))
	for i, it := range l.items {
		v, isInt := c08IntContent(it)
		if !isInt {
			return nil, false
		}
		out[i] = v
	}
	return out, true
}

func c08EqInts(a []int64, b []int64) bool {
	if len(a) != len(b) {
		return false
	}
	for i := range a {
		if a[i] != b[i] {
			return false
		}
	}
	return true
}

// HarnessC08SlicesOfScalars: []T for several element kinds, lengths 0..3, nil.
func HarnessC08SlicesOfScalars() {
	n := verifrt.Choose(4)
	var v any
	var want []int64
	kind := verifrt.Choose(5)
	switch kind {
	case 0:
		s := make([]int, n)
		for i := range s {
			s[i] = verifrt.Int()
			want = append(want, int64(s[i]))
		}
		v = s
	case 1:
		s := make([]int64, n)
		for i := range s {
			s[i] = verifrt.Int64()
			want = append(want, s[i])
		}
		v = s
	case 2:
		s := make([]int16, n)
		for i := range s {
			s[i] = verifrt.Int16()
			want = append(want, int64(s[i]))
		}
		v = s
	case 3:
		s := make([]uint32, n)
		for i := range s {
			s[i] = verifrt.Uint32()
			want = append(want, int64(s[i]))
		}
		v = s
	case 4:
		var s []int // nil slice
		v = s
	}
	obj, back, rejected, panicked := c08FromTo(v)
	verifrt.Assert(!panicked, "slice-conversion-never-panics")
	if panicked || rejected {
		return
	}
	verifrt.Reach("converted")
	got, ok := c08ListInts(obj)
	verifrt.Assert(ok && c08EqInts(got, want), "list-items-equal-slice-elements")
	switch kind {
	case 0, 4:
		b, isT := back.([]int)
		verifrt.Assert(isT && len(b) == len(want), "slice-converts-back-with-its-type")
		for i := range b {
			verifrt.Assert(int64(b[i]) == want[i], "slice-converts-back-to-equal-elements")
		}
	case 1:
		b, isT := back.([]int64)
		verifrt.Assert(isT && len(b) == len(want), "slice-converts-back-with-its-type")
		for i := range b {
			verifrt.Assert(b[i] == want[i], "slice-converts-back-to-equal-elements")
		}
	case 2:
		b, isT := back.([]int16)
		verifrt.Assert(isT && len(b) == len(want), "slice-converts-back-with-its-type")
		for i := range b {
			verifrt.Assert(int64(b[i]) == want[i], "slice-converts-back-to-equal-elements")
		}
	case 3:
		b, isT := back.([]uint32)
		verifrt.Assert(isT && len(b) == len(want), "slice-converts-back-with-its-type")
		for i := range b {
			verifrt.Assert(int64(b[i]) == want[i], "slice-converts-back-to-equal-elements")
		}
	}
}

// HarnessC08SlicesOfStringsAndBools
func HarnessC08SlicesOfStringsAndBools() {
	n := verifrt.Choose(3)
	if verifrt.Choose(2) == 0 {
		s := make([]string, n)
		for i := range s {
			s[i] = verifrt.String(1)
		}
		obj, back, rejected, panicked := c08FromTo(s)
		verifrt.Assert(!panicked, "slice-conversion-never-panics")
		if panicked || rejected {
			return
		}
		verifrt.Reach("converted-strings")
		l, ok := obj.(*List)
		verifrt.Assert(ok && len(l.items) == n, "list-items-equal-slice-elements")
		if ok && len(l.items) == n {
			for i := range s {
				sv, isS := l.items[i].(*String)
				verifrt.Assert(isS && sv.value == s[i], "list-items-equal-slice-elements")
			}
		}
		b, isT := back.([]string)
		verifrt.Assert(isT && len(b) == n, "slice-converts-back-with-its-type")
		for i := range b {
			verifrt.Assert(b[i] == s[i], "slice-converts-back-to-equal-elements")
		}
		return
	}
	s := make([]bool, n)
	for i := range s {
		s[i] = verifrt.Bool()
	}
	obj, back, rejected, panicked := c08FromTo(s)
	verifrt.Assert(!panicked, "slice-conversion-never-panics")
	if panicked || rejected {
		return
	}
	verifrt.Reach("converted-bools")
	l, ok := obj.(*List)
	verifrt.Assert(ok && len(l.items) == n, "list-items-equal-slice-elements")
	if ok && len(l.items) == n {
		for i := range s {
			bv, isB := l.items[i].(*Bool)
			verifrt.Assert(isB && bv.value == s[i], "list-items-equal-slice-elements")
		}
	}
	b, isT := back.([]bool)
	verifrt.Assert(isT && len(b) == n, "slice-converts-back-with-its-type")
	for i := range b {
		verifrt.Assert(b[i] == s[i], "slice-converts-back-to-equal-elements")
	}
}

// HarnessC08Arrays: [N]T round trip, and lists of the wrong length handed to
// an array converter are rejected, not a panic.
func HarnessC08Arrays() {
	a := [3]int{verifrt.Int(), verifrt.Int(), verifrt.Int()}
	obj, back, rejected, panicked := c08FromTo(a)
	verifrt.Assert(!panicked, "array-conversion-never-panics")
	if panicked || rejected {
		return
	}
	verifrt.Reach("converted")
	got, ok := c08ListInts(obj)
	verifrt.Assert(ok && c08EqInts(got, []int64{int64(a[0]), int64(a[1]), int64(a[2])}), "list-items-equal-array-elements")
	b, isT := back.([3]int)
	verifrt.Assert(isT && b == a, "array-converts-back-to-an-equal-array")

	// a script list of a different length
	conv, err := NewTypeConverter(reflect.TypeOf([2]int{}))
	if err != nil {
		return
	}
	n := verifrt.Choose(5)
	items := make([]Object, n)
	for i := range items {
		items[i] = NewInt(verifrt.Int64())
	}
	var r any
	var toErr error
	p := c08Catch(func() { r, toErr = conv.To(NewList(items)) })
	verifrt.Assert(!p, "array-from-list-of-any-length-never-panics")
	if !p && toErr == nil {
		arr, isArr := r.([2]int)
		verifrt.Assert(isArr, "array-converter-yields-the-array-type")
		if isArr && n == 2 {
			verifrt.Assert(int64(arr[0]) == items[0].(*Int).value && int64(arr[1]) == items[1].(*Int).value, "array-elements-equal-list-items")
		}
		if n > 2 {
			verifrt.Fail("list-longer-than-the-array-is-rejected")
		}
	}
}

func c08Catch(f func()) (panicked bool) {
	defer func() {
		if r := recover(); r != nil {
			panicked = true
		}
	}()
	f()
	return false
}

// HarnessC08StringKeyedMaps: map[string]T
func HarnessC08StringKeyedMaps() {
	verifrt.MapOrderAll(true)
	k1 := verifrt.String(1)
	m := map[string]int{"a": verifrt.Int(), "bb": verifrt.Int()}
	m[k1] = verifrt.Int()
	obj, back, rejected, panicked := c08FromTo(m)
	verifrt.Assert(!panicked, "map-conversion-never-panics")
	if panicked || rejected {
		return
	}
	verifrt.Reach("converted")
	om, ok := obj.(*Map)
	verifrt.Assert(ok && om.Size() == len(m), "map-has-the-same-keys")
	if ok {
		for k, v := range m {
			iv, isInt := om.Get(k).(*Int)
			verifrt.Assert(isInt && iv.value == int64(v), "map-values-equal")
		}
	}
	b, isT := back.(map[string]int)
	verifrt.Assert(isT && len(b) == len(m), "map-converts-back-with-its-type")
	if isT {
		for k, v := range m {
			bv, found := b[k]
			verifrt.Assert(found && bv == v, "map-converts-back-to-equal-entries")
		}
	}
	// nil map
	var nm map[string]string
	_, _, _, p2 := c08FromTo(nm)
	verifrt.Assert(!p2, "nil-map-conversion-never-panics")
}

// HarnessC08Pointers: *T for scalar T, nil pointers, pointer identity is not
// required but the pointee must be equal.
func HarnessC08Pointers() {
	switch verifrt.Choose(4) {
	case 0:
		x := verifrt.Int()
		obj, back, rejected, panicked := c08FromTo(&x)
		verifrt.Assert(!panicked, "pointer-conversion-never-panics")
		if panicked || rejected {
			return
		}
		verifrt.Reach("converted-int-pointer")
		got, ok := c08IntContent(obj)
		verifrt.Assert(ok && got == int64(x), "pointee-content-equal")
		b, isT := back.(*int)
		verifrt.Assert(isT && b != nil && *b == x, "pointer-converts-back-to-equal-pointee")
	case 1:
		s := verifrt.String(2)
		obj, back, rejected, panicked := c08FromTo(&s)
		verifrt.Assert(!panicked, "pointer-conversion-never-panics")
		if panicked || rejected {
			return
		}
		verifrt.Reach("converted-string-pointer")
		sv, ok := obj.(*String)
		verifrt.Assert(ok && sv.value == s, "pointee-content-equal")
		b, isT := back.(*string)
		verifrt.Assert(isT && b != nil && *b == s, "pointer-converts-back-to-equal-pointee")
	case 2:
		var p *int
		obj, back, rejected, panicked := c08FromTo(p)
		verifrt.Assert(!panicked, "nil-pointer-conversion-never-panics")
		if panicked || rejected {
			return
		}
		verifrt.Reach("converted-nil-pointer")
		verifrt.Assert(obj == Nil, "nil-pointer-is-nil-in-the-script")
		verifrt.Assert(back == nil || back == any((*int)(nil)), "nil-converts-back-to-nil")
	case 3:
		// a pointer to a zero value is not a nil pointer
		x := 0
		obj, _, rejected, panicked := c08FromTo(&x)
		verifrt.Assert(!panicked, "pointer-conversion-never-panics")
		if panicked || rejected {
			return
		}
		verifrt.Reach("converted-pointer-to-zero")
		got, ok := c08IntContent(obj)
		verifrt.Assert(ok && got == 0, "pointer-to-zero-is-zero-not-nil")
	}
}

// HarnessC08Nested: depth 2 and 3 nestings.
func HarnessC08Nested() {
	a, b, c := verifrt.Int(), verifrt.Int(), verifrt.Int()
	switch verifrt.Choose(6) {
	case 0: // [][]int
		v := [][]int{{a, b}, {}, {c}}
		obj, back, rejected, panicked := c08FromTo(v)
		verifrt.Assert(!panicked, "nested-conversion-never-panics")
		if panicked || rejected {
			return
		}
		verifrt.Reach("slice-of-slices")
		l, ok := obj.(*List)
		verifrt.Assert(ok && len(l.items) == 3, "outer-list-length")
		if ok && len(l.items) == 3 {
			i0, ok0 := c08ListInts(l.items[0])
			i1, ok1 := c08ListInts(l.items[1])
			i2, ok2 := c08ListInts(l.items[2])
			verifrt.Assert(ok0 && ok1 && ok2 && c08EqInts(i0, []int64{int64(a), int64(b)}) && len(i1) == 0 && c08EqInts(i2, []int64{int64(c)}), "inner-lists-equal")
		}
		bb, isT := back.([][]int)
		verifrt.Assert(isT && len(bb) == 3 && len(bb[0]) == 2 && bb[0][0] == a && bb[0][1] == b && len(bb[1]) == 0 && len(bb[2]) == 1 && bb[2][0] == c, "nested-slices-convert-back-equal")
	case 1: // map[string][]int
		v := map[string][]int{"k": {a, b}}
		obj, back, rejected, panicked := c08FromTo(v)
		verifrt.Assert(!panicked, "nested-conversion-never-panics")
		if panicked || rejected {
			return
		}
		verifrt.Reach("map-of-slices")
		om, ok := obj.(*Map)
		verifrt.Assert(ok && om.Size() == 1, "map-has-the-same-keys")
		if ok {
			in, okIn := c08ListInts(om.Get("k"))
			verifrt.Assert(okIn && c08EqInts(in, []int64{int64(a), int64(b)}), "inner-lists-equal")
		}
		bb, isT := back.(map[string][]int)
		verifrt.Assert(isT && len(bb) == 1 && len(bb["k"]) == 2 && bb["k"][0] == a && bb["k"][1] == b, "nested-map-converts-back-equal")
	case 2: // []map[string]int
		v := []map[string]int{{"x": a}, {"y": b, "z": c}}
		obj, back, rejected, panicked := c08FromTo(v)
		verifrt.Assert(!panicked, "nested-conversion-never-panics")
		if panicked || rejected {
			return
		}
		verifrt.Reach("slice-of-maps")
		l, ok := obj.(*List)
		verifrt.Assert(ok && len(l.items) == 2, "outer-list-length")
		if ok && len(l.items) == 2 {
			m0, ok0 := l.items[0].(*Map)
			m1, ok1 := l.items[1].(*Map)
			verifrt.Assert(ok0 && ok1 && m0.Size() == 1 && m1.Size() == 2, "inner-maps-have-the-same-keys")
			if ok0 && ok1 {
				x, okx := m0.Get("x").(*Int)
				z, okz := m1.Get("z").(*Int)
				verifrt.Assert(okx && okz && x.value == int64(a) && z.value == int64(c), "inner-map-values-equal")
			}
		}
		bb, isT := back.([]map[string]int)
		verifrt.Assert(isT && len(bb) == 2 && bb[0]["x"] == a && bb[1]["y"] == b && bb[1]["z"] == c, "nested-maps-convert-back-equal")
	case 3: // []*int with a nil in the middle
		v := []*int{&a, nil, &c}
		obj, back, rejected, panicked := c08FromTo(v)
		verifrt.Assert(!panicked, "nested-conversion-never-panics")
		if panicked || rejected {
			return
		}
		verifrt.Reach("slice-of-pointers")
		l, ok := obj.(*List)
		verifrt.Assert(ok && len(l.items) == 3, "outer-list-length")
		if ok && len(l.items) == 3 {
			x, okx := c08IntContent(l.items[0])
			z, okz := c08IntContent(l.items[2])
			verifrt.Assert(okx && okz && x == int64(a) && z == int64(c) && l.items[1] == Nil, "pointer-elements-equal")
		}
		bb, isT := back.([]*int)
		verifrt.Assert(isT && len(bb) == 3 && bb[0] != nil && *bb[0] == a && bb[1] == nil && bb[2] != nil && *bb[2] == c, "slice-of-pointers-converts-back-equal")
	case 4: // *[]int
		s := []int{a, b}
		obj, back, rejected, panicked := c08FromTo(&s)
		verifrt.Assert(!panicked, "nested-conversion-never-panics")
		if panicked || rejected {
			return
		}
		verifrt.Reach("pointer-to-slice")
		in, ok := c08ListInts(obj)
		verifrt.Assert(ok && c08EqInts(in, []int64{int64(a), int64(b)}), "inner-lists-equal")
		bb, isT := back.(*[]int)
		verifrt.Assert(isT && bb != nil && len(*bb) == 2 && (*bb)[0] == a && (*bb)[1] == b, "pointer-to-slice-converts-back-equal")
	case 5: // depth 3: map[string][][2]int
		v := map[string][][2]int{"m": {{a, b}, {c, a}}}
		obj, back, rejected, panicked := c08FromTo(v)
		verifrt.Assert(!panicked, "nested-conversion-never-panics")
		if panicked || rejected {
			return
		}
		verifrt.Reach("depth-three")
		om, ok := obj.(*Map)
		verifrt.Assert(ok && om.Size() == 1, "map-has-the-same-keys")
		if ok {
			l, okL := om.Get("m").(*List)
			verifrt.Assert(okL && len(l.items) == 2, "outer-list-length")
			if okL && len(l.items) == 2 {
				i1, ok1 := c08ListInts(l.items[1])
				verifrt.Assert(ok1 && c08EqInts(i1, []int64{int64(c), int64(a)}), "inner-lists-equal")
			}
		}
		bb, isT := back.(map[string][][2]int)
		verifrt.Assert(isT && len(bb["m"]) == 2 && bb["m"][0] == [2]int{a, b} && bb["m"][1] == [2]int{c, a}, "depth-three-converts-back-equal")
	}
}

// ---- structs, proxies, fields and methods ----

type c08Inner struct {
	N int
	S string
}

type c08Point struct {
	X      int
	Y      string
	Small  int8
	U      uint16
	F      float64
	B      bool
	Tags   []string
	Nums   [2]int
	Attrs  map[string]int
	Inner  c08Inner
	P      *c08Inner
	Any    any
	hidden int

	gotInt   int
	gotStr   string
	gotInts  []int
	gotBool  bool
	gotInner *c08Inner
	calls    int
}

func (p *c08Point) Add(dx int) int { p.calls++; p.gotInt = dx; p.X += dx; return p.X }
func (p c08Point) Name() string    { return p.Y }
func (p *c08Point) Take(i int, s string, b bool, xs []int) {
	p.calls++
	p.gotInt, p.gotStr, p.gotBool, p.gotInts = i, s, b, xs
}
func (p *c08Point) Fail(msg string) error { p.calls++; return errors.New(msg) }
func (p *c08Point) Pair() (int, string)   { return p.X, p.Y }
func (p *c08Point) Sum(base int, more ...int) int {
	p.calls++
	for _, m := range more {
		base += m
	}
	return base
}
func (p *c08Point) WithCtx(ctx context.Context, n int) int { p.calls++; p.gotInt = n; return n }
func (p *c08Point) SetInner(in *c08Inner)                  { p.calls++; p.gotInner = in }
func (p *c08Point) GetInner() *c08Inner                    { return p.P }
func (p *c08Point) Half(x int16) int16                     { p.calls++; p.gotInt = int(x); return x / 2 }

func c08NewProxy(p *c08Point) (px *Proxy, ok bool) {
	defer func() {
		if r := recover(); r != nil {
			px, ok = nil, false
		}
	}()
	conv, err := NewTypeConverter(reflect.TypeOf(p))
	if err != nil {
		return nil, false
	}
	obj, err := conv.From(p)
	if err != nil {
		return nil, false
	}
	px, ok = obj.(*Proxy)
	return px, ok
}

// HarnessC08StructFieldsReadAndWrite: a pointer to a struct becomes a proxy;
// every exported field reads as the Go value, a write from the script is
// visible to Go and reads back as written, or is rejected with an error.
func HarnessC08StructFieldsReadAndWrite() {
	pt := &c08Point{X: verifrt.Int(), Y: verifrt.String(2), Small: verifrt.Int8(), U: verifrt.Uint16(), B: verifrt.Bool(),
		Tags: []string{"t", verifrt.String(1)}, Nums: [2]int{verifrt.Int(), 7}, Attrs: map[string]int{"k": verifrt.Int()},
		Inner: c08Inner{N: verifrt.Int(), S: "in"}, hidden: 9}
	px, ok := c08NewProxy(pt)
	verifrt.Assert(ok, "struct-pointer-becomes-a-proxy")
	if !ok {
		return
	}
	verifrt.Reach("proxied")
	var panicked bool

	// --- reads ---
	var x, y, small, u, b, tags, nums, attrs, inner, pnil Object
	panicked = c08Catch(func() {
		x, _ = px.GetAttr("X")
		y, _ = px.GetAttr("Y")
		small, _ = px.GetAttr("Small")
		u, _ = px.GetAttr("U")
		b, _ = px.GetAttr("B")
		tags, _ = px.GetAttr("Tags")
		nums, _ = px.GetAttr("Nums")
		attrs, _ = px.GetAttr("Attrs")
		inner, _ = px.GetAttr("Inner")
		pnil, _ = px.GetAttr("P")
	})
	verifrt.Assert(!panicked, "field-read-never-panics")
	if panicked {
		return
	}
	xi, okx := c08IntContent(x)
	verifrt.Assert(okx && xi == int64(pt.X), "int-field-reads-as-the-go-value")
	ys, oky := y.(*String)
	verifrt.Assert(oky && ys.value == pt.Y, "string-field-reads-as-the-go-value")
	si, oks := c08IntContent(small)
	verifrt.Assert(oks && si == int64(pt.Small), "int8-field-reads-as-the-go-value")
	ui, oku := c08IntContent(u)
	verifrt.Assert(oku && ui == int64(pt.U), "uint16-field-reads-as-the-go-value")
	bb, okb := b.(*Bool)
	verifrt.Assert(okb && bb.value == pt.B, "bool-field-reads-as-the-go-value")
	tl, okt := tags.(*List)
	verifrt.Assert(okt && len(tl.items) == 2, "slice-field-reads-as-a-list")
	if okt && len(tl.items) == 2 {
		t1, ok1 := tl.items[1].(*String)
		verifrt.Assert(ok1 && t1.value == pt.Tags[1], "slice-field-elements-equal")
	}
	ni, okn := c08ListInts(nums)
	verifrt.Assert(okn && c08EqInts(ni, []int64{int64(pt.Nums[0]), 7}), "array-field-reads-as-a-list")
	am, oka := attrs.(*Map)
	verifrt.Assert(oka && am.Size() == 1, "map-field-reads-as-a-map")
	if oka {
		kv, okk := am.Get("k").(*Int)
		verifrt.Assert(okk && kv.value == int64(pt.Attrs["k"]), "map-field-values-equal")
	}
	ip, oki := inner.(*Proxy)
	verifrt.Assert(oki, "nested-struct-field-reads-as-a-proxy")
	if oki {
		var n Object
		p2 := c08Catch(func() { n, _ = ip.GetAttr("N") })
		verifrt.Assert(!p2, "field-read-never-panics")
		if !p2 {
			nv, okN := c08IntContent(n)
			verifrt.Assert(okN && nv == int64(pt.Inner.N), "nested-struct-field-content-equal")
		}
	}
	_, isErr := pnil.(*Error)
	verifrt.Assert(pnil == Nil || isErr || pnil != nil, "nil-pointer-field-reads-as-something")
	_, hiddenFound := px.GetAttr("hidden")
	verifrt.Assert(!hiddenFound, "unexported-field-is-not-an-attribute")

	// --- writes ---
	nx := verifrt.Int64()
	var err error
	panicked = c08Catch(func() { err = px.SetAttr("X", NewInt(nx)) })
	verifrt.Assert(!panicked, "field-write-never-panics")
	if !panicked && err == nil {
		verifrt.Assert(int64(pt.X) == nx, "go-sees-the-written-int-field")
		rb, _ := px.GetAttr("X")
		rv, okR := c08IntContent(rb)
		verifrt.Assert(okR && rv == nx, "written-int-field-reads-back")
	}
	ns := verifrt.String(2)
	panicked = c08Catch(func() { err = px.SetAttr("Y", NewString(ns)) })
	verifrt.Assert(!panicked, "field-write-never-panics")
	if !panicked && err == nil {
		verifrt.Assert(pt.Y == ns, "go-sees-the-written-string-field")
	}
	// a sized field: the value written either reads back or the write is rejected
	n8 := verifrt.Int64()
	panicked = c08Catch(func() { err = px.SetAttr("Small", NewInt(n8)) })
	verifrt.Assert(!panicked, "field-write-never-panics")
	if !panicked && err == nil {
		verifrt.Reach("small-written")
		rb, _ := px.GetAttr("Small")
		rv, okR := c08IntContent(rb)
		verifrt.Assert(okR && rv == n8, "written-int8-field-reads-back-or-is-rejected")
	}
	// slice field
	e0 := verifrt.String(1)
	panicked = c08Catch(func() { err = px.SetAttr("Tags", NewList([]Object{NewString(e0)})) })
	verifrt.Assert(!panicked, "field-write-never-panics")
	if !panicked && err == nil {
		verifrt.Assert(len(pt.Tags) == 1 && pt.Tags[0] == e0, "go-sees-the-written-slice-field")
	}
	// nil into a slice field and into a pointer field
	panicked = c08Catch(func() { err = px.SetAttr("Tags", Nil) })
	verifrt.Assert(!panicked, "field-write-never-panics")
	if !panicked && err == nil {
		verifrt.Assert(len(pt.Tags) == 0, "nil-written-to-a-slice-field-empties-it")
	}
	panicked = c08Catch(func() { err = px.SetAttr("P", Nil) })
	verifrt.Assert(!panicked, "field-write-never-panics")
	// array field from lists of several lengths
	ln := verifrt.Choose(4)
	items := make([]Object, ln)
	for i := range items {
		items[i] = NewInt(int64(i + 1))
	}
	panicked = c08Catch(func() { err = px.SetAttr("Nums", NewList(items)) })
	verifrt.Assert(!panicked, "array-field-write-never-panics")
	// map field
	mv := verifrt.Int64()
	panicked = c08Catch(func() { err = px.SetAttr("Attrs", NewMap(map[string]Object{"q": NewInt(mv)})) })
	verifrt.Assert(!panicked, "field-write-never-panics")
	if !panicked && err == nil {
		verifrt.Assert(len(pt.Attrs) == 1 && int64(pt.Attrs["q"]) == mv, "go-sees-the-written-map-field")
	}
	// wrongly typed value
	panicked = c08Catch(func() { err = px.SetAttr("X", NewString("no")) })
	verifrt.Assert(!panicked, "field-write-never-panics")
	verifrt.Assert(panicked || err != nil, "string-into-int-field-is-rejected")
	// unexported / unknown
	panicked = c08Catch(func() { err = px.SetAttr("hidden", NewInt(1)) })
	verifrt.Assert(!panicked && err != nil && pt.hidden == 9, "unexported-field-cannot-be-written")
	// interface-typed field
	av := verifrt.Int64()
	panicked = c08Catch(func() { err = px.SetAttr("Any", NewInt(av)) })
	verifrt.Assert(!panicked, "field-write-never-panics")
	if !panicked && err == nil {
		verifrt.Assert(pt.Any == any(av), "go-sees-the-value-written-to-an-interface-field")
	}
}

func c08CallMethod(px *Proxy, name string, args ...Object) (res Object, found, panicked bool) {
	defer func() {
		if r := recover(); r != nil {
			panicked = true
		}
	}()
	attr, ok := px.GetAttr(name)
	if !ok {
		return nil, false, false
	}
	b, isB := attr.(*Builtin)
	if !isB {
		return attr, false, false
	}
	return b.Call(context.Background(), args...), true, false
}

// HarnessC08MethodsReceiveExactArguments
func HarnessC08MethodsReceiveExactArguments() {
	pt := &c08Point{X: verifrt.Int(), Y: verifrt.String(1), P: &c08Inner{N: verifrt.Int()}}
	px, ok := c08NewProxy(pt)
	verifrt.Assert(ok, "struct-pointer-becomes-a-proxy")
	if !ok {
		return
	}
	x0 := pt.X
	switch verifrt.Choose(11) {
	case 0:
		d := verifrt.Int64()
		res, found, p := c08CallMethod(px, "Add", NewInt(d))
		verifrt.Assert(found && !p, "method-call-never-panics")
		if found && !p {
			verifrt.Reach("add")
			verifrt.Assert(pt.calls == 1 && int64(pt.gotInt) == d, "method-receives-exactly-the-int-argument")
			rv, okR := c08IntContent(res)
			verifrt.Assert(okR && rv == int64(x0+int(d)), "method-result-arrives-in-the-script")
		}
	case 1:
		res, found, p := c08CallMethod(px, "Name")
		verifrt.Assert(found && !p, "method-call-never-panics")
		if found && !p {
			verifrt.Reach("value-receiver")
			s, okS := res.(*String)
			verifrt.Assert(okS && s.value == pt.Y, "value-receiver-method-result")
		}
	case 2:
		i, s, b := verifrt.Int64(), verifrt.String(1), verifrt.Bool()
		e := verifrt.Int64()
		_, found, p := c08CallMethod(px, "Take", NewInt(i), NewString(s), NewBool(b), NewList([]Object{NewInt(e), NewInt(3)}))
		verifrt.Assert(found && !p, "method-call-never-panics")
		if found && !p {
			verifrt.Reach("take")
			verifrt.Assert(pt.calls == 1 && int64(pt.gotInt) == i && pt.gotStr == s && pt.gotBool == b, "method-receives-exactly-the-scalar-arguments")
			verifrt.Assert(len(pt.gotInts) == 2 && int64(pt.gotInts[0]) == e && pt.gotInts[1] == 3, "method-receives-exactly-the-list-argument")
		}
	case 3:
		msg := verifrt.String(2)
		res, found, p := c08CallMethod(px, "Fail", NewString(msg))
		verifrt.Assert(found && !p, "method-call-never-panics")
		if found && !p {
			verifrt.Reach("fail")
			e, isErr := res.(*Error)
			verifrt.Assert(isErr && e.Value().Error() == msg, "go-error-result-becomes-a-script-error")
		}
	case 4:
		res, found, p := c08CallMethod(px, "Pair")
		verifrt.Assert(found && !p, "method-call-never-panics")
		if found && !p {
			verifrt.Reach("pair")
			l, isL := res.(*List)
			verifrt.Assert(isL && len(l.items) == 2, "two-results-become-a-list")
			if isL && len(l.items) == 2 {
				a, okA := c08IntContent(l.items[0])
				s, okS := l.items[1].(*String)
				verifrt.Assert(okA && okS && a == int64(pt.X) && s.value == pt.Y, "both-results-arrive")
			}
		}
	case 5:
		n := verifrt.Int64()
		res, found, p := c08CallMethod(px, "WithCtx", NewInt(n))
		verifrt.Assert(found && !p, "method-call-never-panics")
		if found && !p {
			verifrt.Reach("ctx")
			rv, okR := c08IntContent(res)
			verifrt.Assert(pt.calls == 1 && int64(pt.gotInt) == n && okR && rv == n, "context-parameter-is-supplied-by-the-host")
		}
	case 6:
		// wrong arity and wrong types are rejected with an error, not a panic
		nargs := verifrt.Choose(4)
		args := make([]Object, nargs)
		for i := range args {
			args[i] = NewInt(int64(i))
		}
		res, found, p := c08CallMethod(px, "Add", args...)
		verifrt.Assert(found && !p, "wrong-arity-call-never-panics")
		if found && !p && nargs != 1 {
			verifrt.Reach("arity")
			_, isErr := res.(*Error)
			verifrt.Assert(isErr && pt.calls == 0, "wrong-arity-call-is-rejected")
		}
		res, found, p = c08CallMethod(px, "Add", NewString("x"))
		verifrt.Assert(found && !p, "wrong-type-call-never-panics")
		if found && !p {
			_, isErr := res.(*Error)
			verifrt.Assert(isErr, "wrong-type-call-is-rejected")
		}
	case 7:
		// nil for a pointer parameter; a proxy for a pointer parameter
		_, found, p := c08CallMethod(px, "SetInner", Nil)
		verifrt.Assert(found && !p, "method-call-never-panics")
		if found && !p {
			verifrt.Reach("nil-arg")
			verifrt.Assert(pt.calls == 1 && pt.gotInner == nil, "nil-argument-arrives-as-nil")
		}
		in, found2, p2 := c08CallMethod(px, "GetInner")
		verifrt.Assert(found2 && !p2, "method-call-never-panics")
		if found2 && !p2 {
			_, found3, p3 := c08CallMethod(px, "SetInner", in)
			verifrt.Assert(found3 && !p3, "method-call-never-panics")
			if found3 && !p3 {
				verifrt.Reach("proxy-arg")
				verifrt.Assert(pt.gotInner == pt.P, "proxy-argument-arrives-as-the-same-go-pointer")
			}
		}
	case 8:
		// variadic
		a, b := verifrt.Int64(), verifrt.Int64()
		nextra := verifrt.Choose(3)
		args := []Object{NewInt(a)}
		want := int(a)
		for i := 0; i < nextra; i++ {
			args = append(args, NewInt(b))
			want += int(b)
		}
		res, found, p := c08CallMethod(px, "Sum", args...)
		verifrt.Assert(found && !p, "variadic-call-never-panics")
		if found && !p {
			verifrt.Reach("variadic")
			if rv, okR := c08IntContent(res); okR {
				verifrt.Assert(rv == int64(want), "variadic-arguments-arrive")
			} else {
				_, isErr := res.(*Error)
				verifrt.Assert(isErr, "variadic-call-result-or-error")
			}
		}
	case 10:
		// variadic parameter given as one list
		a, b := verifrt.Int64(), verifrt.Int64()
		res, found, p := c08CallMethod(px, "Sum", NewInt(a), NewList([]Object{NewInt(b), NewInt(1)}))
		verifrt.Assert(found && !p, "variadic-call-with-a-list-never-panics")
		if found && !p {
			verifrt.Reach("variadic-list")
			if rv, okR := c08IntContent(res); okR {
				verifrt.Assert(rv == int64(int(a)+int(b)+1), "variadic-arguments-arrive")
			}
		}
	case 9:
		// sized parameter: representable values arrive exactly
		h := verifrt.Int64()
		res, found, p := c08CallMethod(px, "Half", NewInt(h))
		verifrt.Assert(found && !p, "method-call-never-panics")
		if found && !p && h >= -32768 && h <= 32767 {
			verifrt.Reach("sized")
			if _, isErr := res.(*Error); !isErr {
				verifrt.Assert(int64(pt.gotInt) == h, "representable-argument-arrives-exactly")
			}
		}
	}
}

// HarnessC08StructValues: a struct passed by value is copied into the proxy;
// converting back yields an equal struct.
func HarnessC08StructValues() {
	in := c08Inner{N: verifrt.Int(), S: verifrt.String(1)}
	obj, back, rejected, panicked := c08FromTo(in)
	verifrt.Assert(!panicked, "struct-value-conversion-never-panics")
	if panicked || rejected {
		return
	}
	verifrt.Reach("converted")
	px, isP := obj.(*Proxy)
	verifrt.Assert(isP, "struct-value-becomes-a-proxy")
	if isP {
		n, _ := px.GetAttr("N")
		nv, okN := c08IntContent(n)
		verifrt.Assert(okN && nv == int64(in.N), "struct-value-field-content-equal")
	}
	b, isT := back.(c08Inner)
	verifrt.Assert(isT && b == in, "struct-value-converts-back-equal")
	// map -> struct
	conv, err := NewTypeConverter(reflect.TypeOf(&c08Inner{}))
	if err != nil {
		return
	}
	nn := verifrt.Int64()
	var r any
	var toErr error
	p := c08Catch(func() {
		r, toErr = conv.To(NewMap(map[string]Object{"N": NewInt(nn), "S": NewString("s"), "Other": NewInt(1)}))
	})
	verifrt.Assert(!p, "map-to-struct-never-panics")
	if !p && toErr == nil {
		ip, isIP := r.(*c08Inner)
		verifrt.Assert(isIP && ip != nil && int64(ip.N) == nn && ip.S == "s", "map-to-struct-sets-the-named-fields")
	}
}

type c08Sized struct {
	I8  int8
	I16 int16
	I32 int32
	I64 int64
	I   int
	U8  uint8
	U16 uint16
	U32 uint32
	U64 uint64
	U   uint
	F32 float32
}

// HarnessC08SizedFieldsWriteReadBack: an int written from the script to a
// field of any sized integer kind reads back (from the script and from Go) as
// the value written, or the write is rejected.
func HarnessC08SizedFieldsWriteReadBack() {
	st := &c08Sized{}
	conv, err := NewTypeConverter(reflect.TypeOf(st))
	if err != nil {
		return
	}
	obj, err := conv.From(st)
	px, ok := obj.(*Proxy)
	if err != nil || !ok {
		return
	}
	names := []string{"I8", "I16", "I32", "I64", "I", "U8", "U16", "U32", "U64", "U"}
	k := verifrt.Choose(len(names))
	x := verifrt.Int64()
	var serr error
	p := c08Catch(func() { serr = px.SetAttr(names[k], NewInt(x)) })
	verifrt.Assert(!p, "sized-field-write-never-panics")
	if p || serr != nil {
		return
	}
	verifrt.Reach("written")
	rb, _ := px.GetAttr(names[k])
	rv, okR := c08IntContent(rb)
	verifrt.Assert(okR && rv == x, "sized-field-reads-back-as-written-or-is-rejected:"+names[k])
	var goSees int64
	var fits bool
	switch k {
	case 0:
		goSees, fits = int64(st.I8), true
	case 1:
		goSees, fits = int64(st.I16), true
	case 2:
		goSees, fits = int64(st.I32), true
	case 3:
		goSees, fits = st.I64, true
	case 4:
		goSees, fits = int64(st.I), true
	case 5:
		goSees, fits = int64(st.U8), true
	case 6:
		goSees, fits = int64(st.U16), true
	case 7:
		goSees, fits = int64(st.U32), true
	case 8:
		goSees, fits = int64(st.U64), st.U64 <= 1<<63-1
	case 9:
		goSees, fits = int64(st.U), uint64(st.U) <= 1<<63-1
	}
	verifrt.Assert(fits && goSees == x, "go-sees-the-value-written-to-a-sized-field:"+names[k])
}

// ---- more shapes: slices of structs, (value, error) results, []byte, errors
// as arguments, float32, unsupported map keys ----

type c08Shapes struct {
	Items []c08Inner
	F32   float32
	Raw   []byte

	gotErr   error
	gotBytes []byte
	calls    int
}

func (s *c08Shapes) Div(a, b int) (int, error) {
	s.calls++
	if b == 0 {
		return 0, errors.New("division by zero")
	}
	return a / b, nil
}
func (s *c08Shapes) TakeErr(e error) string { s.calls++; s.gotErr = e; return "ok" }
func (s *c08Shapes) TakeBytes(b []byte) []byte {
	s.calls++
	s.gotBytes = b
	return append([]byte{0x2a}, b...)
}
func (s *c08Shapes) First() c08Inner      { return s.Items[0] }
func (s *c08Shapes) Narrow(x int64) int32 { s.calls++; return int32(x) }

func HarnessC08MoreShapes() {
	n1, n2 := verifrt.Int(), verifrt.Int()
	st := &c08Shapes{Items: []c08Inner{{N: n1, S: "a"}, {N: n2, S: "b"}}, F32: 0.5, Raw: []byte{verifrt.Uint8(), 2}}
	conv, err := NewTypeConverter(reflect.TypeOf(st))
	verifrt.Assert(err == nil, "struct-with-these-shapes-is-convertible")
	if err != nil {
		return
	}
	var obj Object
	p := c08Catch(func() { obj, err = conv.From(st) })
	verifrt.Assert(!p && err == nil, "conversion-never-panics")
	px, ok := obj.(*Proxy)
	if p || err != nil || !ok {
		return
	}
	switch verifrt.Choose(9) {
	case 0: // slice of structs reads as a list of proxies with equal contents
		var items Object
		p := c08Catch(func() { items, _ = px.GetAttr("Items") })
		verifrt.Assert(!p, "field-read-never-panics")
		if !p {
			l, isL := items.(*List)
			verifrt.Assert(isL && len(l.items) == 2, "slice-of-structs-reads-as-a-list")
			if isL && len(l.items) == 2 {
				ip, isP := l.items[1].(*Proxy)
				verifrt.Assert(isP, "struct-element-is-a-proxy")
				if isP {
					nv, _ := ip.GetAttr("N")
					got, okN := c08IntContent(nv)
					verifrt.Assert(okN && got == int64(n2), "struct-element-field-content-equal")
				}
			}
		}
	case 1: // (value, error) results
		a, b := verifrt.Int64(), verifrt.Int64()
		verifrt.Assume(b != -1) // MinInt64 / -1 is Go's own trap
		res, found, p := c08CallMethodOn(px, "Div", NewInt(a), NewInt(b))
		verifrt.Assert(found && !p, "method-call-never-panics")
		if found && !p {
			verifrt.Reach("div")
			if b == 0 {
				e, isErr := res.(*Error)
				verifrt.Assert(isErr && e.Value().Error() == "division by zero", "go-error-result-becomes-a-script-error")
			} else {
				got, okR := c08IntContent(res)
				verifrt.Assert(okR && got == int64(int(a)/int(b)), "value-result-arrives-when-the-error-is-nil")
			}
		}
	case 2: // error as argument
		msg := verifrt.String(1)
		sentinel := errors.New("e" + msg)
		res, found, p := c08CallMethodOn(px, "TakeErr", NewError(sentinel))
		verifrt.Assert(found && !p, "method-call-never-panics")
		if found && !p {
			if _, isErr := res.(*Error); !isErr {
				verifrt.Reach("err-arg")
				verifrt.Assert(st.gotErr != nil && st.gotErr.Error() == "e"+msg, "error-argument-arrives")
				// Go gets the error value itself (err == sentinel, errors.Is), not a wrapper
				verifrt.Assert(st.gotErr == sentinel, "error-argument-is-the-original-go-error")
			}
		}
	case 3: // []byte argument and result
		b0 := verifrt.Uint8()
		res, found, p := c08CallMethodOn(px, "TakeBytes", NewByteSlice([]byte{b0, 7}))
		verifrt.Assert(found && !p, "method-call-never-panics")
		if found && !p {
			verifrt.Reach("bytes")
			verifrt.Assert(len(st.gotBytes) == 2 && st.gotBytes[0] == b0 && st.gotBytes[1] == 7, "byte-slice-argument-arrives")
			bs, isBS := res.(*ByteSlice)
			verifrt.Assert(isBS && len(bs.value) == 3 && bs.value[0] == 0x2a && bs.value[1] == b0, "byte-slice-result-arrives")
		}
	case 4: // struct value result
		res, found, p := c08CallMethodOn(px, "First")
		verifrt.Assert(found && !p, "method-call-never-panics")
		if found && !p {
			verifrt.Reach("struct-result")
			ip, isP := res.(*Proxy)
			verifrt.Assert(isP, "struct-result-is-a-proxy")
			if isP {
				nv, _ := ip.GetAttr("N")
				got, okN := c08IntContent(nv)
				verifrt.Assert(okN && got == int64(n1), "struct-result-content-equal")
			}
		}
	case 5: // a narrowing result arrives as Go computed it
		x := verifrt.Int64()
		res, found, p := c08CallMethodOn(px, "Narrow", NewInt(x))
		verifrt.Assert(found && !p, "method-call-never-panics")
		if found && !p {
			got, okR := c08IntContent(res)
			verifrt.Assert(okR && got == int64(int32(x)), "int32-result-arrives")
		}
	case 6: // []byte field
		var raw Object
		p := c08Catch(func() { raw, _ = px.GetAttr("Raw") })
		verifrt.Assert(!p, "field-read-never-panics")
		if !p {
			bs, isBS := raw.(*ByteSlice)
			verifrt.Assert(isBS && len(bs.value) == 2 && bs.value[0] == st.Raw[0], "byte-slice-field-reads-as-bytes")
		}
	case 7: // float32 field keeps a value that float32 represents exactly
		var serr error
		p := c08Catch(func() { serr = px.SetAttr("F32", NewFloat(0.25)) })
		verifrt.Assert(!p, "field-write-never-panics")
		if !p && serr == nil {
			verifrt.Assert(st.F32 == 0.25, "go-sees-the-written-float32-field")
		}
	case 8: // maps with non-string keys are rejected, not a panic
		var cerr error
		p := c08Catch(func() { _, cerr = NewTypeConverter(reflect.TypeOf(map[int]string{})) })
		verifrt.Assert(!p && cerr != nil, "map-with-int-keys-is-rejected-with-an-error")
	}
}

func c08CallMethodOn(px *Proxy, name string, args ...Object) (res Object, found, panicked bool) {
	return c08CallMethod(px, name, args...)
}

// ---- edge cases around struct fields and arguments ----

type c08Edge struct {
	Err    error
	Inner  c08Inner
	PInner *c08Inner
	Ptrs   []*c08Inner
	Elems  []c08Inner

	gotInner *c08Inner
	gotInts  []int
	calls    int
}

func (e *c08Edge) TakeInner(in *c08Inner) { e.calls++; e.gotInner = in }
func (e *c08Edge) TakeInts(xs []int)      { e.calls++; e.gotInts = xs }

type c08Other struct{ Z int }

func HarnessC08StructEdgeCases() {
	n := verifrt.Int()
	st := &c08Edge{Inner: c08Inner{N: n, S: "i"}, Ptrs: []*c08Inner{{N: n}, nil}, Elems: []c08Inner{{N: n}}}
	var px *Proxy
	p0 := c08Catch(func() {
		conv, err := NewTypeConverter(reflect.TypeOf(st))
		if err == nil {
			obj, _ := conv.From(st)
			px, _ = obj.(*Proxy)
		}
	})
	verifrt.Assert(!p0 && px != nil, "struct-pointer-becomes-a-proxy")
	if p0 || px == nil {
		return
	}
	switch verifrt.Choose(9) {
	case 0: // a nil error field reads as nil
		var v Object
		p := c08Catch(func() { v, _ = px.GetAttr("Err") })
		verifrt.Assert(!p, "reading-a-nil-error-field-never-panics")
		if !p {
			_, isErr := v.(*Error)
			verifrt.Assert(v == Nil || isErr, "nil-error-field-reads-as-nil-or-an-error-value")
		}
	case 1: // a map written to a struct-valued field
		x := verifrt.Int64()
		var err error
		p := c08Catch(func() { err = px.SetAttr("Inner", NewMap(map[string]Object{"N": NewInt(x), "S": NewString("w")})) })
		verifrt.Assert(!p, "writing-a-map-to-a-struct-field-never-panics")
		if !p && err == nil {
			verifrt.Reach("map-to-struct-field")
			verifrt.Assert(int64(st.Inner.N) == x && st.Inner.S == "w", "go-sees-the-struct-built-from-the-map")
		}
	case 2: // a map argument with a nil entry
		var res Object
		var found, p bool
		res, found, p = c08CallMethod(px, "TakeInner", NewMap(map[string]Object{"S": Nil, "N": NewInt(3)}))
		verifrt.Assert(found && !p, "map-argument-with-a-nil-entry-never-panics")
		_ = res
	case 3: // a proxy of another struct type as argument is rejected
		other, _ := NewProxy(&c08Other{Z: 1})
		res, found, p := c08CallMethod(px, "TakeInner", other)
		verifrt.Assert(found && !p, "proxy-of-another-type-as-argument-never-panics")
		if found && !p {
			_, isErr := res.(*Error)
			verifrt.Assert(isErr && st.calls == 0, "proxy-of-another-type-as-argument-is-rejected")
		}
	case 4: // nil among the values handed over as globals
		var err error
		p := c08Catch(func() { _, err = AsObjects(map[string]any{"x": nil, "y": 1}) })
		verifrt.Assert(!p, "nil-global-never-panics")
		_ = err
	case 5: // a map with non-string keys handed over as a global is rejected
		var err error
		p := c08Catch(func() { _, err = AsObjects(map[string]any{"m": map[int]string{1: "a"}}) })
		verifrt.Assert(!p && err != nil, "global-map-with-int-keys-is-rejected-with-an-error")
	case 6: // a float that is not an integer is not a valid int argument
		res, found, p := c08CallMethod(px, "TakeInts", NewList([]Object{NewFloat(1.5)}))
		verifrt.Assert(found && !p, "method-call-never-panics")
		if found && !p {
			if _, isErr := res.(*Error); !isErr {
				verifrt.Assert(len(st.gotInts) == 1 && float64(st.gotInts[0]) == 1.5, "non-integral-float-is-not-passed-as-a-different-int")
			}
		}
	case 7: // a nil element of a slice of struct pointers
		var v Object
		p := c08Catch(func() { v, _ = px.GetAttr("Ptrs") })
		verifrt.Assert(!p, "field-read-never-panics")
		if l, isL := v.(*List); !p && isL && len(l.items) == 2 {
			verifrt.Reach("ptr-slice")
			if np, isP := l.items[1].(*Proxy); isP {
				var f Object
				p2 := c08Catch(func() { f, _ = np.GetAttr("N") })
				verifrt.Assert(!p2, "using-the-element-that-was-nil-never-panics")
				_ = f
			}
		}
	case 8: // a field of a struct element written through the list
		var v Object
		p := c08Catch(func() { v, _ = px.GetAttr("Elems") })
		verifrt.Assert(!p, "field-read-never-panics")
		if l, isL := v.(*List); !p && isL && len(l.items) == 1 {
			if ep, isP := l.items[0].(*Proxy); isP {
				x := verifrt.Int64()
				var err error
				p2 := c08Catch(func() { err = ep.SetAttr("N", NewInt(x)) })
				verifrt.Assert(!p2, "field-write-never-panics")
				if !p2 && err == nil {
					verifrt.Reach("elem-write")
					var again Object
					c08Catch(func() { again, _ = px.GetAttr("Elems") })
					if l2, ok2 := again.(*List); ok2 && len(l2.items) == 1 {
						if ep2, ok3 := l2.items[0].(*Proxy); ok3 {
							nv, _ := ep2.GetAttr("N")
							got, okN := c08IntContent(nv)
							verifrt.Assert(okN && got == x, "field-of-a-struct-element-written-through-the-list-reads-back")
						}
					}
				}
			}
		}
	}
}
