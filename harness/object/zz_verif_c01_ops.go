//go:build verif

package object

import (
	"math"

	"github.com/risor-io/risor/internal/verifrt"
	"github.com/risor-io/risor/op"
)

// safeBinaryOp runs the real operator and reports a Go panic as a failure
// (vm.Run turns such a panic into an error; it must never yield a value).
func safeBinaryOp(o op.BinaryOpType, a, b Object) (res Object, failed bool) {
	defer func() {
		if r := recover(); r != nil {
			res, failed = nil, true
		}
	}()
	r, err := BinaryOp(o, a, b)
	if err != nil {
		return nil, true
	}
	if e, ok := r.(*Error); ok && e != nil {
		return r, true
	}
	return r, false
}

var c01ArithOps = []op.BinaryOpType{op.Add, op.Subtract, op.Multiply, op.Divide, op.Modulo, op.Xor, op.LShift, op.RShift, op.BitwiseAnd, op.BitwiseOr}

// c01RefInt is the reference: Go int64 operator semantics; ok=false means the
// operation must fail; unspec=true means the statement does not fix the result.
func c01RefInt(o op.BinaryOpType, a, b int64) (want int64, ok bool, unspec bool) {
	switch o {
	case op.Add:
		return a + b, true, false
	case op.Subtract:
		return a - b, true, false
	case op.Multiply:
		return a * b, true, false
	case op.Divide:
		if b == 0 {
			return 0, false, false
		}
		return a / b, true, false
	case op.Modulo:
		if b == 0 {
			return 0, false, false
		}
		return a % b, true, false
	case op.Xor:
		return a ^ b, true, false
	case op.BitwiseAnd:
		return a & b, true, false
	case op.BitwiseOr:
		return a | b, true, false
	case op.LShift:
		if b < 0 {
			return 0, true, true
		}
		return a << uint64(b), true, false
	case op.RShift:
		if b < 0 {
			return 0, true, true
		}
		return a >> uint64(b), true, false
	}
	return 0, true, true
}

func c01CheckInt(label string, res Object, failed bool, want int64, ok, unspec bool) {
	if unspec {
		return
	}
	if !ok {
		verifrt.Reach("opt:must-fail")
		verifrt.Assert(failed, label+":must-fail-not-yield-a-value")
		return
	}
	verifrt.Assert(!failed, label+":succeeds")
	if failed {
		return
	}
	iv, isInt := res.(*Int)
	verifrt.Assert(isInt && iv.value == want, label+":value")
}

// int (op) int over all int64 operands.
func HarnessC01OpsIntInt() {
	a, b := verifrt.Int64(), verifrt.Int64()
	o := c01ArithOps[verifrt.Choose(len(c01ArithOps))]
	res, failed := safeBinaryOp(o, &Int{value: a}, &Int{value: b})
	want, ok, unspec := c01RefInt(o, a, b)
	c01CheckInt("int-int", res, failed, want, ok, unspec)
	verifrt.Reach("done")
}

// byte (op) byte: arithmetic modulo 256; int (op) byte and byte (op) int promote to int.
func HarnessC01OpsByte() {
	x, y := verifrt.Uint8(), verifrt.Uint8()
	o := c01ArithOps[verifrt.Choose(len(c01ArithOps))]
	switch verifrt.Choose(3) {
	case 0:
		res, failed := safeBinaryOp(o, &Byte{value: x}, &Byte{value: y})
		var want byte
		ok := true
		switch o {
		case op.Add:
			want = x + y
		case op.Subtract:
			want = x - y
		case op.Multiply:
			want = x * y
		case op.Divide:
			if y == 0 {
				ok = false
			} else {
				want = x / y
			}
		case op.Modulo:
			if y == 0 {
				ok = false
			} else {
				want = x % y
			}
		case op.Xor:
			want = x ^ y
		case op.BitwiseAnd:
			want = x & y
		case op.BitwiseOr:
			want = x | y
		case op.LShift:
			want = x << y
		case op.RShift:
			want = x >> y
		}
		if !ok {
			verifrt.Assert(failed, "byte-byte:must-fail-not-yield-a-value")
			return
		}
		verifrt.Assert(!failed, "byte-byte:succeeds")
		if !failed {
			bv, isByte := res.(*Byte)
			verifrt.Assert(isByte && bv.value == want, "byte-byte:value")
		}
	case 1:
		b := verifrt.Int64()
		res, failed := safeBinaryOp(o, &Byte{value: x}, &Int{value: b})
		want, ok, unspec := c01RefInt(o, int64(x), b)
		c01CheckInt("byte-int", res, failed, want, ok, unspec)
	case 2:
		a := verifrt.Int64()
		res, failed := safeBinaryOp(o, &Int{value: a}, &Byte{value: y})
		want, ok, unspec := c01RefInt(o, a, int64(y))
		c01CheckInt("int-byte", res, failed, want, ok, unspec)
	}
	verifrt.Reach("done")
}

// float arithmetic, and int/byte promoted through float64(x).
func HarnessC01OpsFloatFP() {
	ops := []op.BinaryOpType{op.Add, op.Subtract, op.Multiply, op.Divide}
	o := ops[verifrt.Choose(len(ops))]
	var l, r Object
	var lf, rf float64
	switch verifrt.Choose(3) {
	case 0:
		lf = verifrt.Float64()
		l = NewFloat(lf)
	case 1:
		i := verifrt.Int64()
		lf, l = float64(i), &Int{value: i}
	case 2:
		b := verifrt.Uint8()
		lf, l = float64(b), &Byte{value: b}
	}
	switch verifrt.Choose(3) {
	case 0:
		rf = verifrt.Float64()
		r = NewFloat(rf)
	case 1:
		i := verifrt.Int64()
		rf, r = float64(i), &Int{value: i}
	case 2:
		b := verifrt.Uint8()
		rf, r = float64(b), &Byte{value: b}
	}
	_, lIsF := l.(*Float)
	_, rIsF := r.(*Float)
	if !lIsF && !rIsF {
		return // covered by the integer harnesses
	}
	res, failed := safeBinaryOp(o, l, r)
	verifrt.Assert(!failed, "float:succeeds")
	if failed {
		return
	}
	var want float64
	switch o {
	case op.Add:
		want = lf + rf
	case op.Subtract:
		want = lf - rf
	case op.Multiply:
		want = lf * rf
	case op.Divide:
		want = lf / rf
	}
	fv, isF := res.(*Float)
	verifrt.Assert(isF, "float:result-is-float")
	if isF {
		// same value, or both NaN
		verifrt.Assert(verifrt.Or(fv.value == want, verifrt.And(math.IsNaN(fv.value), math.IsNaN(want))), "float:value")
	}
	verifrt.Reach("done")
}

// comparisons of numbers agree with Go's operators on the promoted values
func HarnessC01CompareInts() {
	a, b := verifrt.Int64(), verifrt.Int64()
	cops := []op.CompareOpType{op.LessThan, op.LessThanOrEqual, op.GreaterThan, op.GreaterThanOrEqual, op.Equal, op.NotEqual}
	o := cops[verifrt.Choose(len(cops))]
	var want bool
	switch o {
	case op.LessThan:
		want = a < b
	case op.LessThanOrEqual:
		want = a <= b
	case op.GreaterThan:
		want = a > b
	case op.GreaterThanOrEqual:
		want = a >= b
	case op.Equal:
		want = a == b
	case op.NotEqual:
		want = a != b
	}
	r, err := Compare(o, &Int{value: a}, &Int{value: b})
	verifrt.Assert(err == nil, "compare-succeeds")
	if err == nil {
		verifrt.Assert(r.(*Bool).value == want, "compare-value")
	}
	verifrt.Reach("done")
}

// truthiness, && / || value selection, unary minus and not
func HarnessC01TruthinessAndLogic() {
	a, b := verifrt.Int64(), verifrt.Int64()
	x, y := &Int{value: a}, &Int{value: b}
	verifrt.Assert(x.IsTruthy() == (a != 0), "int-truthy-iff-nonzero")
	and, _ := BinaryOp(op.And, x, y)
	or, _ := BinaryOp(op.Or, x, y)
	if a != 0 {
		verifrt.Assert(and == Object(y) && or == Object(x), "and-or-select-operands-truthy-left")
	} else {
		verifrt.Assert(and == Object(x) && or == Object(y), "and-or-select-operands-falsy-left")
	}
	s := verifrt.String(verifrt.Choose(2))
	verifrt.Assert(NewString(s).IsTruthy() == (len(s) != 0), "string-truthy-iff-nonempty")
	verifrt.Assert(!Nil.IsTruthy(), "nil-falsy")
	bv := verifrt.Bool()
	verifrt.Assert(NewBool(bv).IsTruthy() == bv, "bool-truthy")
	verifrt.Reach("done")
}

// HarnessC01CompareMixedNumericFP: comparisons between an int (or byte) and a
// float compare the numeric values: the int is widened, the float is never
// truncated; both operand orders.
func HarnessC01CompareMixedNumericFP() {
	f := verifrt.Float64()
	verifrt.Assume(f == f)
	var io Object
	var iv float64
	if verifrt.Bool() {
		a := verifrt.Int64()
		verifrt.Assume(a >= -(1<<53) && a <= 1<<53) // exact in float64
		io, iv = &Int{value: a}, float64(a)
	} else {
		b := verifrt.Uint8()
		io, iv = &Byte{value: b}, float64(b)
	}
	fo := NewFloat(f)
	cops := []op.CompareOpType{op.LessThan, op.LessThanOrEqual, op.GreaterThan, op.GreaterThanOrEqual, op.Equal, op.NotEqual}
	o := cops[verifrt.Choose(len(cops))]
	ref := func(x, y float64) bool {
		switch o {
		case op.LessThan:
			return x < y
		case op.LessThanOrEqual:
			return x <= y
		case op.GreaterThan:
			return x > y
		case op.GreaterThanOrEqual:
			return x >= y
		case op.Equal:
			return x == y
		}
		return x != y
	}
	r1, err1 := Compare(o, io, fo)
	verifrt.Assert(err1 == nil, "int-float-compare-succeeds")
	if err1 == nil {
		verifrt.Assert(r1.(*Bool).value == ref(iv, f), "int-op-float-compares-numeric-values")
	}
	r2, err2 := Compare(o, fo, io)
	verifrt.Assert(err2 == nil, "float-int-compare-succeeds")
	if err2 == nil {
		verifrt.Assert(r2.(*Bool).value == ref(f, iv), "float-op-int-compares-numeric-values")
	}
	verifrt.Reach("done")
}
