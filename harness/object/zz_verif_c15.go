//go:build verif

package object

import (
	"errors"
	"math"

	"github.com/risor-io/risor/internal/verifrt"
	"github.com/risor-io/risor/op"
)

// value kinds of the C15 generator
const (
	kNil = iota
	kBool
	kInt
	kByte
	kString
	kError
	kList
	kFloat
	kKinds
)

func c15Float() float64 {
	f := verifrt.Float64()
	verifrt.Assume(!math.IsNaN(f)) // the property excludes NaN
	return f
}

// c15Mk builds an arbitrary value of the given kind with symbolic content.
func c15Mk(kind int) Object {
	switch kind {
	case kNil:
		return Nil
	case kBool:
		return NewBool(verifrt.Bool())
	case kInt:
		return &Int{value: verifrt.Int64()}
	case kByte:
		return &Byte{value: verifrt.Uint8()}
	case kString:
		return NewString(verifrt.String(verifrt.Choose(3)))
	case kError:
		e := &Error{err: errors.New(verifrt.String(verifrt.Choose(2))), raised: verifrt.Bool()}
		return e
	case kList:
		n := verifrt.Choose(3)
		items := make([]Object, n)
		for i := range items {
			items[i] = &Int{value: verifrt.Int64()}
		}
		return NewList(items)
	case kFloat:
		return NewFloat(c15Float())
	}
	return Nil
}

func eqv(a, b Object) bool { return a.Equals(b).(*Bool).value }

func cmpOp(o op.CompareOpType, a, b Object) (bool, bool) {
	r, err := Compare(o, a, b)
	if err != nil {
		return false, false
	}
	return r.(*Bool).value, true
}

// ---- equality laws, integer-like kinds (bit-vector theory) ----

func c15EqLaws(maxKind int) {
	ka, kb := verifrt.Choose(maxKind), verifrt.Choose(maxKind)
	a, b := c15Mk(ka), c15Mk(kb)
	verifrt.Assert(eqv(a, a), "reflexive")
	ab, ba := eqv(a, b), eqv(b, a)
	verifrt.Assert(ab == ba, "symmetric")
	ne, ok := cmpOp(op.NotEqual, a, b)
	verifrt.Assert(ok && ne == !ab, "not-equal-is-negation")
	verifrt.Reach("done")
}

func HarnessC15EqualityLaws()   { c15EqLaws(kFloat) }
func HarnessC15EqualityLawsFP() { c15EqLaws(kKinds) }

func c15Transitive(kind int) {
	a, b, c := c15Mk(kind), c15Mk(kind), c15Mk(kind)
	if eqv(a, b) && eqv(b, c) {
		verifrt.Reach("chain")
		verifrt.Assert(eqv(a, c), "transitive-within-type")
	}
}

func HarnessC15EqualityTransitive()   { c15Transitive(verifrt.Choose(kFloat)) }
func HarnessC15EqualityTransitiveFP() { c15Transitive(kFloat) }

// ---- ordering: total preorder agreeing with == within int, byte, string, bool, list, float ----

func c15Order(kind int) {
	a, b, c := c15Mk(kind), c15Mk(kind), c15Mk(kind)
	lt, ok1 := cmpOp(op.LessThan, a, b)
	le, ok2 := cmpOp(op.LessThanOrEqual, a, b)
	gt, ok3 := cmpOp(op.GreaterThan, a, b)
	ge, ok4 := cmpOp(op.GreaterThanOrEqual, a, b)
	verifrt.Assert(ok1 && ok2 && ok3 && ok4, "same-type-values-are-comparable")
	if !(ok1 && ok2 && ok3 && ok4) {
		return
	}
	rle, _ := cmpOp(op.LessThanOrEqual, b, a)
	rlt, _ := cmpOp(op.LessThan, b, a)
	eq := eqv(a, b)
	verifrt.Assert(le || rle, "total")
	verifrt.Assert((le && rle) == eq, "le-both-ways-iff-equal")
	verifrt.Assert(lt == (le && !rle), "lt-is-strict-part")
	verifrt.Assert(gt == rlt, "gt-mirrors-lt")
	verifrt.Assert(ge == rle, "ge-mirrors-le")
	verifrt.Assert(!(lt && rlt), "asymmetric")
	bc, _ := cmpOp(op.LessThanOrEqual, b, c)
	ac, _ := cmpOp(op.LessThanOrEqual, a, c)
	if le && bc {
		verifrt.Reach("chain")
		verifrt.Assert(ac, "le-transitive")
	}
}

func HarnessC15OrderWithinType() {
	kinds := []int{kBool, kInt, kByte, kString, kList}
	c15Order(kinds[verifrt.Choose(len(kinds))])
}
func HarnessC15OrderWithinTypeFP() { c15Order(kFloat) }

// across numeric types: never a<b and b<a, never an error
func HarnessC15OrderCrossNumericFP() {
	kinds := []int{kInt, kByte, kFloat}
	a, b := c15Mk(kinds[verifrt.Choose(3)]), c15Mk(kinds[verifrt.Choose(3)])
	lt, ok1 := cmpOp(op.LessThan, a, b)
	rlt, ok2 := cmpOp(op.LessThan, b, a)
	verifrt.Assert(ok1 && ok2, "numeric-types-are-mutually-comparable")
	verifrt.Assert(!(lt && rlt), "never-both-less")
	gt, _ := cmpOp(op.GreaterThan, a, b)
	verifrt.Assert(gt == rlt, "gt-mirrors-lt")
	verifrt.Reach("done")
}

// incomparable pairs give an error, not a panic, and never a verdict
func HarnessC15Incomparable() {
	ka, kb := verifrt.Choose(kFloat), verifrt.Choose(kFloat)
	a, b := c15Mk(ka), c15Mk(kb)
	numeric := func(k int) bool { return k == kInt || k == kByte }
	_, ok := cmpOp(op.LessThan, a, b)
	if ka == kb && ka != kNil {
		verifrt.Reach("same-kind")
		verifrt.Assert(ok, "same-kind-comparable")
	} else if !(numeric(ka) && numeric(kb)) && ka != kb {
		verifrt.Reach("mixed-kind")
		verifrt.Assert(!ok, "mixed-kinds-rejected-with-error")
	}
}

// ---- hashing: one set slot per ==-class within a type; membership agrees ----

func c15Hash(kind int) {
	a, b := c15Mk(kind), c15Mk(kind)
	ha, oka := a.(Hashable)
	hb, okb := b.(Hashable)
	if !oka || !okb {
		return
	}
	same := ha.HashKey() == hb.HashKey()
	verifrt.Assert(same == eqv(a, b), "hash-equal-iff-equal")
	s := NewSetWithSize(2)
	s.Add(a)
	s.Add(b)
	if eqv(a, b) {
		verifrt.Reach("equal")
		verifrt.Assert(s.Size() == 1, "equal-values-share-a-slot")
	} else {
		verifrt.Reach("distinct")
		verifrt.Assert(s.Size() == 2, "distinct-values-have-own-slots")
	}
	verifrt.Assert(s.Contains(a).value && s.Contains(b).value, "members-are-found")
	c := c15Mk(kind)
	verifrt.Assert(s.Contains(c).value == (eqv(c, a) || eqv(c, b)), "membership-iff-equal-to-a-member")
}

func HarnessC15HashAndSets() {
	kinds := []int{kBool, kInt, kByte, kString}
	c15Hash(kinds[verifrt.Choose(len(kinds))])
}
func HarnessC15HashAndSetsFP() { c15Hash(kFloat) }

// x in list <=> some element == x (mixed kinds)
func HarnessC15ListMembership() {
	n := verifrt.Choose(3)
	items := make([]Object, n)
	for i := range items {
		items[i] = c15Mk(verifrt.Choose(kFloat))
	}
	ls := NewList(items)
	x := c15Mk(verifrt.Choose(kFloat))
	want := false
	for _, it := range items {
		if eqv(it, x) {
			want = true
		}
	}
	verifrt.Assert(ls.Contains(x).value == want, "in-agrees-with-iterating")
	verifrt.Reach("done")
}

// ---- sorting: stable ordered permutation, idempotent ----

func c15Sort(kind int, maxN int) {
	n := verifrt.Choose(maxN + 1)
	items := make([]Object, n)
	for i := range items {
		items[i] = c15Mk(kind)
	}
	orig := append([]Object{}, items...)
	err := Sort(items)
	verifrt.Assert(err == nil, "sort-of-one-type-succeeds")
	// permutation by identity
	used := make([]bool, n)
	for _, it := range items {
		found := false
		for j, o := range orig {
			if !used[j] && o == it {
				used[j], found = true, true
				break
			}
		}
		verifrt.Assert(found, "sorted-is-a-permutation")
	}
	pos := func(o Object) int {
		for j, x := range orig {
			if x == o {
				return j
			}
		}
		return -1
	}
	for i := 0; i+1 < n; i++ {
		gt, _ := cmpOp(op.GreaterThan, items[i], items[i+1])
		verifrt.Assert(!gt, "no-inversion")
		if eqv(items[i], items[i+1]) {
			verifrt.Assert(pos(items[i]) < pos(items[i+1]), "stable")
		}
	}
	again := append([]Object{}, items...)
	Sort(again)
	for i := range items {
		verifrt.Assert(again[i] == items[i], "idempotent")
	}
	verifrt.Reach("done")
}

func HarnessC15SortInts() {
	maxN := 3
	if verifrt.Thorough() {
		maxN = 4
	}
	kinds := []int{kInt, kString, kByte}
	c15Sort(kinds[verifrt.Choose(len(kinds))], maxN)
}
func HarnessC15SortFloatsFP() { c15Sort(kFloat, 3) }

// ---- truthiness of containers <=> non-empty ----

func HarnessC15ContainerTruthiness() {
	n := verifrt.Choose(3)
	items := make([]Object, n)
	m := map[string]Object{}
	for i := range items {
		items[i] = &Int{value: verifrt.Int64()}
		m[string(rune('a'+i))] = items[i]
	}
	verifrt.Assert(NewList(items).IsTruthy() == (n != 0), "list")
	verifrt.Assert(NewMap(m).IsTruthy() == (n != 0), "map")
	set := NewSetWithSize(n)
	for _, it := range items {
		set.Add(it)
	}
	verifrt.Assert(set.IsTruthy() == (set.Size() != 0), "set")
	s := verifrt.String(n)
	verifrt.Assert(NewString(s).IsTruthy() == (n != 0), "string")
	verifrt.Assert(NewByteSlice([]byte(s)).IsTruthy() == (n != 0), "byte_slice")
	verifrt.Reach("done")
}

// HarnessC15SortStableLong: stability on inputs longer than the insertion-sort
// threshold of Go's sort package (12): pairs of equal keys that are
// distinguishable (Int k vs Float k) keep their order; two symbolic elements
// move through every position.
func HarnessC15SortStableLong() {
	n := 16
	if verifrt.Thorough() {
		n = 28
	}
	items := make([]Object, 0, n+2)
	for i := 0; i < n; i++ {
		k := int64((i * 7 % n) / 2) // scrambled keys, each twice
		if i%2 == 0 {
			items = append(items, &Int{value: k})
		} else {
			items = append(items, NewFloat(float64(k)))
		}
	}
	for j := 0; j < 2; j++ {
		v := verifrt.Int64()
		verifrt.Assume(verifrt.And(v >= -1, v <= int64(n/2)))
		pos := verifrt.Choose(3) * (n / 3)
		items = append(items[:pos], append([]Object{&Int{value: v}}, items[pos:]...)...)
	}
	orig := append([]Object{}, items...)
	err := Sort(items)
	verifrt.Assert(err == nil, "sort-succeeds")
	pos := func(o Object) int {
		for j, x := range orig {
			if x == o {
				return j
			}
		}
		return -1
	}
	for i := 0; i+1 < len(items); i++ {
		gt, _ := cmpOp(op.GreaterThan, items[i], items[i+1])
		verifrt.Assert(!gt, "no-inversion")
		if eqv(items[i], items[i+1]) {
			verifrt.Assert(pos(items[i]) < pos(items[i+1]), "stable-on-long-input")
		}
	}
	verifrt.Reach("done")
}

// HarnessC15ContainerEquality: equality of sets, maps and lists is symmetric
// and holds exactly when the contents are the same (C15 equality laws over
// containers).
func HarnessC15ContainerEquality() {
	switch verifrt.Choose(3) {
	case 0:
		s1, m1 := c16MkSet(2)
		s2, m2 := c16MkSet(2)
		same := len(m1) == len(m2)
		if same {
			for _, x := range m1 {
				if !c16Has(m2, x) {
					same = false
				}
			}
		}
		e12 := s1.Equals(s2) == True
		e21 := s2.Equals(s1) == True
		verifrt.Reach("sets")
		verifrt.Assert(e12 == e21, "set-equality-symmetric")
		verifrt.Assert(e12 == same, "sets-equal-iff-same-elements")
		verifrt.Assert(s1.Equals(s1) == True, "set-equals-itself")
	case 1:
		m1, k1 := c16MkMap(2)
		m2, k2 := c16MkMap(2)
		same := len(k1) == len(k2)
		if same {
			for _, e := range k1 {
				v2, ok := c16ModelGet(k2, e.k)
				if !ok || v2 != e.v {
					same = false
				}
			}
		}
		e12 := m1.Equals(m2) == True
		e21 := m2.Equals(m1) == True
		verifrt.Reach("maps")
		verifrt.Assert(e12 == e21, "map-equality-symmetric")
		verifrt.Assert(e12 == same, "maps-equal-iff-same-entries")
	case 2:
		n1, n2 := verifrt.Choose(3), verifrt.Choose(3)
		var a1, a2 []int64
		var i1, i2 []Object
		for i := 0; i < n1; i++ {
			v := verifrt.Int64()
			a1 = append(a1, v)
			i1 = append(i1, &Int{value: v})
		}
		for i := 0; i < n2; i++ {
			v := verifrt.Int64()
			a2 = append(a2, v)
			i2 = append(i2, &Int{value: v})
		}
		same := n1 == n2
		if same {
			for i := range a1 {
				if a1[i] != a2[i] {
					same = false
				}
			}
		}
		l1, l2 := NewList(i1), NewList(i2)
		e12 := l1.Equals(l2) == True
		e21 := l2.Equals(l1) == True
		verifrt.Reach("lists")
		verifrt.Assert(e12 == e21, "list-equality-symmetric")
		verifrt.Assert(e12 == same, "lists-equal-iff-same-items-in-order")
	}
}

// HarnessC15SetMembershipMixedNumericFP: x in set <=> some element == x, also
// when x and the elements are of different numeric types (int, byte, float).
func HarnessC15SetMembershipMixedNumericFP() {
	kinds := []int{kInt, kByte, kFloat}
	n := 1 + verifrt.Choose(2)
	s := NewSetWithSize(n)
	var elems []Object
	for i := 0; i < n; i++ {
		e := c15Mk(kinds[verifrt.Choose(len(kinds))])
		s.Add(e)
		elems = append(elems, e)
	}
	x := c15Mk(kinds[verifrt.Choose(len(kinds))])
	// ints beyond 2^53 compare with floats through a lossy conversion (== itself
	// is approximate there): outside this harness
	for _, o := range append(elems, x) {
		if iv, ok := o.(*Int); ok {
			verifrt.Assume(iv.value >= -(1<<53) && iv.value <= 1<<53)
		}
	}
	want := false
	for _, e := range elems {
		if eqv(e, x) {
			want = true
		}
	}
	verifrt.Reach("done")
	verifrt.Assert(s.Contains(x).value == want, "set-membership-agrees-with-iterating-and-comparing")
}
