//go:build verif

package builtins

import (
	"context"

	"github.com/risor-io/risor/compiler"
	"github.com/risor-io/risor/internal/verifrt"
	"github.com/risor-io/risor/object"
)

func c05Render(o object.Object) string {
	// a value-level rendering that keeps symbolic strings exact
	switch v := o.(type) {
	case *object.List:
		s := "["
		for _, it := range v.Value() {
			s += c05Render(it) + ","
		}
		return s + "]"
	case *object.String:
		return "s:" + v.Value()
	case *object.Int:
		return "i"
	case *object.Bool:
		if v.Value() {
			return "T"
		}
		return "F"
	case *object.Error:
		return "error"
	}
	return string(o.Type())
}

// HarnessC05BuiltinsOverMapsAndSets: builtins that traverse a map or set give
// the same result under every Go-map iteration order.
func HarnessC05BuiltinsOverMapsAndSets() {
	bg := context.Background()
	// a comparator under which everything ties: a stable sort must then keep
	// the (sorted) traversal order
	ctx := object.WithCallFunc(bg, func(ctx context.Context, fn *object.Function, args []object.Object) (object.Object, error) {
		return object.False, nil
	})
	cmp := object.NewFunction(compiler.NewFunction(compiler.FunctionOpts{ID: "1", Parameters: []string{"x", "y"}}))
	m := object.NewMap(map[string]object.Object{})
	set := object.NewSetWithSize(3)
	for i := 0; i < 3; i++ {
		k := verifrt.String(1)
		m.Set(k, object.NewInt(int64(i)))
		set.Add(object.NewString(k))
	}
	var arg object.Object = m
	if verifrt.Bool() {
		arg = set
	}
	which := verifrt.Choose(9)
	if which == 5 {
		// csv: keep the keys to letters (the csv writer's quoting decisions per
		// byte are not what is examined here)
		for _, k := range m.StringKeys() {
			verifrt.Assume(len(k) == 1 && k[0] >= 'a' && k[0] <= 'z')
		}
	}
	do := func() string {
		switch which {
		case 0:
			return c05Render(Sorted(ctx, arg, cmp))
		case 1:
			return c05Render(Sorted(ctx, arg))
		case 2:
			return c05Render(Keys(ctx, arg))
		case 3:
			return c05Render(List(ctx, arg))
		case 6:
			// a map / set nested in a list, printed
			return c05Render(String(ctx, object.NewList([]object.Object{arg, object.NewInt(1)})))
		case 7:
			// (printing through fmt verbs is not examined: the engine's fmt model
			// renders Go maps from its own ordered representation)
			return c05Render(String(ctx, arg))
		case 8:
			// a map nested in a map
			outer := object.NewMap(map[string]object.Object{"k": arg, "j": object.NewInt(2)})
			return c05Render(String(ctx, outer))
		case 5:
			// csv text of a list of maps: header and columns in a fixed order
			return c05Render(Encode(ctx, object.NewList([]object.Object{m, m}), object.NewString("csv")))
		}
		return c05Render(String(ctx, arg))
	}
	first := do()
	verifrt.MapOrderAll(true)
	second := do()
	verifrt.MapOrderAll(false)
	verifrt.Reach("compared")
	verifrt.Assert(verifrt.EqString(first, second), "builtin-result-independent-of-map-iteration-order")
}
