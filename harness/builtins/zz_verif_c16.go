//go:build verif

package builtins

import (
	"context"

	"github.com/risor-io/risor/compiler"
	"github.com/risor-io/risor/internal/verifrt"
	"github.com/risor-io/risor/object"
)

// HarnessC16ReadOnlyBuiltinsKeepTheirOperand (C16: read-only operations never
// mutate their operand; copies are independent of the original): every builtin
// that only reads a list leaves its items and their order untouched, and a list
// it returns does not share storage with the operand.
func HarnessC16ReadOnlyBuiltinsKeepTheirOperand() {
	bg := context.Background()
	// comparator for sorted(l, fn): descending by the int value
	ctx := object.WithCallFunc(bg, func(ctx context.Context, fn *object.Function, args []object.Object) (object.Object, error) {
		a, aok := args[0].(*object.Int)
		b, bok := args[1].(*object.Int)
		if !aok || !bok {
			return object.False, nil
		}
		return object.NewBool(a.Value() > b.Value()), nil
	})
	cmp := object.NewFunction(compiler.NewFunction(compiler.FunctionOpts{ID: "1", Parameters: []string{"x", "y"}}))
	n := 1 + verifrt.Choose(3)
	vals := make([]int64, n)
	items := make([]object.Object, n)
	for i := range items {
		vals[i] = verifrt.Int64()
		items[i] = object.NewInt(vals[i])
	}
	l := object.NewList(items)
	var res object.Object
	name := ""
	switch verifrt.Choose(12) {
	case 0:
		name, res = "sorted", Sorted(ctx, l)
	case 1:
		name, res = "sorted-with-function", Sorted(ctx, l, cmp)
	case 2:
		name, res = "reversed", Reversed(ctx, l)
	case 3:
		name, res = "list", List(ctx, l)
	case 4:
		name, res = "set", Set(ctx, l)
	case 5:
		name, res = "len", Len(ctx, l)
	case 6:
		name, res = "any", Any(ctx, l)
	case 7:
		name, res = "all", All(ctx, l)
	case 8:
		name, res = "string", String(ctx, l)
	case 9:
		name, res = "iter", Iter(ctx, l)
	case 10:
		name, res = "chunk", Chunk(ctx, l, object.NewInt(2))
	case 11:
		name, res = "keys", Keys(ctx, l)
	}
	verifrt.Reach("called")
	now := l.Value()
	verifrt.Assert(len(now) == n, "operand-length-unchanged:"+name)
	if len(now) == n {
		for i := range now {
			iv, ok := now[i].(*object.Int)
			verifrt.Assert(ok && iv.Value() == vals[i], "operand-items-unchanged:"+name)
		}
	}
	if rl, ok := res.(*object.List); ok && len(rl.Value()) > 0 && n > 0 {
		verifrt.Assert(!verifrt.SameBacking(rl.Value(), now), "result-does-not-share-storage-with-the-operand:"+name)
		// mutating the result must not show through the operand
		rl.Value()[0] = object.NewInt(0)
		rl.Append(object.NewInt(1))
		iv, ok := l.Value()[0].(*object.Int)
		verifrt.Assert(len(l.Value()) == n && ok && iv.Value() == vals[0], "result-is-independent-of-the-operand:"+name)
	}
}
