//go:build verif

package builtins

import (
	"context"

	"github.com/risor-io/risor/internal/verifrt"
	"github.com/risor-io/risor/object"
)

func c19Bytes(o object.Object) ([]byte, bool) {
	switch v := o.(type) {
	case *object.ByteSlice:
		return v.Value(), true
	case *object.String:
		return []byte(v.Value()), true
	}
	return nil, false
}

func c19Same(a, b []byte) bool {
	if len(a) != len(b) {
		return false
	}
	ok := true
	for i := range a {
		ok = verifrt.And(ok, a[i] == b[i])
	}
	return ok
}

// decode(encode(x)) == x for every byte string up to N bytes.
func c19RoundTrip(name string, maxN int, asString bool) {
	ctx := context.Background()
	n := verifrt.Choose(maxN + 1)
	data := verifrt.Bytes(n)
	var in object.Object = object.NewByteSlice(append([]byte{}, data...))
	if asString {
		in = object.NewString(string(data))
	}
	enc := Encode(ctx, in, object.NewString(name))
	verifrt.Assert(!object.IsError(enc), "encode-accepts-every-input")
	if object.IsError(enc) {
		return
	}
	dec := Decode(ctx, enc, object.NewString(name))
	verifrt.Assert(!object.IsError(dec), "decode-accepts-encoder-output")
	if object.IsError(dec) {
		return
	}
	got, ok := c19Bytes(dec)
	verifrt.Assert(ok, "decode-returns-bytes-or-string")
	verifrt.Assert(c19Same(got, data), "decode-inverts-encode")
	verifrt.Reach("round-trip")
}

func c19N(q, t int) int {
	if verifrt.Thorough() {
		return t
	}
	return q
}

func HarnessC19CodecHexRoundTrip()      { c19RoundTrip("hex", c19N(3, 6), false) }
func HarnessC19CodecBase64RoundTrip()   { c19RoundTrip("base64", c19N(3, 6), false) }
func HarnessC19CodecBase32RoundTrip()   { c19RoundTrip("base32", c19N(3, 5), false) }
func HarnessC19CodecUrlQueryRoundTrip() { c19RoundTrip("urlquery", c19N(2, 3), true) }

// decode of arbitrary text never panics; accepted text is stable under
// decode(encode(.)); text outside the alphabet or of impossible length is rejected.
func c19DecodeArbitrary(name string, maxN int, validByte func(byte) bool, validLen func(int) bool) {
	ctx := context.Background()
	n := verifrt.Choose(maxN + 1)
	text := verifrt.Bytes(n)
	dec := Decode(ctx, object.NewByteSlice(append([]byte{}, text...)), object.NewString(name))
	if object.IsError(dec) {
		verifrt.Reach("rejected")
		return
	}
	verifrt.Reach("accepted")
	got, ok := c19Bytes(dec)
	verifrt.Assert(ok, "decode-returns-bytes")
	if validLen != nil {
		verifrt.Assert(validLen(n), "impossible-length-rejected")
	}
	if validByte != nil {
		for _, b := range text {
			verifrt.Assert(validByte(b), "byte-outside-alphabet-rejected")
		}
	}
	enc := Encode(ctx, object.NewByteSlice(append([]byte{}, got...)), object.NewString(name))
	verifrt.Assert(!object.IsError(enc), "re-encode-succeeds")
	if object.IsError(enc) {
		return
	}
	dec2 := Decode(ctx, enc, object.NewString(name))
	got2, ok2 := c19Bytes(dec2)
	verifrt.Assert(ok2 && c19Same(got2, got), "decode-encode-decode-stable")
}

func isHex(b byte) bool {
	return verifrt.Or(verifrt.Or(verifrt.And(b >= '0', b <= '9'), verifrt.And(b >= 'a', b <= 'f')), verifrt.And(b >= 'A', b <= 'F'))
}

func isB64(b byte) bool {
	alnum := verifrt.Or(verifrt.Or(verifrt.And(b >= '0', b <= '9'), verifrt.And(b >= 'a', b <= 'z')), verifrt.And(b >= 'A', b <= 'Z'))
	// '\r' and '\n' are skipped by Go's decoder (documented)
	return verifrt.Or(verifrt.Or(alnum, verifrt.Or(b == '+', b == '/')), verifrt.Or(b == '=', verifrt.Or(b == '\r', b == '\n')))
}

func HarnessC19CodecHexDecodeArbitrary() {
	c19DecodeArbitrary("hex", c19N(3, 4), isHex, func(n int) bool { return n%2 == 0 })
}

func HarnessC19CodecBase64DecodeArbitrary() {
	c19DecodeArbitrary("base64", c19N(3, 4), isB64, nil)
}
