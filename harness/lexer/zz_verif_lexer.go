//go:build verif

package lexer

import (
	"github.com/risor-io/risor/internal/verifrt"
	"github.com/risor-io/risor/token"
)

func lexN() int {
	if verifrt.Thorough() {
		return 4
	}
	return 3
}

// validRune: the runes []rune(s) can contain for any string s.
func validRune(r rune) bool {
	return verifrt.And(verifrt.And(r >= 0, r <= 0x10FFFF), verifrt.Or(r < 0xD800, r > 0xDFFF))
}

// newFromRunes mirrors New(string(runes)) for valid runes without the
// encode/decode round trip (which is the identity on valid runes).
func newFromRunes(rs []rune) *Lexer {
	l := &Lexer{characters: rs, column: -1, position: -1, nextPosition: 0}
	l.readChar()
	return l
}

func symRunes(n int) []rune {
	rs := make([]rune, n)
	for i := range rs {
		rs[i] = verifrt.Rune()
		verifrt.Assume(validRune(rs[i]))
	}
	return rs
}

// checkToken asserts the position invariants of C20-1 for a token the lexer produced.
func checkToken(l *Lexer, rs []rune, tok token.Token) {
	n := len(rs)
	s, e := tok.StartPosition, tok.EndPosition
	verifrt.Assert(s.Char >= 0 && s.Char <= n, "start-char-in-text")
	if !(s.Char >= 0 && s.Char <= n) {
		return
	}
	// line = number of '\n' before the token, LineStart follows the last of them
	line, lineStart := 0, 0
	for i := 0; i < s.Char && i < n; i++ {
		if rs[i] == '\n' {
			line++
			lineStart = i + 1
		}
	}
	verifrt.Assert(s.Line == line, "start-line-counts-newlines")
	verifrt.Assert(s.LineStart == lineStart, "start-linestart-follows-newline")
	verifrt.Assert(s.Column == s.Char-s.LineStart, "start-column-is-offset-in-line")
	verifrt.Assert(e.Char >= s.Char && e.Line >= s.Line, "end-not-before-start")
	// the token starts where its text starts
	if tok.Type != token.EOF && s.Char < n {
		first := rs[s.Char]
		verifrt.Assert(first != ' ' && first != '\t', "start-not-on-blank")
		switch tok.Type {
		case token.STRING, token.FSTRING, token.BACKTICK, token.NEWLINE, token.INT, token.FLOAT:
		case token.IDENT:
			lit := []rune(tok.Literal)
			verifrt.Assert(len(lit) > 0 && lit[0] == first, "start-at-first-rune-of-literal")
		default:
			if len(tok.Literal) > 0 && tok.Literal[0] < 0x80 {
				verifrt.Assert(rune(tok.Literal[0]) == first, "start-at-first-rune-of-literal")
			}
		}
	}
	// GetLineText returns the line containing the token start, and never panics
	text := l.GetLineText(tok)
	if tok.Type != token.EOF {
		end := lineStart
		for end < n && rs[end] != '\n' {
			end++
		}
		want := rs[lineStart:end]
		got := []rune(text)
		same := len(got) == len(want)
		if same {
			for i := range want {
				same = verifrt.And(same, got[i] == want[i])
			}
		}
		verifrt.Assert(same, "line-text-is-the-source-line")
	}
}

// HarnessC03LexerAllInputs: every rune string of length <= N. No Go panic
// from New/Next/GetLineText; C20-1 position invariants on every token.
func HarnessC03LexerAllInputs() {
	n := verifrt.Choose(lexN() + 1)
	rs := symRunes(n)
	l := newFromRunes(rs)
	for i := 0; i < n+2; i++ {
		tok, err := l.Next()
		if err != nil {
			verifrt.Reach("lex-error")
			return
		}
		checkToken(l, rs, tok)
		if tok.Type == token.EOF {
			verifrt.Reach("eof")
			return
		}
	}
	verifrt.Fail("lexer-makes-progress")
}

// HarnessC03LexerPublicAPI: the same through lexer.New on raw bytes (invalid
// UTF-8 included), shorter bound because decoding forks on byte classes.
func HarnessC03LexerPublicAPI() {
	n := verifrt.Choose(3)
	src := verifrt.String(n)
	l := New(src)
	for i := 0; i < n+2; i++ {
		tok, err := l.Next()
		if err != nil {
			verifrt.Reach("lex-error")
			return
		}
		_ = l.GetLineText(tok)
		if tok.Type == token.EOF {
			verifrt.Reach("eof")
			return
		}
	}
	verifrt.Fail("lexer-makes-progress")
}
