//go:build verif

package lexer

import (
	"github.com/risor-io/risor/internal/verifrt"
	"github.com/risor-io/risor/token"
)

func lexN() int {
	if verifrt.Thorough() {
		return 3
	}
	return 2
}

// validRune: the runes []rune(s) can contain for any string s.
func validRune(r rune) bool {
	return verifrt.And(verifrt.And(r >= 0, r <= 0x10FFFF), verifrt.Or(r < 0xD800, r > 0xDFFF))
}

// newFromRunes mirrors New(string(runes)) for valid runes without the
// encode/decode round trip (which is the identity on valid runes).
func newFromRunes(rs []rune) *Lexer {
	l := &Lexer{characters: rs, column: -1, position: -1, nextPosition: 0}
	l.readChar()
	return l
}

func symRunes(n int) []rune {
	rs := make([]rune, n)
	for i := range rs {
		rs[i] = verifrt.Rune()
		verifrt.Assume(validRune(rs[i]))
	}
	return rs
}

// checkToken asserts the position invariants of C20-1 for a token the lexer produced.
func checkToken(l *Lexer, rs []rune, tok token.Token) {
	n := len(rs)
	s, e := tok.StartPosition, tok.EndPosition
	verifrt.Assert(s.Char >= 0 && s.Char <= n, "start-char-in-text")
	if !(s.Char >= 0 && s.Char <= n) {
		return
	}
	// line = number of '\n' before the token, LineStart follows the last of them
	line, lineStart := 0, 0
	for i := 0; i < s.Char && i < n; i++ {
		if rs[i] == '\n' {
			line++
			lineStart = i + 1
		}
	}
	verifrt.Assert(s.Line == line, "start-line-counts-newlines")
	verifrt.Assert(s.LineStart == lineStart, "start-linestart-follows-newline")
	verifrt.Assert(s.Column == s.Char-s.LineStart, "start-column-is-offset-in-line")
	verifrt.Assert(e.Char >= s.Char && e.Line >= s.Line, "end-not-before-start")
	// the token starts where its text starts
	if tok.Type != token.EOF && s.Char < n {
		first := rs[s.Char]
		verifrt.Assert(first != ' ' && first != '\t', "start-not-on-blank")
		switch tok.Type {
		case token.STRING, token.FSTRING, token.BACKTICK, token.NEWLINE, token.INT, token.FLOAT:
		case token.IDENT:
			lit := []rune(tok.Literal)
			verifrt.Assert(len(lit) > 0 && lit[0] == first, "start-at-first-rune-of-literal")
		default:
			if len(tok.Literal) > 0 && tok.Literal[0] < 0x80 {
				verifrt.Assert(rune(tok.Literal[0]) == first, "start-at-first-rune-of-literal")
			}
		}
	}
	// GetLineText returns the line containing the token start, and never panics
	text := l.GetLineText(tok)
	if tok.Type != token.EOF {
		end := lineStart
		for end < n && rs[end] != '\n' {
			end++
		}
		want := rs[lineStart:end]
		got := []rune(text)
		same := len(got) == len(want)
		if same {
			for i := range want {
				same = verifrt.And(same, got[i] == want[i])
			}
		}
		verifrt.Assert(same, "line-text-is-the-source-line")
	}
}

// HarnessC03LexerAllInputs: every rune string of length <= N. No Go panic
// from New/Next/GetLineText; C20-1 position invariants on every token.
func HarnessC03LexerAllInputs() {
	n := verifrt.Choose(lexN() + 1)
	rs := symRunes(n)
	l := newFromRunes(rs)
	for i := 0; i < n+2; i++ {
		tok, err := l.Next()
		if err != nil {
			verifrt.Reach("lex-error")
			return
		}
		checkToken(l, rs, tok)
		if tok.Type == token.EOF {
			verifrt.Reach("eof")
			return
		}
	}
	verifrt.Fail("lexer-makes-progress")
}

// HarnessC03LexerPublicAPI: the same through lexer.New on raw bytes (invalid
// UTF-8 included), shorter bound because decoding forks on byte classes.
func HarnessC03LexerPublicAPI() {
	n := verifrt.Choose(3)
	src := verifrt.String(n)
	l := New(src)
	for i := 0; i < n+2; i++ {
		tok, err := l.Next()
		if err != nil {
			verifrt.Reach("lex-error")
			return
		}
		_ = l.GetLineText(tok)
		if tok.Type == token.EOF {
			verifrt.Reach("eof")
			return
		}
	}
	verifrt.Fail("lexer-makes-progress")
}

// ---- C20-2: layout at token gaps never changes the token stream ----

type lexed struct {
	kinds  []token.Type
	lits   []string
	starts []int
	ends   []int
	ok     bool
}

func lexAll(rs []rune, check bool) lexed {
	var out lexed
	l := newFromRunes(rs)
	for i := 0; i < len(rs)+2; i++ {
		tok, err := l.Next()
		if err != nil {
			return out
		}
		if check {
			checkToken(l, rs, tok)
		}
		out.kinds = append(out.kinds, tok.Type)
		out.lits = append(out.lits, tok.Literal)
		out.starts = append(out.starts, tok.StartPosition.Char)
		out.ends = append(out.ends, tok.EndPosition.Char)
		if tok.Type == token.EOF {
			out.ok = true
			return out
		}
	}
	return out
}

var c20Fillers = []string{" ", "\t", "  ", "/**/", "/*x*/", "/* * / */", " /**/ ", "/**//**/", "/*a*/ /*b*/", "/*\n*/"}

func insertRunes(rs []rune, at int, filler string) []rune {
	out := make([]rune, 0, len(rs)+len(filler))
	out = append(out, rs[:at]...)
	out = append(out, []rune(filler)...)
	return append(out, rs[at:]...)
}

func sameTokens(a, b lexed) bool {
	if !b.ok || len(a.kinds) != len(b.kinds) {
		return false
	}
	same := true
	for i := range a.kinds {
		if a.kinds[i] != b.kinds[i] {
			return false
		}
		same = verifrt.And(same, verifrt.EqString(a.lits[i], b.lits[i]))
	}
	return same
}

// c20Alphabet: the characters that matter to the lexer's layout handling.
var c20Alphabet = []rune{'a', '1', ' ', '\n', '\r', '\t', '/', '*', '#', '"', '\'', '`', '=', '|', '.'}

// c20Runes: up to two fully symbolic runes; three runes (thorough tier) are
// drawn from c20Alphabet, because the full rune domain at that length does not
// finish within the path budget.
func c20Runes(n int) []rune {
	if n < 3 {
		return symRunes(n)
	}
	rs := make([]rune, n)
	for i := range rs {
		rs[i] = c20Alphabet[verifrt.Choose(len(c20Alphabet))]
	}
	return rs
}

// HarnessC20LexLayoutGaps: blanks and block comments inserted at any token
// start leave token kinds and literals unchanged, and the re-laid-out text
// still satisfies the position invariants.
func HarnessC20LexLayoutGaps() {
	maxN := 2
	if verifrt.Thorough() {
		maxN = 3
	}
	n := verifrt.Choose(maxN + 1)
	rs := c20Runes(n)
	orig := lexAll(rs, false)
	if !orig.ok {
		verifrt.Reach("opt:original-rejected")
		return
	}
	gi := verifrt.Choose(len(orig.starts))
	g := orig.starts[gi]
	if g > n {
		g = n
	}
	filler := c20Fillers[verifrt.Choose(len(c20Fillers))]
	if filler[0] == '/' && g > 0 && rs[g-1] == '/' {
		// "/" followed by "/*" would read as a line comment: not a layout change
		return
	}
	{
		// the filler must land between tokens, not inside a comment of the
		// original text: require only blanks between the previous token and the gap
		from := 0
		if gi > 0 {
			from = orig.ends[gi-1] + 1
		}
		for i := from; i < g && i < n; i++ {
			if rs[i] != ' ' && rs[i] != '\t' {
				return
			}
		}
	}
	mod := insertRunes(rs, g, filler)
	again := lexAll(mod, true)
	verifrt.Reach("compared")
	verifrt.Assert(sameTokens(orig, again), "filler-at-token-gap-keeps-tokens")
}

// HarnessC20LexLineComments: a line comment before a newline / at the end,
// a blank line, and CRLF instead of LF keep the token kinds.
func HarnessC20LexLineComments() {
	maxN := 2
	if verifrt.Thorough() {
		maxN = 3
	}
	n := verifrt.Choose(maxN + 1)
	rs := c20Runes(n)
	orig := lexAll(rs, false)
	if !orig.ok {
		verifrt.Reach("opt:original-rejected")
		return
	}
	switch verifrt.Choose(3) {
	case 0: // comment appended at the end of a line (before a NEWLINE token or EOF)
		k := verifrt.Choose(len(orig.kinds))
		if orig.kinds[k] != token.NEWLINE && orig.kinds[k] != token.EOF {
			return
		}
		// a lone CR is outside the claim (the statement speaks of LF and CRLF)
		if orig.kinds[k] == token.NEWLINE && orig.lits[k] == "\r" {
			return
		}
		g := orig.starts[k]
		if g > n {
			g = n
		}
		// the comment is separated from the preceding token by a blank
		cm := []string{" # c", " // c", " #", " //"}[verifrt.Choose(4)]
		again := lexAll(insertRunes(rs, g, cm), true)
		verifrt.Reach("line-comment")
		ok := again.ok && len(again.kinds) == len(orig.kinds)
		if ok {
			for i := range orig.kinds {
				if orig.kinds[i] != again.kinds[i] {
					ok = false
				} else if orig.kinds[i] != token.NEWLINE {
					ok = verifrt.And(ok, verifrt.EqString(orig.lits[i], again.lits[i]))
				}
			}
		}
		verifrt.Assert(ok, "line-comment-keeps-tokens")
	case 1: // CRLF for LF: same kinds (NEWLINE literals differ)
		for _, k := range orig.kinds {
			// newlines inside string tokens are data, not layout
			if k == token.STRING || k == token.FSTRING || k == token.BACKTICK {
				return
			}
		}
		var mod []rune
		for _, r := range rs {
			if r == '\r' {
				return // text that already contains CR is outside the LF -> CRLF claim
			}
			if r == '\n' {
				mod = append(mod, '\r', '\n')
			} else {
				mod = append(mod, r)
			}
		}
		again := lexAll(mod, true)
		verifrt.Reach("crlf")
		ok := again.ok && len(again.kinds) == len(orig.kinds)
		if ok {
			for i := range orig.kinds {
				if orig.kinds[i] != again.kinds[i] {
					ok = false
				}
			}
		}
		verifrt.Assert(ok, "crlf-keeps-token-kinds")
	case 2: // leading blanks before the first token
		again := lexAll(insertRunes(rs, 0, " \t"), true)
		verifrt.Reach("leading-blanks")
		verifrt.Assert(sameTokens(orig, again), "leading-blanks-keep-tokens")
	}
}
