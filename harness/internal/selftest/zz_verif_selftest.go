//go:build verif

// Package selftest holds harnesses that exercise the engine itself (task model).
package selftest

import (
	"sync"

	"github.com/risor-io/risor/internal/verifrt"
)

// HarnessC10EngineChannelsSelfTest: plain Go producer/consumer over buffered and
// unbuffered channels under every schedule: FIFO per sender, nothing lost.
func HarnessC10EngineChannelsSelfTest() {
	capacity := verifrt.Choose(3)
	ch := make(chan int64, capacity)
	a, b := verifrt.Int64(), verifrt.Int64()
	var wg sync.WaitGroup
	wg.Add(1)
	go func() {
		defer wg.Done()
		ch <- a
		ch <- b
		close(ch)
	}()
	var got []int64
	for v := range ch {
		got = append(got, v)
	}
	wg.Wait()
	verifrt.Assert(len(got) == 2, "both-values-arrive")
	if len(got) == 2 {
		verifrt.Assert(got[0] == a && got[1] == b, "fifo-order")
	}
	verifrt.Reach("done")
}
