//go:build verif

// Package verifrt is the harness runtime. Under the symbolic engine every
// function here is intercepted; compiled natively the functions read a replay
// vector (the solver's model) so the same harness source is the replay test.
package verifrt

import (
	"encoding/hex"
	"encoding/json"
	"fmt"
	"math"
	"os"
	"path/filepath"
	"runtime"
	"strconv"
	"time"
)

type Item struct {
	K string `json:"k"`
	V string `json:"v"`
}

type Violation struct{ Label string }

func (v Violation) Error() string { return "VERIF-ASSERT-FAIL " + v.Label }

// Infeasible is raised when a replayed vector violates an assumption.
type Infeasible struct{}

var (
	vector   []Item
	pos      int
	Observed []string
	Reached  []string
	Failed   []string
	// ContinueOnFail makes Assert record failures instead of panicking.
	ContinueOnFail bool
)

func Load(items []Item) {
	vector = items
	pos = 0
	Observed = nil
	Reached = nil
	Failed = nil
}

func LoadFile(path string) error {
	b, err := os.ReadFile(path)
	if err != nil {
		return err
	}
	var items []Item
	if err := json.Unmarshal(b, &items); err != nil {
		return err
	}
	Load(items)
	return nil
}

func next(kind string) string {
	if pos >= len(vector) {
		panic(fmt.Sprintf("verifrt: replay vector exhausted (want %s at %d)", kind, pos))
	}
	it := vector[pos]
	pos++
	if it.K != kind {
		panic(fmt.Sprintf("verifrt: replay vector kind mismatch at %d: have %s want %s", pos-1, it.K, kind))
	}
	return it.V
}

func sint(kind string, bits int) int64 {
	v, err := strconv.ParseInt(next(kind), 10, bits)
	if err != nil {
		panic(err)
	}
	return v
}

func uint_(kind string, bits int) uint64 {
	v, err := strconv.ParseUint(next(kind), 10, bits)
	if err != nil {
		panic(err)
	}
	return v
}

func Bool() bool     { return next("bool") == "true" }
func Int64() int64   { return sint("i64", 64) }
func Int() int       { return int(sint("i64", 64)) }
func Int32() int32   { return int32(sint("i32", 32)) }
func Int16() int16   { return int16(sint("i16", 16)) }
func Int8() int8     { return int8(sint("i8", 8)) }
func Rune() rune     { return rune(sint("i32", 32)) }
func Uint8() uint8   { return uint8(uint_("u8", 8)) }
func Uint16() uint16 { return uint16(uint_("u16", 16)) }
func Uint32() uint32 { return uint32(uint_("u32", 32)) }
func Uint64() uint64 { return uint_("u64", 64) }
func Uint() uint     { return uint(uint_("u64", 64)) }

func Float64() float64 {
	v, err := strconv.ParseUint(next("f64"), 0, 64)
	if err != nil {
		panic(err)
	}
	return math.Float64frombits(v)
}

func Float32() float32 {
	v, err := strconv.ParseUint(next("f32"), 0, 32)
	if err != nil {
		panic(err)
	}
	return math.Float32frombits(uint32(v))
}

func Bytes(n int) []byte {
	b, err := hex.DecodeString(next("bytes"))
	if err != nil {
		panic(err)
	}
	if len(b) != n {
		panic(fmt.Sprintf("verifrt: bytes length %d want %d", len(b), n))
	}
	return b
}

func String(n int) string { return string(Bytes(n)) }

// Choose returns a value in [0,n).
func Choose(n int) int {
	v := int(sint("choose", 64))
	if v < 0 || v >= n {
		panic(Infeasible{})
	}
	return v
}

func Assume(b bool) {
	if !b {
		panic(Infeasible{})
	}
}

func Assert(b bool, label string) {
	if !b {
		Failed = append(Failed, label)
		if !ContinueOnFail {
			panic(Violation{label})
		}
	}
}

func Fail(label string) { Assert(false, label) }

func Reach(label string) { Reached = append(Reached, label) }

func And(a, b bool) bool     { return a && b }
func Or(a, b bool) bool      { return a || b }
func Not(a bool) bool        { return !a }
func Implies(a, b bool) bool { return !a || b }

func IteInt(c bool, a, b int64) int64 {
	if c {
		return a
	}
	return b
}

// MapOrderAll asks the engine to explore every iteration order of Go maps.
func MapOrderAll(on bool) {}

func ObserveInt(label string, v int64) { Observed = append(Observed, fmt.Sprintf("%s=%d", label, v)) }
func ObserveBool(label string, v bool) { Observed = append(Observed, fmt.Sprintf("%s=%v", label, v)) }
func ObserveString(label string, v string) {
	Observed = append(Observed, fmt.Sprintf("%s=%q", label, v))
}

// Symbolic reports whether the harness runs under the engine.
func Symbolic() bool { return false }

func EqString(a, b string) bool { return a == b }

// SameBacking reports whether two slices share a backing array end.
func SameBacking[T any](a, b []T) bool {
	if cap(a) == 0 || cap(b) == 0 {
		return false
	}
	fa, fb := a[:cap(a)], b[:cap(b)]
	return &fa[len(fa)-1] == &fb[len(fb)-1]
}

// ---- tiers ----

var thorough bool

// Thorough reports whether the thorough tier is running (concrete in the engine).
func Thorough() bool { return thorough }

// ---- native replay driver ----

type Case struct {
	Harness  string `json:"harness"`
	Vector   []Item `json:"vector"`
	Thorough bool   `json:"thorough"`
	Repeat   int    `json:"repeat"`
	ID       string `json:"id"`
}

type Outcome struct {
	ID         string   `json:"id"`
	Harness    string   `json:"harness"`
	Failed     []string `json:"failed"`
	Panic      string   `json:"panic"`
	Infeasible bool     `json:"infeasible"`
	Observed   []string `json:"observed"`
	Reached    []string `json:"reached"`
	Runs       int      `json:"runs"`
	Missing    bool     `json:"missing"`
}

func runOne(h func(), c Case) (o Outcome) {
	o.ID, o.Harness = c.ID, c.Harness
	Load(c.Vector)
	thorough = c.Thorough
	ContinueOnFail = false
	defer func() {
		o.Observed, o.Reached, o.Failed = Observed, Reached, Failed
		if r := recover(); r != nil {
			switch x := r.(type) {
			case Violation:
			case Infeasible:
				o.Infeasible = true
			case error:
				o.Panic = x.Error()
				if o.Panic == "" {
					o.Panic = "error"
				}
			default:
				o.Panic = fmt.Sprint(x)
				if o.Panic == "" {
					o.Panic = "panic"
				}
			}
		}
	}()
	h()
	return
}

// ReplayMain runs the cases in $VERIF_REPLAY_IN and writes outcomes to $VERIF_REPLAY_OUT.
func ReplayMain(harnesses map[string]func()) error {
	in, out := os.Getenv("VERIF_REPLAY_IN"), os.Getenv("VERIF_REPLAY_OUT")
	if in == "" {
		return nil
	}
	b, err := os.ReadFile(in)
	if err != nil {
		return err
	}
	var cases []Case
	if err := json.Unmarshal(b, &cases); err != nil {
		return err
	}
	var outs []Outcome
	for _, c := range cases {
		h, ok := harnesses[c.Harness]
		if !ok {
			outs = append(outs, Outcome{ID: c.ID, Harness: c.Harness, Missing: true})
			continue
		}
		n := c.Repeat
		if n < 1 {
			n = 1
		}
		var o Outcome
		for i := 0; i < n; i++ {
			o = runOne(h, c)
			o.Runs = i + 1
			if len(o.Failed) > 0 || o.Panic != "" {
				break
			}
		}
		outs = append(outs, o)
	}
	ob, _ := json.MarshalIndent(outs, "", " ")
	if out == "" {
		fmt.Println(string(ob))
		return nil
	}
	return os.WriteFile(out, ob, 0644)
}

// Seed returns VERIF_SEED (concrete in the engine), for rotating subsets.
func Seed() int { return seed }

var seed int

func init() {
	if s := os.Getenv("VERIF_SEED"); s != "" {
		seed, _ = strconv.Atoi(s)
	}
}

// TrappedStrings returns, under the engine, the string arguments of every
// real-OS function (Go os/syscall/...) that was reached on this path. Natively
// it returns nil: the harness then observes real effects instead.
func TrappedStrings() []string { return nil }

// ExpectTraps tells the engine that this harness reaches real-OS functions on
// purpose (it inspects their arguments with TrappedStrings).
func ExpectTraps() {}

// ---- tasks (engine: coroutines with exhaustive scheduling; native: real goroutines) ----

// Yield is a synchronisation point.
func Yield() { runtime.Gosched() }

// AtYield arranges for f to run at the k-th synchronisation point from now
// (engine). Natively f runs from another goroutine after a short delay
// proportional to k: the instant is not reproduced, only the event.
func AtYield(k int, f func()) {
	go func() {
		time.Sleep(time.Duration(k) * 20 * time.Microsecond)
		f()
	}()
}

// Quiesce lets every other task run until it finishes or blocks.
func Quiesce() { time.Sleep(30 * time.Millisecond) }

// SchedBounds sets the engine's preemption bound and fairness limit.
func SchedBounds(maxPreemptions, fairLimit int) {}

// Yields returns the number of synchronisation points passed so far (engine).
func Yields() int { return 0 }

// QuiesceSteps lets the other tasks run for at most n synchronisation points
// (engine); natively it waits a moment.
func QuiesceSteps(n int) { time.Sleep(30 * time.Millisecond) }

// MustTerminate declares that the code run until Terminated() must finish within
// `steps` interpreted SSA steps; under the engine, running out of steps is then a
// counterexample with this label (non-termination) instead of an unwinding
// failure. Natively use RunWithDeadline.
func MustTerminate(label string, steps int) {}

// Terminated ends the region started by MustTerminate.
func Terminated() {}

// RunWithDeadline runs f; natively it fails the assertion `label` when f has not
// returned after d (the goroutine is abandoned). Under the engine f is simply
// called inside a MustTerminate region.
func RunWithDeadline(label string, steps int, d time.Duration, f func()) {
	if Symbolic() {
		MustTerminate(label, steps)
		f()
		Terminated()
		return
	}
	done := make(chan struct{})
	var pv interface{}
	go func() {
		defer func() { pv = recover(); close(done) }()
		f()
	}()
	select {
	case <-done:
		if pv != nil {
			panic(pv)
		}
	case <-time.After(d):
		Assert(false, label)
	}
}

// TempDirWithFiles creates a directory holding the given files (name ->
// content) and returns its path. Natively it is a real temporary directory; in
// the engine the files live in memory and os.ReadFile of a path inside the
// returned directory is served from them.
func TempDirWithFiles(files map[string]string) string {
	dir, err := os.MkdirTemp("", "verifvfs")
	if err != nil {
		panic(err)
	}
	for name, content := range files {
		full := filepath.Join(dir, name)
		os.MkdirAll(filepath.Dir(full), 0o755)
		if err := os.WriteFile(full, []byte(content), 0o644); err != nil {
			panic(err)
		}
	}
	return dir
}

// RemoveTempDir removes a directory made by TempDirWithFiles (native only).
func RemoveTempDir(dir string) { os.RemoveAll(dir) }

// SchedPreemptBeforeChanOps adds a preemption point right before every channel
// operation (besides the one after it), so that another task can run between
// an observation such as len(ch) and the send or receive that relies on it.
func SchedPreemptBeforeChanOps(on bool) {}

// Concretize makes the engine fork over the feasible values of n here (each
// path continues with a concrete n). Natively it is the identity.
func Concretize(n int) int { return n }

// BigChoose is Choose(n) for large n: two nested small choices, so that the
// engine's chain of value decisions stays short.
func BigChoose(n int) int {
	const w = 20
	hi := Concretize(Choose((n + w - 1) / w))
	lo := Concretize(Choose(w))
	idx := hi*w + lo
	Assume(idx < n)
	return idx
}

// RaceDetect turns on the engine's happens-before race detector for the rest
// of the path: two conflicting accesses to an interpreted heap cell or Go map
// by different tasks that are not ordered by the modelled synchronisation are
// a failure of label. Natively it does nothing: the replay binary of a
// race-mode harness is built with -race and the Go race detector is the oracle.
func RaceDetect(label string) {}

// SchedPreemptAtLoads makes every atomic load (for the risor VM: every
// instruction boundary) a voluntary preemption point in the engine.
func SchedPreemptAtLoads(on bool) {}
