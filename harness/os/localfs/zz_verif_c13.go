//go:build verif

package localfs

import (
	"context"
	"io"
	"os"
	"path/filepath"
	"sort"
	"strings"

	"github.com/risor-io/risor/internal/verifrt"
)

// HarnessC13LocalFSConfinement: every Filesystem method resolves every path
// argument inside the base. Under the engine Go's os functions are traps whose
// path arguments are checked; natively (replay) the same harness runs against a
// temporary tree with a sentinel outside the base and checks that the outside is
// neither read nor changed.
func HarnessC13LocalFSConfinement() {
	maxN := 4
	if verifrt.Thorough() {
		maxN = 5
	}
	n := verifrt.Choose(maxN + 1)
	p := verifrt.String(n)
	op := verifrt.Choose(18)
	// also: absolute host paths that begin with the base's own path and then
	// leave it ("<base>/../s", "<base>2/x")
	baseRelative := false
	if n <= 3 && verifrt.Bool() {
		baseRelative = true
	}

	base, parent := "/base", ""
	native := !verifrt.Symbolic()
	verifrt.ExpectTraps()
	if native {
		var err error
		parent, err = os.MkdirTemp("", "verifc13")
		if err != nil {
			panic(err)
		}
		defer os.RemoveAll(parent)
		base = filepath.Join(parent, "base")
		os.Mkdir(base, 0o755)
		os.Mkdir(filepath.Join(base, "d"), 0o755)
		os.WriteFile(filepath.Join(base, "f"), []byte("inside"), 0o644)
		os.WriteFile(filepath.Join(parent, "s"), []byte("secret"), 0o644)
		// the host's temporary directory is a place outside the base too
		os.Mkdir(filepath.Join(parent, "hosttmp"), 0o755)
		oldTmp := os.Getenv("TMPDIR")
		os.Setenv("TMPDIR", filepath.Join(parent, "hosttmp"))
		defer os.Setenv("TMPDIR", oldTmp)
	}
	fs, err := New(context.Background(), WithBase(base))
	verifrt.Assert(err == nil, "filesystem-created")
	if err != nil {
		return
	}
	if baseRelative {
		// a NUL byte makes the operating system refuse the path: nothing to observe
		for i := 0; i < len(p); i++ {
			verifrt.Assume(p[i] != 0)
		}
		p = base + p
	}
	leaked := false // something outside the base was read
	switch op {
	case 0:
		if f, err := fs.Create(p); err == nil && native {
			f.Close()
		}
	case 1:
		fs.Mkdir(p, 0o755)
	case 2:
		fs.MkdirAll(p, 0o755)
	case 3:
		if f, err := fs.Open(p); err == nil && native {
			b, _ := io.ReadAll(f)
			leaked = string(b) == "secret"
			f.Close()
		}
	case 4:
		if f, err := fs.OpenFile(p, os.O_RDONLY, 0); err == nil && native {
			b, _ := io.ReadAll(f)
			leaked = string(b) == "secret"
			f.Close()
		}
	case 5:
		if b, err := fs.ReadFile(p); err == nil && native {
			leaked = string(b) == "secret"
		}
	case 6:
		fs.Remove(p)
	case 7:
		fs.RemoveAll(p)
	case 8:
		fs.Rename(p, "g")
	case 9:
		fs.Rename("f", p)
	case 10:
		if info, err := fs.Stat(p); err == nil && native && info != nil {
			leaked = info.Name() == "s" && info.Size() == 6
		}
	case 11:
		fs.Symlink(p, "l")
	case 12:
		fs.Symlink("f", p)
	case 14:
		fs.WriteFile(p, []byte("w"), 0o644)
	case 15:
		fs.WalkDir(p, func(path string, d os.DirEntry, err error) error {
			if native && d != nil && d.Name() == "s" {
				leaked = true
			}
			return nil
		})
	case 16:
		fs.MkdirTemp(p, "vpat")
	case 17:
		// no directory given: the temporary directory still belongs inside the base
		if n == 0 {
			fs.MkdirTemp("", "vpat")
		}
	case 13:
		if es, err := fs.ReadDir(p); err == nil && native {
			for _, e := range es {
				if e.Name() == "s" {
					leaked = true
				}
			}
		}
	}
	verifrt.Reach("operated")
	if !native {
		for _, hp := range verifrt.TrappedStrings() {
			if hp == "vpat" {
				continue // the name pattern of MkdirTemp is not a path
			}
			inside := hp == base || strings.HasPrefix(hp, base+"/")
			verifrt.Assert(inside, "host-path-inside-base")
		}
		return
	}
	// native: the world outside the base is neither read nor changed
	unchanged := !leaked
	if b, err := os.ReadFile(filepath.Join(parent, "s")); err != nil || string(b) != "secret" {
		unchanged = false
	}
	var names []string
	if es, err := os.ReadDir(parent); err == nil {
		for _, e := range es {
			names = append(names, e.Name())
		}
	}
	sort.Strings(names)
	// the base directory itself may have been removed or renamed away by the
	// operation (RemoveAll("") is inside the base); nothing else may appear and
	// the sentinel must still be there
	for _, nm := range names {
		if nm != "base" && nm != "s" && nm != "hosttmp" {
			unchanged = false
		}
	}
	if es, err := os.ReadDir(filepath.Join(parent, "hosttmp")); err != nil || len(es) != 0 {
		unchanged = false // something was created in the host's temporary directory
	}
	hasS := false
	for _, nm := range names {
		if nm == "s" {
			hasS = true
		}
	}
	if !hasS {
		unchanged = false
	}
	// every symbolic link created inside the base points inside the base
	filepath.WalkDir(base, func(path string, d os.DirEntry, err error) error {
		if err != nil || d.Type()&os.ModeSymlink == 0 {
			return nil
		}
		target, rerr := os.Readlink(path)
		if rerr != nil {
			return nil
		}
		if !filepath.IsAbs(target) {
			target = filepath.Join(filepath.Dir(path), target)
		}
		target = filepath.Clean(target)
		if target != base && !strings.HasPrefix(target, base+"/") {
			unchanged = false
		}
		return nil
	})
	verifrt.Assert(unchanged, "host-path-inside-base")
}
