//go:build verif

package os

import (
	"context"
	"path/filepath"
	"strings"

	"github.com/risor-io/risor/internal/verifrt"
)

func c13PathLen() int {
	if verifrt.Thorough() {
		return 7
	}
	return 5
}

// HarnessC13ResolvePath: every byte string up to N bytes, several bases.
// Safety direction only: an accepted path is clean and lexically inside base.
func HarnessC13ResolvePath() {
	bases := []string{"", "/", "/b", "/b/c", "rel"}
	base := bases[verifrt.Choose(len(bases))]
	n := verifrt.Choose(c13PathLen() + 1)
	p := verifrt.String(n)
	res, err := ResolvePath(base, p, "open")
	if err != nil {
		verifrt.Reach("rejected")
		return
	}
	verifrt.Reach("accepted")
	verifrt.Assert(filepath.Clean(res) == res, "result-is-clean")
	if base == "" || base == "/" {
		verifrt.Assert(!(res == ".." || strings.HasPrefix(res, "../")), "no-leading-dotdot")
	} else {
		verifrt.Assert(res == base || strings.HasPrefix(res, base+"/"), "inside-base")
	}
}

var c13Layouts = [][]string{
	{"/"}, {"/a"}, {"/tmp"}, {"/", "/tmp"}, {"/tmp", "/tmp/x"}, {"/a", "/ab"}, {"/a", "/a/b", "/a/b/c"},
}

// HarnessC13FindMount: mount selection = longest component-wise prefix, under
// every iteration order of the mount table.
func HarnessC13FindMount() {
	li := verifrt.Choose(len(c13Layouts))
	layout := c13Layouts[li]
	cwds := []string{"/", "/tmp", "/a/b"}
	cwd := cwds[verifrt.Choose(len(cwds))]
	mounts := map[string]*Mount{}
	for _, t := range layout {
		mounts[t] = &Mount{Target: t}
	}
	vos := NewVirtualOS(context.Background(), WithMounts(mounts), WithCwd(cwd))
	n := verifrt.Choose(c13PathLen() + 1)
	p := verifrt.String(n)

	verifrt.MapOrderAll(true)
	m, rel, found := vos.findMount(p)
	verifrt.MapOrderAll(false)

	full := p
	if !filepath.IsAbs(p) {
		full = filepath.Join(cwd, p)
	}
	full = filepath.Clean(full)
	want, wantFound := "", false
	for _, t := range layout {
		if t == "/" || full == t || strings.HasPrefix(full, t+"/") {
			if !wantFound || len(t) > len(want) {
				want, wantFound = t, true
			}
		}
	}
	if wantFound {
		verifrt.Reach("under-a-mount")
	} else {
		verifrt.Reach("under-no-mount")
	}
	verifrt.Assert(found == wantFound, "found-iff-under-a-mount")
	if found && wantFound {
		verifrt.Assert(m.Target == want, "longest-component-prefix-mount")
		if m.Target == want {
			rest := strings.TrimPrefix(full, want)
			verifrt.Assert(filepath.Clean("/"+rel) == filepath.Clean("/"+rest), "relative-part")
		}
	}
}
