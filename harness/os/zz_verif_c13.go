//go:build verif

package os

import (
	"context"
	"errors"
	"io/fs"
	"path/filepath"
	"strings"

	"github.com/risor-io/risor/internal/verifrt"
)

func c13PathLen() int {
	if verifrt.Thorough() {
		return 7
	}
	return 5
}

// HarnessC13ResolvePath: every byte string up to N bytes, several bases.
// Safety direction only: an accepted path is clean and lexically inside base.
func HarnessC13ResolvePath() {
	bases := []string{"", "/", "/b", "/b/c", "rel"}
	base := bases[verifrt.Choose(len(bases))]
	n := verifrt.Choose(c13PathLen() + 1)
	p := verifrt.String(n)
	res, err := ResolvePath(base, p, "open")
	if err != nil {
		verifrt.Reach("rejected")
		return
	}
	verifrt.Reach("accepted")
	verifrt.Assert(filepath.Clean(res) == res, "result-is-clean")
	if base == "" || base == "/" {
		verifrt.Assert(!(res == ".." || strings.HasPrefix(res, "../")), "no-leading-dotdot")
	} else {
		verifrt.Assert(res == base || strings.HasPrefix(res, base+"/"), "inside-base")
	}
}

var c13Layouts = [][]string{
	{"/"}, {"/a"}, {"/tmp"}, {"/", "/tmp"}, {"/tmp", "/tmp/x"}, {"/a", "/ab"}, {"/a", "/a/b", "/a/b/c"},
}

// HarnessC13FindMount: mount selection = longest component-wise prefix, under
// every iteration order of the mount table.
func HarnessC13FindMount() {
	li := verifrt.Choose(len(c13Layouts))
	layout := c13Layouts[li]
	cwds := []string{"/", "/tmp", "/a/b"}
	cwd := cwds[verifrt.Choose(len(cwds))]
	mounts := map[string]*Mount{}
	for _, t := range layout {
		mounts[t] = &Mount{Target: t}
	}
	vos := NewVirtualOS(context.Background(), WithMounts(mounts), WithCwd(cwd))
	n := verifrt.Choose(c13PathLen() + 1)
	p := verifrt.String(n)

	verifrt.MapOrderAll(true)
	m, rel, found := vos.findMount(p)
	verifrt.MapOrderAll(false)

	full := p
	if !filepath.IsAbs(p) {
		full = filepath.Join(cwd, p)
	}
	full = filepath.Clean(full)
	want, wantFound := "", false
	for _, t := range layout {
		if t == "/" || full == t || strings.HasPrefix(full, t+"/") {
			if !wantFound || len(t) > len(want) {
				want, wantFound = t, true
			}
		}
	}
	if wantFound {
		verifrt.Reach("under-a-mount")
	} else {
		verifrt.Reach("under-no-mount")
	}
	verifrt.Assert(found == wantFound, "found-iff-under-a-mount")
	if found && wantFound {
		verifrt.Assert(m.Target == want, "longest-component-prefix-mount")
		if m.Target == want {
			rest := strings.TrimPrefix(full, want)
			verifrt.Assert(filepath.Clean("/"+rel) == filepath.Clean("/"+rest), "relative-part")
		}
	}
}

// ---- every VirtualOS operation goes to the longest-prefix mount ----

type c13Call struct {
	mount  string
	method string
	paths  []string
}

// c13RecFS is a mount source that records what it is asked to do.
type c13RecFS struct {
	mount string
	log   *[]c13Call
}

func (f *c13RecFS) rec(method string, paths ...string) {
	*f.log = append(*f.log, c13Call{f.mount, method, paths})
}

var errC13 = errors.New("recording fs")

func (f *c13RecFS) Create(name string) (File, error)          { f.rec("Create", name); return nil, errC13 }
func (f *c13RecFS) Mkdir(name string, perm FileMode) error    { f.rec("Mkdir", name); return nil }
func (f *c13RecFS) MkdirAll(path string, perm FileMode) error { f.rec("MkdirAll", path); return nil }
func (f *c13RecFS) Open(name string) (File, error)            { f.rec("Open", name); return nil, errC13 }
func (f *c13RecFS) ReadFile(name string) ([]byte, error)      { f.rec("ReadFile", name); return nil, errC13 }
func (f *c13RecFS) Remove(name string) error                  { f.rec("Remove", name); return nil }
func (f *c13RecFS) RemoveAll(path string) error               { f.rec("RemoveAll", path); return nil }
func (f *c13RecFS) Rename(oldpath, newpath string) error {
	f.rec("Rename", oldpath, newpath)
	return nil
}
func (f *c13RecFS) Stat(name string) (FileInfo, error) { f.rec("Stat", name); return nil, errC13 }
func (f *c13RecFS) Symlink(oldname, newname string) error {
	f.rec("Symlink", oldname, newname)
	return nil
}
func (f *c13RecFS) ReadDir(name string) ([]DirEntry, error) {
	f.rec("ReadDir", name)
	return nil, errC13
}
func (f *c13RecFS) WalkDir(root string, fn WalkDirFunc) error { f.rec("WalkDir", root); return nil }
func (f *c13RecFS) OpenFile(name string, flag int, perm FileMode) (File, error) {
	f.rec("OpenFile", name)
	return nil, errC13
}
func (f *c13RecFS) WriteFile(name string, data []byte, perm FileMode) error {
	f.rec("WriteFile", name)
	return nil
}

var c13OpLayouts = [][]string{
	{"/a", "/b"}, {"/", "/a"}, {"/a", "/a/b"}, {"/a", "/ab", "/"}, {"/a/", "/b"}, {"/a", "/a/b", "/a/b/c"},
}

// c13Owner: the mount point that must serve path p (relative to cwd), and the
// part of p below it.
func c13Owner(layout []string, cwd, p string) (mount, rest string, found bool) {
	full := p
	if !filepath.IsAbs(p) {
		full = filepath.Join(cwd, p)
	}
	full = filepath.Clean(full)
	for _, t := range layout {
		tt := t
		if tt != "/" {
			tt = strings.TrimSuffix(tt, "/") // a mount point written with a trailing slash
		}
		if tt == "/" || full == tt || strings.HasPrefix(full, tt+"/") {
			if !found || len(tt) > len(strings.TrimSuffix(mount, "/")) || mount == "" {
				mount, found = t, true
			}
		}
	}
	if found {
		mt := mount
		if mt != "/" {
			mt = strings.TrimSuffix(mt, "/")
		}
		rest = strings.TrimPrefix(full, mt)
	}
	return
}

// HarnessC13VirtualOSOperations: whatever the path strings, an operation of the
// virtual OS reaches only the source of the longest-prefix mount of each of its
// path arguments, with the path below the mount point; two-path operations
// whose arguments belong to different mounts, and paths under no mount, reach
// no source at all.
func HarnessC13VirtualOSOperations() {
	layout := c13OpLayouts[verifrt.Choose(len(c13OpLayouts))]
	cwd := []string{"/a", "/", "/zz"}[verifrt.Choose(3)]
	var log []c13Call
	mounts := map[string]*Mount{}
	for _, t := range layout {
		mounts[t] = &Mount{Target: t, Source: &c13RecFS{mount: t, log: &log}}
	}
	// the working directory is configured, or reached by Chdir: absolute, or
	// component by component with relative names
	var vos *VirtualOS
	op := verifrt.Choose(16)
	how := 0
	if op == 0 || op == 9 || op == 12 {
		// (path resolution is shared by all operations: three of them suffice)
		how = verifrt.Choose(3)
	}
	switch how {
	case 0:
		vos = NewVirtualOS(context.Background(), WithMounts(mounts), WithCwd(cwd))
	case 1:
		vos = NewVirtualOS(context.Background(), WithMounts(mounts), WithCwd("/"))
		vos.Chdir(cwd)
	default:
		vos = NewVirtualOS(context.Background(), WithMounts(mounts), WithCwd("/"))
		for _, part := range strings.Split(strings.TrimPrefix(cwd, "/"), "/") {
			if part != "" {
				vos.Chdir(part)
			}
		}
	}
	maxN := 3
	if verifrt.Thorough() {
		maxN = 4
	}
	p := verifrt.String(verifrt.Choose(maxN + 1))
	fixed := []string{"/a/x", "/b/y", "/a/b/z", "x", "/ab/q", "/c"}
	q := fixed[verifrt.Choose(len(fixed))]
	var paths []string
	method := ""
	switch op {
	case 0:
		method, paths = "Create", []string{p}
		vos.Create(p)
	case 1:
		method, paths = "Mkdir", []string{p}
		vos.Mkdir(p, 0o755)
	case 2:
		method, paths = "MkdirAll", []string{p}
		vos.MkdirAll(p, 0o755)
	case 3:
		method, paths = "Open", []string{p}
		vos.Open(p)
	case 4:
		method, paths = "OpenFile", []string{p}
		vos.OpenFile(p, 0, 0)
	case 5:
		method, paths = "ReadFile", []string{p}
		vos.ReadFile(p)
	case 6:
		method, paths = "Remove", []string{p}
		vos.Remove(p)
	case 7:
		method, paths = "RemoveAll", []string{p}
		vos.RemoveAll(p)
	case 8:
		method, paths = "Stat", []string{p}
		vos.Stat(p)
	case 9:
		method, paths = "WriteFile", []string{p}
		vos.WriteFile(p, []byte("x"), 0o644)
	case 10:
		method, paths = "ReadDir", []string{p}
		vos.ReadDir(p)
	case 11:
		method, paths = "WalkDir", []string{p}
		vos.WalkDir(p, func(path string, d fs.DirEntry, err error) error { return nil })
	case 12:
		method, paths = "Rename", []string{p, q}
		vos.Rename(p, q)
	case 13:
		method, paths = "Rename", []string{q, p}
		vos.Rename(q, p)
	case 14:
		method, paths = "Symlink", []string{p, q}
		vos.Symlink(p, q)
	case 15:
		method, paths = "Symlink", []string{q, p}
		vos.Symlink(q, p)
	}
	verifrt.Reach("operated")
	// reference: owner of every path argument
	owners := make([]string, len(paths))
	rests := make([]string, len(paths))
	allFound := true
	for i, pp := range paths {
		var ok bool
		owners[i], rests[i], ok = c13Owner(layout, cwd, pp)
		if !ok {
			allFound = false
		}
	}
	sameMount := allFound
	for i := range owners {
		if owners[i] != owners[0] {
			sameMount = false
		}
	}
	if !sameMount {
		verifrt.Assert(len(log) == 0, "no-source-is-reached-unless-every-path-has-one-common-mount:"+method)
		return
	}
	verifrt.Reach("served")
	// a path with an owner is served (the recording sources never refuse)
	// (a mount point written with a trailing separator does not serve the mount
	// point's own name - a refusal, which no statement of the property forbids)
	if !strings.HasSuffix(owners[0], "/") || owners[0] == "/" {
		verifrt.Assert(len(log) > 0, "a-path-under-a-mount-is-served:"+method)
	}
	for _, c := range log {
		verifrt.Assert(c.mount == owners[0], "served-by-the-longest-prefix-mount:"+method)
		if c.method == method && len(c.paths) == len(paths) {
			for i := range paths {
				verifrt.Assert(filepath.Clean("/"+c.paths[i]) == filepath.Clean("/"+rests[i]), "source-gets-the-path-below-its-mount-point:"+method)
			}
		}
	}
}
