//go:build verif

package vm

import (
	"context"

	"github.com/risor-io/risor/builtins"
	"github.com/risor-io/risor/internal/verifrt"
	"github.com/risor-io/risor/object"
)

// HarnessC07RunAfterRunCode: Run() of the VM's main code gives the main code's
// value whatever other code RunCode ran on the VM before (with any outcome),
// and whether or not the main code had been run already.
func HarnessC07RunAfterRunCode() {
	ctx := context.Background()
	a, b := verifrt.Int64(), verifrt.Int64()
	globals := map[string]any{"a": object.NewInt(a), "b": object.NewInt(b)}
	for name, bi := range builtins.Builtins() {
		globals[name] = bi
	}
	names := make([]string, 0, len(globals))
	for n := range globals {
		names = append(names, n)
	}
	main := c07Compile("p := a\nq := b\nr := p - q\nr + r", names)
	verifrt.Assert(main != nil, "setup-compiles")
	if main == nil {
		return
	}
	f := c07First[verifrt.Choose(len(c07First))]
	other := c07Compile(f.src, names)
	verifrt.Assert(other != nil, "setup-compiles")
	if other == nil {
		return
	}
	machine := New(main, WithGlobals(globals))
	if verifrt.Bool() {
		err := machine.Run(ctx)
		verifrt.Assert(err == nil, "first-run-of-main-succeeds")
	}
	err := machine.RunCode(ctx, other)
	verifrt.Assert((err != nil) == f.fails, f.name+":outcome-class-as-intended")
	err = machine.Run(ctx)
	verifrt.Reach("run-after-runcode")
	verifrt.Assert(err == nil, "run-of-main-after-runcode-succeeds")
	if err == nil {
		tos, ok := machine.TOS()
		iv, isInt := asInt(tos)
		verifrt.Assert(ok && isInt && iv == 2*(a-b), "run-of-main-after-runcode-gives-the-value-of-main")
	}
	verifrt.Assert(!machine.running, "not-running-after-run")
}
