//go:build verif

package vm

import (
	"context"
	"strings"
	"time"

	"github.com/risor-io/risor/ast"

	"github.com/risor-io/risor/compiler"
	"github.com/risor-io/risor/internal/verifrt"
	"github.com/risor-io/risor/parser"
)

// one template per statement / expression form (C03-3 / C20-4)
var c03Templates = []string{
	"x := 1 + 2 * y",
	"x = y[1:2]",
	"if a > b { a } else { b }",
	"if a { 1 } else if b { 2 }",
	"if a { 1 } else if\n b { 2 }",
	"for i := 0; i < n; i++ { s += i }",
	"for i, v := range l { print(v) }",
	"for i := 0; ; i++ { break }",
	"for i := 0; i < 3; { i++ }",
	"for ; i < 3; i++ { }",
	"for v in l { v }",
	"switch x {\ncase 1, 2:\n a\ndefault:\n b\n}",
	"func f(a, b=2) { return a + b }",
	"f := func(x) { x }",
	"m := {a: 1, \"b\": [1, 2]}",
	"s := {1, 2}",
	"m := {a: 1, \"b\":\n 2}",
	"s := {1,\n 2}",
	"x := d.\n b",
	"switch x {\ncase 1:\n\ta\n}",
	"l := [1,\n 2,\n 3]",
	"x := a ? b : c",
	"a | f | g(1)",
	"t := 'hi {name}!'",
	"u := \"a\\tb\\x41\"",
	"x := `raw\nline` 1",
	"import m as n",
	"from a.b import c, d as e",
	"x, y := [1, 2]",
	"const k = 5",
	"defer f()",
	"go f(1)",
	"ch <- 1; v := <-ch",
	"x := !a && b || c",
	"a.b.c(1)[2].d = 3",
	"x in [1] ; y not in {2}",
	"return",
	"break",
	"x++ ; y--",
	"x += 1 ; y *= 2",
	"/* c */ x // d\n# e\ny",
	"x := 1.5 + 0x1f + 017",
	"f(a,\n b,\n)",
	"a <\n b",
	"{",
	"(1 + ",
	"x := [1, 2",
	"func(",
	"a.",
}

// c03HoleLine: the line (0-based) of byte offset pos in src.
func c03HoleLine(src string, pos int) int {
	line := 0
	for i := 0; i < pos && i < len(src); i++ {
		if src[i] == '\n' {
			line++
		}
	}
	return line
}

func c03CheckDiagnostic(src string, err error, positions bool) {
	msg := err.Error()
	_ = msg
	pe, ok := err.(parser.ParserError)
	if !ok {
		return
	}
	_ = pe.FriendlyErrorMessage()
	if !positions {
		return
	}
	start := pe.StartPosition()
	lines := strings.Split(src, "\n")
	verifrt.Assert(start.Line >= 0 && start.Line < len(lines)+1, "error-line-exists")
	if start.Line >= 0 && start.Line < len(lines) {
		line := lines[start.Line]
		// the quoted line is the source line (CR at the end of a CRLF line may be kept)
		verifrt.Assert(verifrt.EqString(strings.TrimSuffix(pe.SourceCode(), "\r"), strings.TrimSuffix(line, "\r")), "quoted-line-is-the-source-line")
		verifrt.Assert(start.Column >= 0 && start.Column <= len([]rune(line)), "error-column-exists")
	}
}

// HarnessC03ParserHoles: every template with one (quick) or, in the templates
// of at most 12 bytes, two adjacent (thorough) symbolic ASCII bytes substituted or inserted at every position:
// parse, compile and error rendering never panic, and diagnostics point into the text.
func HarnessC03ParserHoles() { c03ParserHoles(false) }

// HarnessC20Diagnostics: the same family; every syntax error names a line and
// column that exist in the text and quotes that line verbatim.
func HarnessC20Diagnostics() { c03ParserHoles(true) }

func c03ParserHoles(positions bool) {
	ti := verifrt.Choose(len(c03Templates))
	t := c03Templates[ti]
	pos := verifrt.Choose(len(t) + 1)
	hole := 1
	if verifrt.Thorough() && (len(t) <= 12 || (len(t) <= 30 && ti%8 == verifrt.Seed()%8)) {
		// two adjacent symbolic bytes: in the short templates and in one eighth of
		// those of at most 30 bytes, rotating with VERIF_SEED (the path count grows with the
		// square of the number of lexer byte classes)
		hole = 1 + verifrt.Choose(2)
	}
	sym := verifrt.String(hole)
	for i := 0; i < hole; i++ {
		verifrt.Assume(sym[i] < 0x80)
	}
	var src string
	if verifrt.Bool() && pos < len(t) {
		end := pos + hole
		if end > len(t) {
			end = len(t)
		}
		src = t[:pos] + sym + t[end:] // substitution
	} else {
		src = t[:pos] + sym + t[pos:] // insertion
	}
	var prog *ast.Program
	var err error
	// the parser must terminate: a loop that no longer consumes tokens is a hang
	verifrt.RunWithDeadline("parse-terminates", 400000, 2*time.Second, func() {
		prog, err = parser.Parse(context.Background(), src)
	})
	if err != nil {
		verifrt.Reach("rejected")
		c03CheckDiagnostic(src, err, positions)
		// a lexical error (the hole made some text unlexable) is not reported on a
		// line before the hole; seeds with tokens spanning lines are left out
		if _, isLex := err.(*parser.SyntaxError); isLex && positions && hole == 1 &&
			!strings.Contains(t, "`") && !strings.Contains(t, "/*") {
			if pe, ok := err.(parser.ParserError); ok {
				// the text before the hole is unchanged and lexes: the offending
				// text starts on the hole's line or later
				verifrt.Assert(pe.StartPosition().Line >= c03HoleLine(src, pos), "lexical-error-not-reported-before-the-text-that-caused-it")
			}
		}
		return
	}
	verifrt.Reach("parsed")
	_, cerr := compiler.Compile(prog, compiler.WithGlobalNames([]string{"a", "b", "c", "f", "g", "l", "n", "s", "x", "y", "ch", "print", "name"}))
	if cerr != nil {
		_ = cerr.Error()
	}
	_ = prog.String()
}
