//go:build verif

package vm

import (
	"strings"

	"github.com/risor-io/risor/internal/verifrt"
	"github.com/risor-io/risor/object"
)

// tOut is the reference outcome of a template.
type tOut struct {
	val   rv
	emits []int64
	// checkEmits: compare the emitted sequence
	checkEmits bool
}

func rvNil() rv { return rv{kind: 4} }

type tmpl struct {
	name string
	src  string
	// ref computes the expected outcome from the symbolic inputs a,b,c and the
	// small loop bound n (0..3)
	ref func(a, b, c, n int64) tOut
}

func outInt(v int64) tOut { return tOut{val: rvInt(v)} }
func outBool(v bool) tOut { return tOut{val: rvBool(v)} }
func outNil() tOut        { return tOut{val: rvNil()} }
func outErr() tOut        { return tOut{val: rvErr()} }
func outEmit(v rv, e ...int64) tOut {
	return tOut{val: v, emits: e, checkEmits: true}
}

var c01Templates = []tmpl{
	{"if-else-value", `if a > b { a } else { b }`, func(a, b, c, n int64) tOut {
		if a > b {
			return outInt(a)
		}
		return outInt(b)
	}},
	{"if-else-if-else", `if a < 0 { -1 } else if a == 0 { 0 } else { 1 }`, func(a, b, c, n int64) tOut {
		if a < 0 {
			return outInt(-1)
		} else if a == 0 {
			return outInt(0)
		}
		return outInt(1)
	}},
	{"if-without-else-nil", `if a > b { 1 }`, func(a, b, c, n int64) tOut {
		if a > b {
			return outInt(1)
		}
		return outNil()
	}},
	{"ternary", `a > b ? a - b : b - a`, func(a, b, c, n int64) tOut {
		if a > b {
			return outInt(a - b)
		}
		return outInt(b - a)
	}},
	{"switch-first-match", "switch a {\ncase 1:\n 10\ncase 2:\n 20\ndefault:\n 30\n}", func(a, b, c, n int64) tOut {
		switch a {
		case 1:
			return outInt(10)
		case 2:
			return outInt(20)
		}
		return outInt(30)
	}},
	{"switch-multi-value", "switch a {\ncase 1, 2:\n 10\ncase 3:\n 30\n}", func(a, b, c, n int64) tOut {
		switch a {
		case 1, 2:
			return outInt(10)
		case 3:
			return outInt(30)
		}
		return outNil()
	}},
	{"switch-default-middle", "switch a {\ncase 1:\n 10\ndefault:\n 99\ncase 2:\n 20\n}", func(a, b, c, n int64) tOut {
		switch a {
		case 1:
			return outInt(10)
		case 2:
			return outInt(20)
		}
		return outInt(99)
	}},
	{"switch-on-expression-cases", "switch a {\ncase b:\n 1\ncase c:\n 2\n}", func(a, b, c, n int64) tOut {
		if a == b {
			return outInt(1)
		}
		if a == c {
			return outInt(2)
		}
		return outNil()
	}},
	{"for-simple-break", `x := 0; for { if x >= n { break }; x++ }; x`, func(a, b, c, n int64) tOut { return outInt(n) }},
	{"for-cond", `x := 0; s := 0; for x < n { s += a; x++ }; s`, func(a, b, c, n int64) tOut {
		s := int64(0)
		for x := int64(0); x < n; x++ {
			s += a
		}
		return outInt(s)
	}},
	{"for-3part", `s := 0; for i := 0; i < n; i++ { s = s + i + a }; s`, func(a, b, c, n int64) tOut {
		s := int64(0)
		for i := int64(0); i < n; i++ {
			s = s + i + a
		}
		return outInt(s)
	}},
	{"for-3part-continue-runs-post", `s := 0; for i := 0; i < n; i++ { if i == b { continue }; s += 1 }; s`, func(a, b, c, n int64) tOut {
		s := int64(0)
		for i := int64(0); i < n; i++ {
			if i == b {
				continue
			}
			s++
		}
		return outInt(s)
	}},
	{"nested-for-break-inner", `k := 0; for i := 0; i < n; i++ { for j := 0; j < 3; j++ { if j == b { break }; k++ } }; k`, func(a, b, c, n int64) tOut {
		k := int64(0)
		for i := int64(0); i < n; i++ {
			for j := int64(0); j < 3; j++ {
				if j == b {
					break
				}
				k++
			}
		}
		return outInt(k)
	}},
	{"range-list-two-names", `s := 0; for i, v := range [a, b, c] { s += (i + 1) * v }; s`, func(a, b, c, n int64) tOut {
		return outInt(a + 2*b + 3*c)
	}},
	{"range-list-one-name", `s := 0; for i := range [a, b, c] { s += i }; s`, func(a, b, c, n int64) tOut { return outInt(3) }},
	{"range-no-name", `s := 0; for range [a, b] { s++ }; s`, func(a, b, c, n int64) tOut { return outInt(2) }},
	{"range-break", `s := 0; for _, v := range [a, b, c] { if v == 0 { break }; s += v }; s`, func(a, b, c, n int64) tOut {
		s := int64(0)
		for _, v := range []int64{a, b, c} {
			if v == 0 {
				break
			}
			s += v
		}
		return outInt(s)
	}},
	{"range-continue", `s := 0; for _, v := range [a, b, c] { if v < 0 { continue }; s += v }; s`, func(a, b, c, n int64) tOut {
		s := int64(0)
		for _, v := range []int64{a, b, c} {
			if v < 0 {
				continue
			}
			s += v
		}
		return outInt(s)
	}},
	{"range-in-range-break", `k := 0; for _, x := range [a, b] { for _, y := range [1, 2, 3] { if y == c { break }; k += x } }; k`, func(a, b, c, n int64) tOut {
		k := int64(0)
		for _, x := range []int64{a, b} {
			for _, y := range []int64{1, 2, 3} {
				if y == c {
					break
				}
				k += x
			}
		}
		return outInt(k)
	}},
	{"range-int", `s := 0; for i := range n { s += i + a }; s`, func(a, b, c, n int64) tOut {
		s := int64(0)
		for i := int64(0); i < n; i++ {
			s += i + a
		}
		return outInt(s)
	}},
	{"func-positional", `f := func(x, y) { x - y }; f(a, b)`, func(a, b, c, n int64) tOut { return outInt(a - b) }},
	{"func-defaults", `f := func(x, y=10, z=20) { x + y - z }; f(a) + f(a, b) + f(a, b, c)`, func(a, b, c, n int64) tOut {
		return outInt((a + 10 - 20) + (a + b - 20) + (a + b - c))
	}},
	{"func-too-many-args-error", `f := func(x) { x }; f(a, b)`, func(a, b, c, n int64) tOut { return outErr() }},
	{"func-too-few-args-error", `f := func(x, y) { x }; f(a)`, func(a, b, c, n int64) tOut { return outErr() }},
	{"func-implicit-return", `f := func(x) { y := x + 1; y + 1 }; f(a)`, func(a, b, c, n int64) tOut { return outInt(a + 2) }},
	{"func-early-return", `f := func(x) { if x > 0 { return 1 }; return 2 }; f(a)`, func(a, b, c, n int64) tOut {
		if a > 0 {
			return outInt(1)
		}
		return outInt(2)
	}},
	{"loop-in-func-return", `f := func() { for i := 0; i < 3; i++ { if i == b { return i + 10 } }; return -1 }; f()`, func(a, b, c, n int64) tOut {
		for i := int64(0); i < 3; i++ {
			if i == b {
				return outInt(i + 10)
			}
		}
		return outInt(-1)
	}},
	{"range-loop-in-func-return", `f := func() { for _, v := range [a, b, c] { if v == 0 { return 7 } }; return 8 }; f()`, func(a, b, c, n int64) tOut {
		if a == 0 || b == 0 || c == 0 {
			return outInt(7)
		}
		return outInt(8)
	}},
	{"recursion-sum", `func sum(k) { if k <= 0 { return 0 }; return k + a + sum(k-1) }; sum(n)`, func(a, b, c, n int64) tOut {
		s := int64(0)
		for k := n; k > 0; k-- {
			s += k + a
		}
		return outInt(s)
	}},
	{"recursion-mutual", `func ev(k) { if k == 0 { return true }; return od(k-1) }; func od(k) { if k == 0 { return false }; return ev(k-1) }; ev(n)`, func(a, b, c, n int64) tOut {
		return outBool(n%2 == 0)
	}},
	{"closure-counter", `mk := func() { k := a; return func() { k = k + 1; return k } }; f := mk(); f(); f()`, func(a, b, c, n int64) tOut { return outInt(a + 2) }},
	{"closure-shared-binding", `mk := func() { k := a; inc := func() { k += 1 }; get := func() { return k }; return [inc, get] }; p := mk(); p[0](); p[0](); p[1]()`, func(a, b, c, n int64) tOut {
		return outInt(a + 2)
	}},
	{"block-scope-shadow", `x := a; if true { x := b; x = x + 1 }; x`, func(a, b, c, n int64) tOut { return outInt(a) }},
	{"assign-outer-from-block", `x := a; if true { x = b }; x`, func(a, b, c, n int64) tOut { return outInt(b) }},
	{"multi-assign", `x, y := [a, b]; x - y`, func(a, b, c, n int64) tOut { return outInt(a - b) }},
	{"multi-assign-count-mismatch", `x, y := [a, b, c]; x`, func(a, b, c, n int64) tOut { return outErr() }},
	{"compound-assign-var", `x := a; x += b; x -= c; x *= 2; x`, func(a, b, c, n int64) tOut { return outInt((a + b - c) * 2) }},
	{"compound-assign-item", `l := [a, b]; l[0] += c; l[1] -= c; l[0] - l[1]`, func(a, b, c, n int64) tOut { return outInt((a + c) - (b - c)) }},
	{"compound-assign-attr", `m := {k: a}; m.k += b; m.k`, func(a, b, c, n int64) tOut { return outInt(a + b) }},
	{"postfix", `x := a; x++; x++; x--; x`, func(a, b, c, n int64) tOut { return outInt(a + 1) }},
	{"list-negative-index", `l := [a, b, c]; l[-1] - l[0]`, func(a, b, c, n int64) tOut { return outInt(c - a) }},
	{"list-index-symbolic", `l := [10, 20, 30]; l[a]`, func(a, b, c, n int64) tOut {
		if a >= 3 || a < -3 {
			return outErr()
		}
		if a < 0 {
			a += 3
		}
		return outInt((a + 1) * 10)
	}},
	{"slice-forms", `l := [a, b, c]; len(l[1:]) * 100 + len(l[:2]) * 10 + len(l[1:2]) + l[:2][1] + l[1:][0]`, func(a, b, c, n int64) tOut {
		return outInt(221 + b + b)
	}},
	{"slice-bounds-error", `l := [a, b, c]; l[2:1]`, func(a, b, c, n int64) tOut { return outErr() }},
	{"map-literal-get", `m := {x: a, "y": b}; m["y"] - m.x`, func(a, b, c, n int64) tOut { return outInt(b - a) }},
	{"map-missing-key-error", `m := {x: a}; m["z"]`, func(a, b, c, n int64) tOut { return outErr() }},
	{"set-literal-membership", `a in {1, 2, 3}`, func(a, b, c, n int64) tOut { return outBool(a == 1 || a == 2 || a == 3) }},
	{"in-list", `a in [b, c]`, func(a, b, c, n int64) tOut { return outBool(a == b || a == c) }},
	{"not-in-list", `a not in [b, c]`, func(a, b, c, n int64) tOut { return outBool(!(a == b || a == c)) }},
	{"pipe-2", `inc := func(x) { x + 1 }; a | inc | inc`, func(a, b, c, n int64) tOut { return outInt(a + 2) }},
	{"pipe-partial", `add := func(x, y) { x + y }; a | add(b)`, func(a, b, c, n int64) tOut { return outInt(a + b) }},
	{"try-value", `try(func() { return a }, b)`, func(a, b, c, n int64) tOut { return outInt(a) }},
	{"try-fallback", `try(func() { error("x") }, b)`, func(a, b, c, n int64) tOut { return outInt(b) }},
	{"try-fallback-on-runtime-error", `try(func() { [1][a] }, b)`, func(a, b, c, n int64) tOut {
		if a == 0 || a == -1 {
			return outInt(1)
		}
		return outInt(b)
	}},
	{"try-callee-fails-mid-expression", `try(func() { return c + [1][a] }, b)`, func(a, b, c, n int64) tOut {
		if a == 0 || a == -1 {
			return outInt(c + 1)
		}
		return outInt(b)
	}},
	{"try-callee-fails-inside-call-arguments", `g := func(x, y, z) { return x + y + z }; try(func() { return g(a, c, [1][a]) }, func(e) { return b }) + 1`, func(a, b, c, n int64) tOut {
		if a == 0 || a == -1 {
			return outInt(a + c + 1 + 1)
		}
		return outInt(b + 1)
	}},
	{"try-in-a-loop-callee-fails-mid-expression", `s := 0; for i := 0; i < 3; i++ { s += try(func() { return c + [1][a] }, b) }; s`, func(a, b, c, n int64) tOut {
		if a == 0 || a == -1 {
			return outInt(3 * (c + 1))
		}
		return outInt(3 * b)
	}},
	{"try-nested-inner-fails-mid-expression", `try(func() { return c + try(func() { return c * [1][a] }, func(e) { error("again") }) }, b)`, func(a, b, c, n int64) tOut {
		if a == 0 || a == -1 {
			return outInt(c + c)
		}
		return outInt(b)
	}},
	{"callback-fails-mid-expression-inside-map", `try(func() { return [1, 2].map(func(x) { return x + [1][a] }) }, func(e) { return [] }) | len`, func(a, b, c, n int64) tOut {
		if a == 0 || a == -1 {
			return outInt(2)
		}
		return outInt(0)
	}},
	{"power-chain-associates-left", `2 ** 3 ** 2 + a`, func(a, b, c, n int64) tOut { return outInt(64 + a) }},
	{"power-binds-tighter-than-product", `2 * 3 ** 2 + a`, func(a, b, c, n int64) tOut { return outInt(18 + a) }},
	{"three-defers-middle-one-raises", `f := func() { defer emit(1); defer func() { error("boom") }(); defer emit(3); emit(0) }; try(f, func(e) { emit(9) }); a`, func(a, b, c, n int64) tOut {
		return outEmit(rvInt(a), 0, 3, 1, 9)
	}},
	{"two-defers-last-registered-raises", `f := func() { defer emit(1); defer emit(2); defer func() { error("boom") }(); emit(0) }; try(f, func(e) { emit(9) }); a`, func(a, b, c, n int64) tOut {
		return outEmit(rvInt(a), 0, 2, 1, 9)
	}},
	{"template-string-with-empty-braces", `x := 'p{}q'; len(x) + a`, func(a, b, c, n int64) tOut { return outInt(2 + a) }},
	{"template-string-empty-braces-between-expressions", `x := '{a}{}{b}'; y := [x, c]; y[1] + len(y)`, func(a, b, c, n int64) tOut { return outInt(c + 2) }},
	{"break-after-a-finished-switch-in-a-range-loop", `s := 0; for _, v := range [1, 2, 3, 4, 5] { switch v { case 2: s += 100 }; if v == n + 3 { break }; s += v }; s + a`, func(a, b, c, n int64) tOut {
		// n is 0..3: break at v == n+3 (3, 4, 5) or never (6)
		sum := int64(0)
		for v := int64(1); v <= 5; v++ {
			if v == 2 {
				sum += 100
			}
			if v == n+3 {
				break
			}
			sum += v
		}
		return outInt(sum + a)
	}},
	{"continue-after-a-finished-switch-in-a-three-clause-loop", `s := 0; for i := 0; i < 4; i++ { switch i % 3 { case 0: s += 1 default: s += 2 }; if i % 2 == 0 { continue }; s += 10 }; [7, s][1] + a`, func(a, b, c, n int64) tOut { return outInt(1 + 2 + 10 + 2 + 1 + 10 + a) }},
	{"compound-index-assignment-evaluates-the-index-once", `k := 0; f := func() { k += 1; return 0 }; l := [a]; l[f()] += b; l[0] + k * 1000`, func(a, b, c, n int64) tOut { return outInt(a + b + 1000) }},
	{"ternary-evaluates-only-the-chosen-branch", `t := func(x) { emit(x); return x }; r := (a > b) ? t(1) : t(2); r`, func(a, b, c, n int64) tOut {
		if a > b {
			return outEmit(rvInt(1), 1)
		}
		return outEmit(rvInt(2), 2)
	}},
	{"swap-by-multiple-assignment", `x, y := [a, b]; x, y = [y, x]; x - y`, func(a, b, c, n int64) tOut { return outInt(b - a) }},
	{"slices-with-omitted-bounds", `l := [a, b, c]; l[1:][0] + l[:2][1] + l[:][2]`, func(a, b, c, n int64) tOut { return outInt(b + b + c) }},
	{"template-expression-evaluated-once", `t := func() { emit(1); return 5 }; s := 'v={t()}'; len(s) + a`, func(a, b, c, n int64) tOut { return outEmit(rvInt(3+a), 1) }},
	{"switch-takes-the-first-matching-case", `switch a { case 1: emit(1) case 1: emit(2) case 2: emit(3) default: emit(4) }; 0`, func(a, b, c, n int64) tOut {
		switch a {
		case 1:
			return outEmit(rvInt(0), 1)
		case 2:
			return outEmit(rvInt(0), 3)
		}
		return outEmit(rvInt(0), 4)
	}},
	{"range-over-list-index-and-value", `for i, v := range [a, b] { emit(i); emit(v) }; 0`, func(a, b, c, n int64) tOut { return outEmit(rvInt(0), 0, a, 1, b) }},
	{"range-over-int", `s := 0; for i := range 4 { s += i }; s + a`, func(a, b, c, n int64) tOut { return outInt(6 + a) }},
	{"range-over-string-indices", `s := 0; for i, ch := range "héy" { s += i }; s + a`, func(a, b, c, n int64) tOut { return outInt(0 + 1 + 2 + a) }},
	{"default-parameter-used-only-when-omitted", `f := func(x, y=5) { return x * 10 + y }; f(1) + f(1, 2) + a`, func(a, b, c, n int64) tOut { return outInt(15 + 12 + a) }},
	{"recursion-through-a-reassigned-variable", `f := func(k) { return k }; g := f; f = func(k) { if k <= 0 { return 0 }; return 1 + f(k - 1) }; f(3) + g(a)`, func(a, b, c, n int64) tOut { return outInt(3 + a) }},
	{"try-handler-receives-the-error", `try(func() { error("abc") }, func(e) { return len(e.message()) }) + a`, func(a, b, c, n int64) tOut { return outInt(3 + a) }},
	{"postfix-increment-statement", `x := a; x++; x++; x--; x`, func(a, b, c, n int64) tOut { return outInt(a + 1) }},
	{"method-chain-evaluates-left-to-right", `t := func(x) { emit(x); return [x] }; t(1).append(2).extend(t(3)); 0`, func(a, b, c, n int64) tOut { return outEmit(rvInt(0), 1, 3) }},
	{"arguments-evaluated-left-to-right", `t := func(x) { emit(x); return x }; g := func(p, q, r) { return p - q + r }; g(t(a), t(b), t(c))`, func(a, b, c, n int64) tOut { return outEmit(rvInt(a-b+c), a, b, c) }},
	{"list-literal-evaluated-left-to-right", `t := func(x) { emit(x); return x }; l := [t(1), t(2), t(3)]; len(l)`, func(a, b, c, n int64) tOut { return outEmit(rvInt(3), 1, 2, 3) }},
	{"and-or-short-circuit-in-conditions", `t := func(x) { emit(x); return x > 0 }; r := 0; if t(a) && t(b) { r = 1 }; if t(a) || t(c) { r += 2 }; r`, func(a, b, c, n int64) tOut {
		var em []int64
		r := int64(0)
		em = append(em, a)
		first := a > 0
		if first {
			em = append(em, b)
			if b > 0 {
				r = 1
			}
		}
		em = append(em, a)
		if a > 0 {
			r += 2
		} else {
			em = append(em, c)
			if c > 0 {
				r += 2
			}
		}
		return outEmit(rvInt(r), em...)
	}},
	{"slice-bounds-evaluated-left-to-right", `t := func(x) { emit(x); return x }; l := [a, b, c]; r := l[t(0):t(2)]; r[1]`, func(a, b, c, n int64) tOut { return outEmit(rvInt(b), 0, 2) }},
	{"slice-with-omitted-bound-still-evaluates-the-other", `t := func(x) { emit(x); return x }; l := [a, b, c]; l[t(1):][0] + l[:t(2)][1]`, func(a, b, c, n int64) tOut { return outEmit(rvInt(b+b), 1, 2) }},
	{"in-operands-evaluated-left-to-right", `t := func(x) { emit(x); return x }; u := func(x) { emit(x); return [1, 2] }; r := t(a) in u(5); q := t(b) not in u(6); r == !q || true`, func(a, b, c, n int64) tOut {
		return tOut{val: rvBool(true), emits: []int64{a, 5, b, 6}, checkEmits: true}
	}},
	{"nil-default-counts-as-a-default", `f := func(x, y=nil) { if y == nil { return x }; return 0 }; f(a)`, func(a, b, c, n int64) tOut { return outInt(a) }},
	{"switch-without-cases-as-an-expression", `l := [1, switch a { }, 3]; len(l) + l[0] + l[2]`, func(a, b, c, n int64) tOut { return outInt(3 + 1 + 3) }},
	{"switch-without-cases-in-a-loop", `s := 0; for i := 0; i < 3; i++ { switch i { }; s += i }; s + a`, func(a, b, c, n int64) tOut { return outInt(3 + a) }},
	{"expression-as-for-init", `x := 0; s := 0; for j := 0; j < 3; j++ { for x; x < 1; x++ { s += 1 } }; s + a`, func(a, b, c, n int64) tOut { return outInt(1 + a) }},
	{"error-raised", `error("boom"); a`, func(a, b, c, n int64) tOut { return outErr() }},
	{"division-by-zero-error", `a / b`, func(a, b, c, n int64) tOut {
		if b == 0 {
			return outErr()
		}
		return outInt(a / b)
	}},
	{"defer-order", `f := func() { defer emit(1); defer emit(2); emit(3); return a }; f()`, func(a, b, c, n int64) tOut {
		return outEmit(rvInt(a), 3, 2, 1)
	}},
	{"defer-sees-updates", `f := func() { x := a; defer func() { emit(x) }(); x = b; return x }; f()`, func(a, b, c, n int64) tOut {
		return outEmit(rvInt(b), b)
	}},
	{"short-circuit-effects", `t := func(x) { emit(x); return x }; t(a) && t(b); 0`, func(a, b, c, n int64) tOut {
		if a != 0 {
			return outEmit(rvInt(0), a, b)
		}
		return outEmit(rvInt(0), a)
	}},
	{"short-circuit-or-effects", `t := func(x) { emit(x); return x }; t(a) || t(b); 0`, func(a, b, c, n int64) tOut {
		if a != 0 {
			return outEmit(rvInt(0), a)
		}
		return outEmit(rvInt(0), a, b)
	}},
	{"left-to-right-evaluation", `t := func(x) { emit(x); return x }; t(a) - t(b) + t(c)`, func(a, b, c, n int64) tOut {
		return outEmit(rvInt(a-b+c), a, b, c)
	}},
	{"call-args-left-to-right", `t := func(x) { emit(x); return x }; f := func(x, y, z) { x - y - z }; f(t(a), t(b), t(c))`, func(a, b, c, n int64) tOut {
		return outEmit(rvInt(a-b-c), a, b, c)
	}},
	{"list-literal-left-to-right", `t := func(x) { emit(x); return x }; l := [t(a), t(b), t(c)]; l[2]`, func(a, b, c, n int64) tOut {
		return outEmit(rvInt(c), a, b, c)
	}},
	{"unary-minus-not", `x := -a; y := !(a > b); y ? x : -x`, func(a, b, c, n int64) tOut {
		if !(a > b) {
			return outInt(-a)
		}
		return outInt(a)
	}},
	{"const-no-reassign", `const k = 1; k = a`, func(a, b, c, n int64) tOut { return outErr() }},
	{"string-concat-len", `s := "ab" + "cd"; len(s) + a`, func(a, b, c, n int64) tOut { return outInt(4 + a) }},
	{"string-index-rune", `s := "héllo"; s[1] == "é" ? a : b`, func(a, b, c, n int64) tOut { return outInt(a) }},
	{"named-func-statement", `func f(x) { x + 1 }; f(a)`, func(a, b, c, n int64) tOut { return outInt(a + 1) }},
	{"named-func-statement-in-loop", `s := 0; for i := 0; i < n; i++ { func g(x) { x + i }; s += g(a) }; s`, func(a, b, c, n int64) tOut {
		s := int64(0)
		for i := int64(0); i < n; i++ {
			s += a + i
		}
		return outInt(s)
	}},
	{"nested-switch-continue-in-range", "r := []; for _, v := range [a, b, c] {\n switch v {\n case 1:\n  switch v {\n  case 1:\n   continue\n  }\n }\n r.append(v) }; len(r)", func(a, b, c, n int64) tOut {
		k := int64(0)
		for _, v := range []int64{a, b, c} {
			if v != 1 {
				k++
			}
		}
		return outInt(k)
	}},
	{"nested-switch-break-in-for", "s := 0; for i := 0; i < 3; i++ {\n switch i {\n default:\n  switch a {\n  case 7:\n   break\n  }\n }\n s += 1 }; s", func(a, b, c, n int64) tOut {
		if a == 7 {
			return outInt(0)
		}
		return outInt(3)
	}},
	{"closure-with-default-argument", `mk := func() { base := a; return func(x, y=5) { return base + x + y } }; g := mk(); g(b) + g(b, c)`, func(a, b, c, n int64) tOut {
		return outInt((a + b + 5) + (a + b + c))
	}},
	{"for-in-list", `s := 0; for v in [a, b, c] { s += v }; s`, func(a, b, c, n int64) tOut { return outInt(a + b + c) }},
	{"for-in-break", `s := 0; for v in [a, b, c] { if v == 0 { break }; s += v }; s`, func(a, b, c, n int64) tOut {
		s := int64(0)
		for _, v := range []int64{a, b, c} {
			if v == 0 {
				break
			}
			s += v
		}
		return outInt(s)
	}},
	{"for-expression-post-clause", `i := 0; step := func() { i = i + 1; return i }; t := 0; for ; i < n; step() { t += a }; t`, func(a, b, c, n int64) tOut {
		t := int64(0)
		for i := int64(0); i < n; i++ {
			t += a
		}
		return outInt(t)
	}},
	{"multi-line-map-literal-order", "t := func(x) { emit(x); return x }\nm := {\n\t\"p\": t(a),\n\t\"q\": t(b),\n\t\"r\": t(c),\n\t\"q\": t(a),\n}\nm[\"r\"]", func(a, b, c, n int64) tOut {
		// which of two duplicate keys wins is not specified; the evaluation order is
		return outEmit(rvInt(c), a, b, c, a)
	}},
	{"loop-switch-continue", "s := 0; for i := 0; i < n; i++ {\n switch i {\n case 1:\n  continue\n }\n s += 1 }; s", func(a, b, c, n int64) tOut {
		s := int64(0)
		for i := int64(0); i < n; i++ {
			if i == 1 {
				continue
			}
			s++
		}
		return outInt(s)
	}},
	{"loop-switch-break", "s := 0; for i := 0; i < n; i++ {\n switch i {\n case 1:\n  break\n }\n s += 1 }; s", func(a, b, c, n int64) tOut {
		// break inside a switch inside a loop leaves the loop (there is no switch-level break)
		s := int64(0)
		for i := int64(0); i < n; i++ {
			if i == 1 {
				break
			}
			s++
		}
		return outInt(s)
	}},
	{"range-switch-continue", "s := 0; for _, v := range [a, b, c] {\n switch v {\n case 0:\n  continue\n }\n s += v }; s", func(a, b, c, n int64) tOut {
		return outInt(a + b + c)
	}},
	// the branches of ?: extend as far as an expression does, whatever token
	// they begin with
	{"ternary-branch-starting-with-unary-minus", `a > b ? -a : b + c`, func(a, b, c, n int64) tOut {
		if a > b {
			return outInt(-a)
		}
		return outInt(b + c)
	}},
	{"ternary-branch-in-parentheses", `a > b ? (a) : b + c`, func(a, b, c, n int64) tOut {
		if a > b {
			return outInt(a)
		}
		return outInt(b + c)
	}},
	{"ternary-true-branch-continues-after-parentheses", `a > b ? (a) + 1 : c`, func(a, b, c, n int64) tOut {
		if a > b {
			return outInt(a + 1)
		}
		return outInt(c)
	}},
	{"ternary-branch-starting-with-not", `a > b ? !(b > c) : a > c`, func(a, b, c, n int64) tOut {
		if a > b {
			return outBool(!(b > c))
		}
		return outBool(a > c)
	}},
	{"ternary-branch-starting-with-a-list", `(a > b ? [a][0] + 1 : c)`, func(a, b, c, n int64) tOut {
		if a > b {
			return outInt(a + 1)
		}
		return outInt(c)
	}},
	// a failure raised inside a callback arrives with its message unchanged
	{"callback-error-keeps-its-message", `m := try(func() { [1].map(func(x) { error("x%sy") }) }, func(e) { return e.message() }); d := try(func() { error("x%sy") }, func(e) { return e.message() }); m == d`, func(a, b, c, n int64) tOut {
		return outBool(true)
	}},
	{"sorted-comparator-error-keeps-its-message", `m := try(func() { sorted([2, 1], func(x, y) { error("x%sy") }) }, func(e) { return e.message() }); d := try(func() { error("x%sy") }, func(e) { return e.message() }); m == d`, func(a, b, c, n int64) tOut {
		return outBool(true)
	}},
	// break / continue from inside an operand position
	{"continue-inside-a-list-literal", "s := 0; for i := 0; i < n; i++ {\n x := [1, 2, if i >= 0 { continue } else { 3 }]\n s += 1 }; s + a", func(a, b, c, n int64) tOut {
		return outInt(a)
	}},
	{"break-inside-an-operand", "s := 0; for i := 0; i < n; i++ {\n x := 1 + (if i >= 0 { break } else { 3 })\n s += 1 }; s + a", func(a, b, c, n int64) tOut {
		return outInt(a)
	}},
	// + builds a new list each time, also when the left operand has spare capacity
	{"list-concatenation-results-are-independent", `l := [a, b]; l.append(c); x := l + [1]; y := l + [2]; x[3] * 10 + y[3] + len(l) * 100`, func(a, b, c, n int64) tOut {
		return outInt(312)
	}},
	{"list-concatenation-leaves-the-operands", `l := [a, b]; l.append(c); x := l + [1]; x[0] = 7; l[0] - a + len(x)`, func(a, b, c, n int64) tOut {
		return outInt(4)
	}},
	{"string-slice-counts-characters", `s := "héllo"; (s[1:3] == "él" && s[2:] == "llo" && s[:2] == "hé") ? a : b`, func(a, b, c, n int64) tOut { return outInt(a) }},
	// import statements are statements: nothing stays behind, however often they run
	{"repeated-import-in-a-loop", "s := 0; for i := 0; i < n; i++ {\n import hostmod\n import hostmod\n s += hostmod.one }; s + a", func(a, b, c, n int64) tOut {
		return outInt(n + a)
	}},
	{"import-with-alias-in-a-function-called-in-a-loop", "f := func() {\n import hostmod as h\n import hostmod as h2\n return h.one + h2.one }; s := 0; for i := 0; i < n; i++ { s += f() }; s + a", func(a, b, c, n int64) tOut {
		return outInt(2*n + a)
	}},
	// a statement in argument position has no value: rejected, not run
	{"assignment-as-call-argument", `x := 0; emit(x += 1); x`, func(a, b, c, n int64) tOut { return outErr() }},
	{"assignment-as-method-argument", `x := 0; l := [1]; l.append(x = 2); x`, func(a, b, c, n int64) tOut { return outErr() }},
	{"assignment-as-piped-call-argument", `x := 0; f := func(p, q) { return p }; 1 | f(x = 2)`, func(a, b, c, n int64) tOut { return outErr() }},
}

func c01RunTemplate(ti int, values bool, stack bool) {
	t := c01Templates[ti]
	a, b, c := verifrt.Int64(), verifrt.Int64(), verifrt.Int64()
	n := int64(verifrt.Choose(4))
	env := (&scriptEnv{}).addInt("a", a).addInt("b", b).addInt("c", c).addInt("n", n)
	env.add("hostmod", object.NewBuiltinsModule("hostmod", map[string]object.Object{"one": object.NewInt(1)}))
	r := runScript(t.src, env)
	want := t.ref(a, b, c, n)
	verifrt.Reach("done")
	if values {
		switch want.val.kind {
		case 2:
			// a compile-time rejection is as good as a run-time error
			verifrt.Assert(r.err != nil, t.name+":must-raise-error")
		case 4:
			verifrt.Assert(r.err == nil, t.name+":no-error")
			if r.err == nil {
				verifrt.Assert(r.result == object.Nil, t.name+":nil-value")
			}
		default:
			c01CheckResult(r, want.val, t.name)
		}
		if want.checkEmits {
			verifrt.Assert(len(r.emitted) == len(want.emits), t.name+":emit-count")
			if len(r.emitted) == len(want.emits) {
				for i, e := range r.emitted {
					iv, ok := e.(*object.Int)
					verifrt.Assert(ok && iv.Value() == want.emits[i], t.name+":emit-order")
				}
			}
		}
	}
	// C04-4: a finished evaluation leaves exactly its result
	if stack && r.stage == "ok" {
		verifrt.Assert(r.finalSP == 0, t.name+":finished-evaluation-leaves-exactly-its-result")
	}
	// an operand popped too many (or left over and consumed later) shows as a
	// run-time failure of a program that has a value
	if stack && want.val.kind != 2 && want.val.kind != 3 {
		verifrt.Assert(r.stage != "run", t.name+":program-with-a-value-does-not-fail-at-run-time")
	}
	// an operand popped from an empty stack is an index fault inside the
	// interpreter, which Run recovers and reports as "panic: ... index out of
	// range" (other recovered faults, e.g. an integer division by zero, are
	// ordinary script errors and not examined here)
	if stack && r.err != nil {
		msg := r.err.Error()
		verifrt.Assert(!(strings.HasPrefix(msg, "panic:") && strings.Contains(msg, "index out of range")), t.name+":no-interpreter-fault")
	}
}

// HarnessC01Templates runs the whole template family in both tiers.
func HarnessC01Templates() {
	ti := verifrt.Choose(len(c01Templates))
	c01RunTemplate(ti, true, false)
}

// HarnessC04TemplatesFinalStack: after Run of every template, on every path
// through it, the stack holds exactly the result.
func HarnessC04TemplatesFinalStack() {
	ti := verifrt.Choose(len(c01Templates))
	c01RunTemplate(ti, false, true)
}
