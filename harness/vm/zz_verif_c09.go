//go:build verif

package vm

import (
	"context"
	"errors"
	"io"
	"io/fs"
	"sync"

	"github.com/risor-io/risor/builtins"
	"github.com/risor-io/risor/compiler"
	"github.com/risor-io/risor/importer"
	"github.com/risor-io/risor/internal/verifrt"
	"github.com/risor-io/risor/object"
	"github.com/risor-io/risor/parser"
)

// C09: evaluations running at the same time on different VMs, each with its
// own globals, do not interfere. Two (three in the thorough tier) goroutines
// each compile and run one program of a family that walks the package-level
// state the property names (type-converter and Go-type registries through
// proxies and Go-typed globals, the codec registry, shared compiled code, VM
// clones). The engine explores the task schedules within SchedBounds and runs
// its happens-before race detector over every heap access (verifrt.RaceDetect);
// natively the replay is built with -race.

type c09Result struct {
	text string
	err  string
}

func c09Globals(extra map[string]any) (map[string]any, []string) {
	globals := map[string]any{}
	for name, b := range builtins.Builtins() {
		globals[name] = b
	}
	for n, v := range extra {
		globals[n] = v
	}
	names := make([]string, 0, len(globals))
	for n := range globals {
		names = append(names, n)
	}
	return globals, names
}

func c09Compile(src string, names []string) (*compiler.Code, error) {
	prog, err := parser.Parse(context.Background(), src)
	if err != nil {
		return nil, err
	}
	return compiler.Compile(prog, compiler.WithGlobalNames(names))
}

// c09FS is a read-only in-memory fs.FS for the shared module importer.
type c09FS map[string]string

type c09File struct {
	data string
	off  int
}

func (m c09FS) Open(name string) (fs.File, error) {
	s, ok := m[name]
	if !ok {
		return nil, fs.ErrNotExist
	}
	return &c09File{data: s}, nil
}
func (f *c09File) Stat() (fs.FileInfo, error) { return nil, errors.New("no stat") }
func (f *c09File) Close() error               { return nil }
func (f *c09File) Read(b []byte) (int, error) {
	if f.off >= len(f.data) {
		return 0, io.EOF
	}
	n := copy(b, f.data[f.off:])
	f.off += n
	return n, nil
}

func c09RunCode(code *compiler.Code, globals map[string]any, opts ...Option) c09Result {
	machine := New(code, append([]Option{WithGlobals(globals)}, opts...)...)
	if err := machine.Run(context.Background()); err != nil {
		return c09Result{err: err.Error()}
	}
	if tos, ok := machine.TOS(); ok {
		return c09Result{text: tos.Inspect()}
	}
	return c09Result{text: "nil"}
}

type c09Program struct {
	name string
	src  string
	// globals builds this evaluation's own Go values; want renders the expected result
	globals func(a int) map[string]any
	want    func(a int) string
}

func c09Itoa(n int) string { return object.NewInt(int64(n)).Inspect() }

var c09Programs = []c09Program{
	{"proxy-methods", `acct.Deposit(3) + acct.Total([1, 2])`,
		func(a int) map[string]any { return map[string]any{"acct": &c08Acct{Balance: a}} },
		func(a int) string { return c09Itoa(a + 3 + 3) }},
	{"proxy-methods-new-types", `acct.Scale(1.5, ["a", "b"]) + acct.Deposit(1)`,
		func(a int) map[string]any { return map[string]any{"acct": &c08Acct{Balance: a}} },
		func(a int) string { return object.NewFloat(3.0 + float64(a+1)).Inspect() }},
	{"proxy-fields", `acct.Balance = acct.Balance + 1; acct.Note.N + acct.Balance`,
		func(a int) map[string]any {
			return map[string]any{"acct": &c08Acct{Balance: a, Note: &c08Note{N: 2}}}
		},
		func(a int) string { return c09Itoa(a + 1 + 2) }},
	{"go-typed-globals", `xs[0] + m["k"] + len(xs)`,
		func(a int) map[string]any {
			return map[string]any{"xs": []int{a, 1}, "m": map[string]int{"k": 4}}
		},
		func(a int) string { return c09Itoa(a + 4 + 2) }},
	{"codecs", `string(decode(encode("ab", "hex"), "hex")) + string(n)`,
		func(a int) map[string]any { return map[string]any{"n": a} },
		func(a int) string { return `"ab` + c09Itoa(a) + `"` }},
	{"shared-importer", `import lib; from lib import twice; lib.add(n, 1) + twice(n)`,
		func(a int) map[string]any { return map[string]any{"n": a} },
		func(a int) string { return c09Itoa(a + 1 + 2*a) }},
	{"shared-local-importer", `import dirlib; dirlib.triple(n) + dirlib.base`,
		func(a int) map[string]any { return map[string]any{"n": a} },
		func(a int) string { return c09Itoa(3*a + 7) }},
	{"bytes", `b := byte(65); bs := byte_slice([1, 2, 3]); int(b) + int(bs[1]) + len(string(bs)) + n`,
		func(a int) map[string]any { return map[string]any{"n": a} },
		func(a int) string { return c09Itoa(65 + 2 + 3 + a) }},
	// a host function of one evaluation adds to the codec registry while others use it
	{"host-function-registers-a-codec", `regcodec(); n + 1`,
		func(a int) map[string]any {
			return map[string]any{"n": a, "regcodec": object.NewBuiltin("regcodec", func(ctx context.Context, args ...object.Object) object.Object {
				_ = builtins.RegisterCodec("verif-codec", &builtins.Codec{})
				return object.Nil
			})}
		},
		func(a int) string { return c09Itoa(a + 1) }},
	{"plain", `l := [n, 2, 3].map(func(x) { return x * 2 }); l[0] + l[2] + len(sorted(l))`,
		func(a int) map[string]any { return map[string]any{"n": a} },
		func(a int) string { return c09Itoa(2*a + 6 + 3) }},
}

func c09Evaluate(p c09Program, a int, im importer.Importer) c09Result {
	if p.name == "shared-local-importer" {
		im = c09Local
	}
	globals, names := c09Globals(p.globals(a))
	code, err := c09Compile(p.src, names)
	if err != nil {
		return c09Result{err: "compile: " + err.Error()}
	}
	return c09RunCode(code, globals, WithImporter(im))
}

// c09Local: a LocalImporter (reads files below a source directory) shared by
// the evaluations of one harness run; set by the harness before the goroutines start.
var c09Local importer.Importer

func c09LocalImporter() (importer.Importer, string) {
	_, names := c09Globals(map[string]any{"n": 0})
	dir := verifrt.TempDirWithFiles(map[string]string{"dirlib.risor": "base := 7\nfunc triple(x) { return 3 * x }\n"})
	return importer.NewLocalImporter(importer.LocalImporterOptions{GlobalNames: names, SourceDir: dir}), dir
}

func c09SharedImporter() importer.Importer {
	_, names := c09Globals(map[string]any{"n": 0})
	return importer.NewFSImporter(importer.FSImporterOptions{
		GlobalNames: names,
		SourceFS: c09FS{"lib.risor": `count := 0
func add(a, b) { return a + b }
func twice(x) { return add(x, x) }
`},
	})
}

func HarnessC09ConcurrentEvaluations() {
	verifrt.SchedBounds(1, 3)
	n := 2
	if verifrt.Thorough() {
		n = 3
	}
	ks := make([]int, n)
	as := make([]int, n)
	for i := range ks {
		ks[i] = verifrt.Choose(len(c09Programs))
		as[i] = int(verifrt.Int16())
	}
	im := c09SharedImporter()
	var dir string
	c09Local, dir = c09LocalImporter()
	defer verifrt.RemoveTempDir(dir)
	verifrt.RaceDetect("no-data-race")
	res := make([]c09Result, n)
	var wg sync.WaitGroup
	for i := 0; i < n; i++ {
		wg.Add(1)
		go func(i int) {
			defer wg.Done()
			res[i] = c09Evaluate(c09Programs[ks[i]], as[i], im)
		}(i)
	}
	wg.Wait()
	verifrt.Reach("both-finished")
	for i := 0; i < n; i++ {
		p := c09Programs[ks[i]]
		verifrt.Assert(res[i].err == "", "concurrent-evaluation-succeeds:"+p.name)
		if res[i].err == "" {
			verifrt.Assert(res[i].text == p.want(as[i]), "concurrent-evaluation-gives-its-own-result:"+p.name)
		}
	}
}

// HarnessC09SharedCodeAndClones: one compiled program run by two VMs at once,
// and two clones of one VM calling the same function.
func HarnessC09SharedCodeAndClones() {
	verifrt.SchedBounds(1, 3)
	a, b := int(verifrt.Int16()), int(verifrt.Int16())
	src := `func f(x) { return x * 2 + n }
func imp(x) { import lib; return lib.add(x, 1) }
f(n)`
	g0, names := c09Globals(map[string]any{"n": a})
	shared := c09SharedImporter()
	g1, _ := c09Globals(map[string]any{"n": b})
	code, err := c09Compile(src, names)
	verifrt.Assert(err == nil, "program-compiles")
	if err != nil {
		return
	}
	verifrt.RaceDetect("no-data-race")
	var r0, r1 c09Result
	var wg sync.WaitGroup
	wg.Add(2)
	go func() { defer wg.Done(); r0 = c09RunCode(code, g0) }()
	go func() { defer wg.Done(); r1 = c09RunCode(code, g1) }()
	wg.Wait()
	verifrt.Reach("shared-code-done")
	verifrt.Assert(r0.err == "" && r0.text == c09Itoa(3*a), "shared-code-first-result")
	verifrt.Assert(r1.err == "" && r1.text == c09Itoa(3*b), "shared-code-second-result")

	// clones of one VM
	machine := New(code, WithGlobals(g0), WithImporter(shared))
	if err := machine.Run(context.Background()); err != nil {
		return
	}
	impObj, ierr := machine.Get("imp")
	impFn, isImp := impObj.(*object.Function)
	fobj, gerr := machine.Get("f")
	fn, isFn := fobj.(*object.Function)
	if gerr != nil || !isFn {
		return
	}
	c0, e0 := machine.Clone()
	c1, e1 := machine.Clone()
	if e0 != nil || e1 != nil {
		return
	}
	var o0, o1 object.Object
	var ce0, ce1 error
	wg.Add(2)
	go func() {
		defer wg.Done()
		o0, ce0 = c0.Call(context.Background(), fn, []object.Object{object.NewInt(1)})
	}()
	go func() {
		defer wg.Done()
		o1, ce1 = c1.Call(context.Background(), fn, []object.Object{object.NewInt(2)})
	}()
	wg.Wait()
	verifrt.Reach("clones-done")
	v0, ok0 := asInt(o0)
	v1, ok1 := asInt(o1)
	verifrt.Assert(ce0 == nil && ok0 && v0 == int64(2+a), "first-clone-result")
	verifrt.Assert(ce1 == nil && ok1 && v1 == int64(4+a), "second-clone-result")
	// two more clones import a module (not imported before) at the same time
	if ierr != nil || !isImp {
		return
	}
	c2, e2 := machine.Clone()
	c3, e3 := machine.Clone()
	if e2 != nil || e3 != nil {
		return
	}
	var o2, o3 object.Object
	var ce2, ce3 error
	wg.Add(2)
	go func() {
		defer wg.Done()
		o2, ce2 = c2.Call(context.Background(), impFn, []object.Object{object.NewInt(10)})
	}()
	go func() {
		defer wg.Done()
		o3, ce3 = c3.Call(context.Background(), impFn, []object.Object{object.NewInt(20)})
	}()
	wg.Wait()
	verifrt.Reach("clone-imports-done")
	v2, ok2 := asInt(o2)
	v3, ok3 := asInt(o3)
	verifrt.Assert(ce2 == nil && ok2 && v2 == 11, "first-importing-clone-result")
	verifrt.Assert(ce3 == nil && ok3 && v3 == 21, "second-importing-clone-result")
}
