//go:build verif

package vm

import (
	"math"

	"github.com/risor-io/risor/internal/verifrt"
	"github.com/risor-io/risor/object"
)

// ---- specification snapshot of the language's binary operators (DESIGN §5 C01-2) ----
// Higher level binds tighter; every level is left-associative.

type c01Op struct {
	text  string
	level int
}

var c01Infix = []c01Op{
	{"||", 1}, {"&&", 1},
	{"==", 2}, {"!=", 2},
	{"<", 3}, {"<=", 3}, {">", 3}, {">=", 3},
	{"+", 4}, {"-", 4},
	{"*", 5}, {"/", 5}, {"&", 5}, {"<<", 5}, {">>", 5},
	{"**", 6},
	{"%", 7},
}

// reference value domain
type rv struct {
	kind   int // 0 int, 1 bool, 2 error, 3 unspecified
	i      int64
	b      bool
}

func rvInt(i int64) rv  { return rv{kind: 0, i: i} }
func rvBool(b bool) rv  { return rv{kind: 1, b: b} }
func rvErr() rv         { return rv{kind: 2} }
func rvUnspec() rv      { return rv{kind: 3} }
func (v rv) truthy() bool {
	if v.kind == 0 {
		return v.i != 0
	}
	return v.b
}

func refApply(o string, x, y rv) rv {
	if x.kind >= 2 {
		return x
	}
	if y.kind >= 2 {
		return y
	}
	switch o {
	case "&&":
		if x.truthy() {
			return y
		}
		return x
	case "||":
		if x.truthy() {
			return x
		}
		return y
	case "==", "!=":
		eq := false
		if x.kind == y.kind {
			if x.kind == 0 {
				eq = x.i == y.i
			} else {
				eq = x.b == y.b
			}
		}
		if o == "!=" {
			eq = !eq
		}
		return rvBool(eq)
	case "<", "<=", ">", ">=":
		if x.kind != y.kind {
			return rvErr()
		}
		var c int
		if x.kind == 0 {
			if x.i < y.i {
				c = -1
			} else if x.i > y.i {
				c = 1
			}
		} else {
			if x.b != y.b {
				if x.b {
					c = 1
				} else {
					c = -1
				}
			}
		}
		switch o {
		case "<":
			return rvBool(c < 0)
		case "<=":
			return rvBool(c <= 0)
		case ">":
			return rvBool(c > 0)
		}
		return rvBool(c >= 0)
	}
	// arithmetic: ints only
	if x.kind != 0 || y.kind != 0 {
		return rvErr()
	}
	a, b := x.i, y.i
	switch o {
	case "+":
		return rvInt(a + b)
	case "-":
		return rvInt(a - b)
	case "*":
		return rvInt(a * b)
	case "/":
		if b == 0 {
			return rvErr()
		}
		return rvInt(a / b)
	case "%":
		if b == 0 {
			return rvErr()
		}
		return rvInt(a % b)
	case "&":
		return rvInt(a & b)
	case "<<":
		if b < 0 {
			return rvUnspec()
		}
		return rvInt(a << uint64(b))
	case ">>":
		if b < 0 {
			return rvUnspec()
		}
		return rvInt(a >> uint64(b))
	case "**":
		return rvInt(int64(math.Pow(float64(a), float64(b))))
	}
	return rvUnspec()
}

func c01CheckResult(r *scriptRun, want rv, label string) {
	switch want.kind {
	case 3:
		return
	case 2:
		verifrt.Assert(r.err != nil, label+":must-raise-error")
	case 0:
		verifrt.Assert(r.err == nil, label+":no-error")
		if r.err == nil {
			iv, ok := r.result.(*object.Int)
			verifrt.Assert(ok && iv.Value() == want.i, label+":int-value")
		}
	case 1:
		verifrt.Assert(r.err == nil, label+":no-error")
		if r.err == nil {
			bv, ok := r.result.(*object.Bool)
			verifrt.Assert(ok && bv.Value() == want.b, label+":bool-value")
		}
	}
}

// c01Small keeps * / % ** within reach of the solver (DESIGN §2.4): operands
// of those operators have at most 16 significant bits.
func c01Small(v int64) bool { return verifrt.And(v >= -32768, v <= 32767) }

// HarnessC01Precedence: a op1 b op2 c for every ordered pair of infix
// operators, symbolic operands, against the tree dictated by the snapshot.
func HarnessC01Precedence() {
	i1, i2 := verifrt.Choose(len(c01Infix)), verifrt.Choose(len(c01Infix))
	o1, o2 := c01Infix[i1], c01Infix[i2]
	a, b, c := verifrt.Int64(), verifrt.Int64(), verifrt.Int64()
	hard := func(o string) bool { return o == "*" || o == "/" || o == "%" || o == "**" }
	if hard(o1.text) || hard(o2.text) {
		verifrt.Assume(verifrt.And(c01Small(a), verifrt.And(c01Small(b), c01Small(c))))
	}
	src := "a " + o1.text + " b " + o2.text + " c"
	env := (&scriptEnv{}).addInt("a", a).addInt("b", b).addInt("c", c)
	r := runScript(src, env)
	verifrt.Assert(r.stage == "run" || r.stage == "ok", "parses-and-compiles")
	var want rv
	if o2.level > o1.level {
		want = refApply(o1.text, rvInt(a), refApply(o2.text, rvInt(b), rvInt(c)))
		// short-circuit: a || (..) does not evaluate the right side's errors
		if (o1.text == "||" && a != 0) || (o1.text == "&&" && a == 0) {
			want = rvInt(a)
		}
	} else {
		left := refApply(o1.text, rvInt(a), rvInt(b))
		want = refApply(o2.text, left, rvInt(c))
		if left.kind < 2 && ((o2.text == "||" && left.truthy()) || (o2.text == "&&" && !left.truthy())) {
			want = left
		}
	}
	c01CheckResult(r, want, "prec")
	verifrt.Reach("done")
}
