//go:build verif

package vm

import (
	"context"

	"github.com/risor-io/risor/builtins"
	"github.com/risor-io/risor/compiler"
	"github.com/risor-io/risor/internal/verifrt"
	"github.com/risor-io/risor/object"
	"github.com/risor-io/risor/parser"
)

func c07Compile(src string, names []string) *compiler.Code {
	prog, err := parser.Parse(context.Background(), src)
	if err != nil {
		return nil
	}
	code, err := compiler.Compile(prog, compiler.WithGlobalNames(names))
	if err != nil {
		return nil
	}
	return code
}

// first invocations, one per outcome class; every one defines h first
const c07Pre = "h := func(p) { return p + 1 }\nfunc deep(k) { if k <= 0 { return 0 }; return 1 + deep(k - 1) }\nfunc over(k) { return 1 + (2 + (3 + over(k + 1))) }\n"

var c07First = []struct{ name, src string; fails bool }{
	{"normal", c07Pre + "x := a\nx", false},
	{"error-depth-0", c07Pre + "[1][5]", true},
	{"error-depth-2", c07Pre + "f := func() { g := func() { return [1][5] }; return g() + 1 }\nf() + 1", true},
	{"raised-error-in-callback", c07Pre + "[1, 2].map(func(v) { error(\"boom\") })", true},
	{"go-panic-divide-by-zero", c07Pre + "z := 0\n1 + (a / z)", true},
	{"frame-overflow", c07Pre + "func r(k) { return r(k + 1) }\nr(0)", true},
	{"stack-overflow", c07Pre + "func s(k) { return 1 + (2 + (3 + s(k + 1))) }\ns(0)", true},
	{"error-with-pending-operands", c07Pre + "l := [a, a + 1, [1][7], 4]", true},
}

// HarnessC07HistoryIndependence: after an invocation of any outcome class, a
// further RunCode or Call gives what a fresh VM gives.
func HarnessC07HistoryIndependence() {
	ctx := context.Background()
	a, b := verifrt.Int64(), verifrt.Int64()
	globals := map[string]any{"a": object.NewInt(a), "b": object.NewInt(b)}
	for name, bi := range builtins.Builtins() {
		globals[name] = bi
	}
	// a module the host configured as a global: importable in every invocation
	globals["cfgmod"] = object.NewBuiltinsModule("cfgmod", map[string]object.Object{
		"twice": object.NewBuiltin("twice", func(ctx context.Context, args ...object.Object) object.Object {
			if len(args) != 1 {
				return object.Errorf("twice: one argument")
			}
			v, _ := asInt(args[0])
			return object.NewInt(2 * v)
		}),
	})
	names := make([]string, 0, len(globals))
	for n := range globals {
		names = append(names, n)
	}
	steps := 1
	if verifrt.Thorough() {
		steps = 2
	}
	var machine *VirtualMachine
	for s := 0; s < steps; s++ {
		fi := verifrt.Choose(len(c07First))
		f := c07First[fi]
		code := c07Compile(f.src, names)
		verifrt.Assert(code != nil, "setup-compiles")
		if code == nil {
			return
		}
		var err error
		if machine == nil {
			machine = New(code, WithGlobals(globals))
			err = machine.Run(ctx)
		} else {
			err = machine.RunCode(ctx, code)
		}
		verifrt.Assert((err != nil) == f.fails, f.name+":outcome-class-as-intended")
		verifrt.Assert(!machine.running, f.name+":not-running-after-return")
	}
	// the function h defined by the last invocation is available in every class
	hObj, gerr := machine.Get("h")
	verifrt.Assert(gerr == nil, "global-defined-before-the-failure-is-available")
	if gerr != nil {
		return
	}
	h := hObj.(*object.Function)
	// optionally a failing Call (operand-stack overflow inside Call) comes in between
	if verifrt.Bool() {
		overObj, oerr := machine.Get("over")
		verifrt.Assert(oerr == nil, "global-defined-before-the-failure-is-available")
		if oerr == nil {
			spBefore := machine.sp
			_, cerr := machine.Call(ctx, overObj.(*object.Function), []object.Object{object.NewInt(0)})
			verifrt.Assert(cerr != nil, "overflowing-call-fails")
			verifrt.Assert(machine.sp == spBefore, "failed-call-leaves-the-operand-stack-as-it-was")
			verifrt.Assert(!machine.running, "not-running-after-failed-call")
		}
	}
	switch verifrt.Choose(5) {
	case 4:
		// the same compiled code run twice, the host changing a global in between:
		// the second run sees the new value
		code4 := c07Compile("a * 2 + b", names)
		verifrt.Assert(code4 != nil, "setup-compiles")
		if code4 == nil {
			return
		}
		err := machine.RunCode(ctx, code4)
		verifrt.Assert(err == nil, "runcode-after-history-succeeds")
		g2 := map[string]any{}
		for k, v := range globals {
			g2[k] = v
		}
		g2["a"] = object.NewInt(b)
		err = machine.RunCode(ctx, code4, WithGlobals(g2))
		verifrt.Reach("runcode-same-code-twice")
		verifrt.Assert(err == nil, "second-run-of-the-same-code-succeeds")
		if err == nil {
			tos, ok := machine.TOS()
			iv, isInt := asInt(tos)
			verifrt.Assert(ok && isInt && iv == b*2+b, "second-run-of-the-same-code-sees-the-new-globals")
		}
	case 3:
		// a module configured as a global is importable whatever came before
		code3 := c07Compile("import cfgmod\ncfgmod.twice(b)", names)
		verifrt.Assert(code3 != nil, "setup-compiles")
		if code3 == nil {
			return
		}
		err := machine.RunCode(ctx, code3)
		verifrt.Reach("runcode-import")
		verifrt.Assert(err == nil, "runcode-importing-a-configured-module-after-history-succeeds")
		if err == nil {
			tos, ok := machine.TOS()
			iv, isInt := asInt(tos)
			verifrt.Assert(ok && isInt && iv == 2*b, "runcode-import-after-history-value")
		}
	case 2:
		// a deeply recursive call needs the whole frame/stack capacity
		deepObj, derr := machine.Get("deep")
		verifrt.Assert(derr == nil, "global-defined-before-the-failure-is-available")
		if derr != nil {
			return
		}
		res, err := machine.Call(ctx, deepObj.(*object.Function), []object.Object{object.NewInt(900)})
		verifrt.Reach("deep-call")
		verifrt.Assert(err == nil, "deep-call-after-history-succeeds")
		if err == nil {
			iv, ok := asInt(res)
			verifrt.Assert(ok && iv == 900, "deep-call-after-history-value")
		}
	case 0:
		res, err := machine.Call(ctx, h, []object.Object{object.NewInt(b)})
		verifrt.Reach("call")
		verifrt.Assert(err == nil, "call-after-history-succeeds")
		if err == nil {
			iv, ok := asInt(res)
			verifrt.Assert(ok && iv == b+1, "call-after-history-value")
		}
		verifrt.Assert(!machine.running, "not-running-after-call")
	case 1:
		code2 := c07Compile("t := 0\nfor i := 0; i < 2; i++ { t += b }\nw := func(p) { return p - a }\nw(t)", names)
		err := machine.RunCode(ctx, code2)
		verifrt.Reach("runcode")
		verifrt.Assert(err == nil, "runcode-after-history-succeeds")
		if err == nil {
			tos, ok := machine.TOS()
			iv, isInt := asInt(tos)
			verifrt.Assert(ok && isInt && iv == b+b-a, "runcode-after-history-value")
			verifrt.Assert(machine.sp == 0, "runcode-after-history-leaves-exactly-its-result")
		}
		verifrt.Assert(!machine.running, "not-running-after-runcode")
	}
}

// HarnessC07FailedImportHistory: an import that failed in an earlier Call does
// not leave a half-initialised module behind for a later Call.
func HarnessC07FailedImportHistory() {
	ctx := context.Background()
	a := verifrt.Int64()
	cfg := object.NewMap(map[string]object.Object{"fail": object.True})
	globals := map[string]any{"a": object.NewInt(a), "cfg": cfg}
	for name, bi := range builtins.Builtins() {
		globals[name] = bi
	}
	names := make([]string, 0, len(globals))
	for n := range globals {
		names = append(names, n)
	}
	imp := &memImporter{sources: map[string]string{
		"m": "y := a\nif cfg[\"fail\"] { error(\"boom\") }\nz := a + 1",
	}, names: names, calls: map[string]int{}}
	code := c07Compile("f := func() { import m\n return m.z - m.y }\ng := func() { return f() + 1 }\n0", names)
	verifrt.Assert(code != nil, "setup-compiles")
	if code == nil {
		return
	}
	machine := New(code, WithGlobals(globals), WithImporter(imp))
	verifrt.Assert(machine.Run(ctx) == nil, "setup-runs")
	which := "f"
	if verifrt.Bool() {
		which = "g" // failure one call level deeper
	}
	fObj, err := machine.Get(which)
	verifrt.Assert(err == nil, "function-available")
	if err != nil {
		return
	}
	fn := fObj.(*object.Function)
	_, err1 := machine.Call(ctx, fn, nil)
	verifrt.Assert(err1 != nil, "first-call-fails-in-the-import")
	cfg.Set("fail", object.False)
	res, err2 := machine.Call(ctx, fn, nil)
	verifrt.Reach("second-call")
	verifrt.Assert(err2 == nil, "call-after-failed-import-succeeds")
	if err2 == nil {
		want := int64(1)
		if which == "g" {
			want = 2
		}
		iv, ok := asInt(res)
		verifrt.Assert(ok && iv == want, "call-after-failed-import-sees-a-fully-initialised-module")
	}
}

// HarnessC07EarlierContexts: events that concern an earlier invocation's context
// never cut a later invocation short or make it return a wrong value.
func HarnessC07EarlierContexts() {
	a := verifrt.Int64()
	globals := map[string]any{"a": object.NewInt(a)}
	for name, bi := range builtins.Builtins() {
		globals[name] = bi
	}
	names := make([]string, 0, len(globals))
	for n := range globals {
		names = append(names, n)
	}
	verifrt.SchedBounds(1, 2)
	ctx1, cancel1 := context.WithCancel(context.Background())
	defer cancel1()
	second := c07Compile("t := 0\nfor i := 0; i < 6; i++ { t += a }\nt", names)
	verifrt.Assert(second != nil, "setup-compiles")
	if second == nil {
		return
	}
	var machine *VirtualMachine
	switch verifrt.Choose(2) {
	case 0:
		// invocation 1 finishes normally under ctx1; ctx1 is cancelled at some
		// instant during invocation 2
		first := c07Compile("h := func(p) { return p + 1 }\nh(a)", names)
		machine = New(first, WithGlobals(globals))
		verifrt.Assert(machine.Run(ctx1) == nil, "first-invocation-succeeds")
		verifrt.AtYield(1+verifrt.Choose(40), cancel1)
		verifrt.Reach("earlier-context-cancelled-later")
	case 1:
		// invocation 1 is cancelled mid-run
		first := c07Compile("h := func(p) { return p + 1 }\nfor { }", names)
		machine = New(first, WithGlobals(globals))
		verifrt.AtYield(1+verifrt.Choose(12), cancel1)
		verifrt.Assert(machine.Run(ctx1) != nil, "first-invocation-is-cancelled")
		verifrt.Reach("earlier-invocation-cancelled")
	}
	var ctx2 context.Context = context.Background()
	if verifrt.Bool() {
		c, cancel2 := context.WithCancel(context.Background())
		defer cancel2()
		ctx2 = c
	}
	if verifrt.Bool() {
		// the later invocation is a Call of a function defined by the first one
		hObj, herr := machine.Get("h")
		verifrt.Assert(herr == nil, "function-of-first-invocation-available")
		if herr != nil {
			return
		}
		hFn, isFn := hObj.(*object.Function)
		if !isFn {
			return // the first invocation was cancelled before it defined h
		}
		res, cerr := machine.Call(ctx2, hFn, []object.Object{object.NewInt(a)})
		verifrt.Assert(cerr == nil, "later-call-is-not-cut-short")
		if cerr == nil {
			iv, isInt := asInt(res)
			verifrt.Assert(isInt && iv == a+1, "later-call-returns-its-own-value")
		}
		return
	}
	err := machine.RunCode(ctx2, second)
	verifrt.Assert(err == nil, "later-invocation-is-not-cut-short")
	if err == nil {
		tos, ok := machine.TOS()
		iv, isInt := asInt(tos)
		verifrt.Assert(ok && isInt && iv == 6*a, "later-invocation-returns-its-own-value")
	}
	// and a Call afterwards
	hObj, gerr := machine.Get("t")
	_ = hObj
	verifrt.Assert(gerr == nil, "globals-of-the-later-invocation-available")
}
