//go:build verif

package vm

import (
	"context"
	"strings"

	"github.com/risor-io/risor/builtins"
	"github.com/risor-io/risor/compiler"
	"github.com/risor-io/risor/internal/verifrt"
	"github.com/risor-io/risor/object"
	"github.com/risor-io/risor/parser"
)

// replSession feeds pieces to one compiler and one VM the way cmd/risor/repl does.
type replSession struct {
	c       *compiler.Compiler
	v       *VirtualMachine
	globals map[string]any
	emitted []object.Object
	// importer, when set before the first piece, serves import statements
	importer interface {
		Import(ctx context.Context, name string) (*object.Module, error)
	}
}

func newReplSession(env *scriptEnv) *replSession {
	s := &replSession{globals: map[string]any{}}
	for name, b := range builtins.Builtins() {
		s.globals[name] = b
	}
	for i, n := range env.names {
		s.globals[n] = env.vals[i]
	}
	s.globals["emit"] = object.NewBuiltin("emit", func(ctx context.Context, args ...object.Object) object.Object {
		s.emitted = append(s.emitted, args...)
		return object.Nil
	})
	names := make([]string, 0, len(s.globals))
	for n := range s.globals {
		names = append(names, n)
	}
	c, err := compiler.New(compiler.WithGlobalNames(names))
	if err != nil {
		return nil
	}
	s.c = c
	return s
}

// eval mirrors getEvaluator in cmd/risor/repl/repl.go.
func (s *replSession) eval(src string) (object.Object, error, string) {
	ctx := context.Background()
	prog, err := parser.Parse(ctx, src)
	if err != nil {
		return nil, err, "parse"
	}
	code, err := s.c.Compile(prog)
	if err != nil {
		return nil, err, "compile"
	}
	if s.v == nil {
		if s.importer != nil {
			s.v = New(code, WithGlobals(s.globals), WithImporter(s.importer))
		} else {
			s.v = New(code, WithGlobals(s.globals))
		}
	}
	if err := s.v.Run(ctx); err != nil {
		s.v.SetIP(code.InstructionCount())
		return nil, err, "run"
	}
	res, ok := s.v.TOS()
	if !ok || res == nil {
		return object.Nil, nil, "ok"
	}
	return res, nil, "ok"
}

func (s *replSession) get(name string) (int64, bool) {
	if s.v == nil {
		return 0, false
	}
	o, err := s.v.Get(name)
	if err != nil {
		return 0, false
	}
	return asInt(o)
}

type c18Prog struct {
	name  string
	stmts []string
	vars  []string // globals to compare at the end
}

var c18Progs = []c18Prog{
	{"assign-chain", []string{"x := a", "y := x + b", "x = y - c", "x + y"}, []string{"x", "y"}},
	{"func-then-call", []string{"f := func(p) { p + a }", "z := f(b)", "z = f(z)", "z"}, []string{"z"}},
	{"named-func-then-call", []string{"func g(p) { return p - a }", "z := g(b)", "g(z)"}, []string{"z"}},
	{"loop-between", []string{"s := 0", "for i := 0; i < 3; i++ { s += a }", "t := s + b", "t"}, []string{"s", "t"}},
	{"closure-state", []string{"mk := func() { k := a; return func() { k = k + 1; return k } }", "h := mk()", "h()", "r := h()", "r"}, []string{"r"}},
	{"list-mutation", []string{"l := [a]", "l.append(b)", "l[0] = c", "q := l[0] + l[1]", "q"}, []string{"q"}},
	{"if-statement-piece", []string{"x := a", "if x > b { x = b }", "x"}, []string{"x"}},
	{"emit-order", []string{"emit(a)", "x := b", "emit(x)", "emit(c)", "x"}, []string{"x"}},
	{"const-then-use", []string{"const k = 5", "x := k + a", "x"}, []string{"x"}},
	{"function-reads-global-reassigned-later", []string{"x := a", "f := func() { return x }", "x = b", "r := f()", "r"}, []string{"x", "r"}},
	{"named-function-reads-global-reassigned-later", []string{"x := a", "func g2() { return x }", "x = b", "r := g2()", "r"}, []string{"x", "r"}},
	{"host-global-reassigned-by-a-piece", []string{"a = a + 1", "y := a", "a = a + 1", "z := a + y", "z"}, []string{"y", "z"}},
	{"forward-reference-inside-a-later-piece", []string{"x := a", "func first() { return second() + 1 }\nfunc second() { return x + 18 }", "r := first()", "r"}, []string{"r"}},
	{"three-pieces-accumulate", []string{"l := []", "l.append(a)", "l.append(b)", "l.append(c)", "q := l[0] + l[1] + l[2]", "q"}, []string{"q"}},
	{"piece-ends-with-a-loop", []string{"s := 0", "for i := 0; i < 3; i++ { s += a }", "s = s + 1", "s"}, []string{"s"}},
	{"closure-from-a-factory-sees-later-globals", []string{"x := a", "mk := func() { return func() { x = x + 10; return x } }", "g := mk()", "y := b", "r1 := g()", "x = x + y", "r2 := g()", "r1 + r2 + x"}, []string{"x", "y", "r1", "r2"}},
	{"function-nested-in-a-named-function", []string{"x := a", "func outer() { inner := func() { return x + 1 }; return inner }", "h := outer()", "z := c", "x = b", "r := h() + z", "r"}, []string{"x", "r"}},
	{"switch-piece", []string{"x := 0", "switch a {\ncase 1:\n x = 10\ndefault:\n x = 20\n}", "x + b"}, []string{"x"}},
}

// HarnessC18SplitEquivalence: every partition of the top-level statements into
// consecutive pieces gives the same globals, last value and effect order as
// evaluating the whole program at once.
func HarnessC18SplitEquivalence() {
	p := c18Progs[verifrt.Choose(len(c18Progs))]
	a, b, c := verifrt.Int64(), verifrt.Int64(), verifrt.Int64()
	mkEnv := func() *scriptEnv { return (&scriptEnv{}).addInt("a", a).addInt("b", b).addInt("c", c) }

	whole := newReplSession(mkEnv())
	wres, werr, _ := whole.eval(strings.Join(p.stmts, "\n"))
	verifrt.Assert(werr == nil, p.name+":whole-program-runs")
	if werr != nil {
		return
	}

	parts := newReplSession(mkEnv())
	var last object.Object
	piece := ""
	for i, st := range p.stmts {
		if piece == "" {
			piece = st
		} else {
			piece = piece + "\n" + st
		}
		cut := i == len(p.stmts)-1 || verifrt.Bool()
		if cut {
			res, err, stage := parts.eval(piece)
			verifrt.Assert(err == nil, p.name+":piece-runs:"+stage)
			if err != nil {
				return
			}
			last = res
			piece = ""
			// the operand stack does not grow with the number of pieces fed: a
			// finished piece leaves at most its own value (otherwise a long
			// session ends in a stack overflow that the whole program does not have)
			verifrt.Assert(parts.v.sp <= 0, p.name+":operand-stack-does-not-grow-with-the-pieces")
		}
	}
	verifrt.Reach("compared")
	for _, v := range p.vars {
		wv, wok := whole.get(v)
		pv, pok := parts.get(v)
		verifrt.Assert(wok == pok && (!wok || wv == pv), p.name+":same-globals")
	}
	wi, wIsInt := asInt(wres)
	li, lIsInt := asInt(last)
	verifrt.Assert(wIsInt == lIsInt && (!wIsInt || wi == li), p.name+":same-last-value")
	verifrt.Assert(len(whole.emitted) == len(parts.emitted), p.name+":same-effect-count")
	if len(whole.emitted) == len(parts.emitted) {
		for i := range whole.emitted {
			x, _ := asInt(whole.emitted[i])
			y, _ := asInt(parts.emitted[i])
			verifrt.Assert(x == y, p.name+":same-effect-order")
		}
	}
}

var c18Rejected = []struct{ name, src string }{
	{"syntax-error", "x = = 2"},
	{"undefined-name-first", "zz + 1"},
	{"undefined-name-after-output", "y := x + 1 + zz"},
	{"undefined-name-in-second-statement", "w := 1\nv := zz"},
	{"const-reassign", "const k = 1\nk = 2"},
	{"undefined-in-function-body", "f := func() { return qq }"},
	{"undefined-in-call-args", "emit(x, zz)"},
	{"call-then-undefined", "emit(7) + zz"},
	{"pipe-into-undefined-name", "x | no_such_function"},
	{"const-with-undefined-initializer", "const x2 = x * zz"},
	{"assign-call-result-to-undefined-name", "zz = emit(7)"},
	{"assign-call-result-to-constant", "const k2 = 1\nk2 = emit(7)"},
	{"assign-failing-index-to-undefined-name", "zz = [1, 2, 3][7]"},
	{"compound-assign-to-undefined-name", "zz += emit(7)"},
}

// HarnessC18RejectedPieceHasNoEffect: a piece rejected by the parser or the
// compiler leaves later pieces exactly as if it had never been entered.
func HarnessC18RejectedPieceHasNoEffect() {
	rj := c18Rejected[verifrt.Choose(len(c18Rejected))]
	a := verifrt.Int64()
	s := newReplSession((&scriptEnv{}).addInt("a", a))
	_, err, _ := s.eval("x := a + 1")
	verifrt.Assert(err == nil, "first-piece-runs")
	if err != nil {
		return
	}
	_, rerr, _ := s.eval(rj.src)
	verifrt.Assert(rerr != nil, rj.name+":piece-is-rejected")
	if rerr == nil {
		return
	}
	// the piece after the rejected one uses plain calls, a pipe and may declare the
	// name the rejected piece tried to declare
	_, errp, stagep := s.eval("const x2 = 4\nidf := func(v) { return v }\nq := idf(x2) | idf")
	verifrt.Assert(errp == nil, rj.name+":later-declarations-and-pipes-unaffected:"+stagep)
	if errp == nil {
		qv, qok := s.get("q")
		verifrt.Assert(qok && qv == 4, rj.name+":later-pipe-value")
	}
	res, err3, stage := s.eval("x = x + 1\nx * 2")
	verifrt.Reach("after-rejected")
	verifrt.Assert(err3 == nil, rj.name+":later-piece-unaffected:"+stage)
	if err3 == nil {
		iv, ok := asInt(res)
		verifrt.Assert(ok && iv == (a+2)*2, rj.name+":later-piece-value")
		xv, xok := s.get("x")
		verifrt.Assert(xok && xv == a+2, rj.name+":later-piece-globals")
	}
	verifrt.Assert(len(s.emitted) == 0, rj.name+":rejected-piece-ran-nothing")
	if rj.name == "undefined-name-in-second-statement" {
		// the rejected piece's first statement must not have defined w
		_, werr, _ := s.eval("w")
		verifrt.Assert(werr != nil, rj.name+":rejected-piece-defined-nothing")
	}
}

// HarnessC18FailingPieceKeepsEarlierEffects: a piece failing at run time leaves
// the effects made before the failure and later pieces work.
func HarnessC18FailingPieceKeepsEarlierEffects() {
	a, i := verifrt.Int64(), verifrt.Int64()
	s := newReplSession((&scriptEnv{}).addInt("a", a).addInt("i", i))
	_, err, _ := s.eval("x := a\nl := [1, 2, 3]")
	verifrt.Assert(err == nil, "first-piece-runs")
	if err != nil {
		return
	}
	_, ferr, stage := s.eval("x = x + 1\ny := l[i]\nx = x + 100")
	inRange := i >= -3 && i < 3
	if inRange {
		verifrt.Reach("piece-succeeds")
		verifrt.Assert(ferr == nil, "in-range-piece-succeeds:"+stage)
	} else {
		verifrt.Reach("piece-fails")
		verifrt.Assert(ferr != nil && stage == "run", "out-of-range-piece-fails-at-run-time")
	}
	res, err3, stage3 := s.eval("x + 1")
	verifrt.Assert(err3 == nil, "later-piece-runs:"+stage3)
	if err3 == nil {
		iv, ok := asInt(res)
		want := a + 1 + 1
		if inRange {
			want = a + 1 + 100 + 1
		}
		verifrt.Assert(ok && iv == want, "later-piece-sees-effects-before-failure-only")
	}
}
