//go:build verif

package vm

import (
	"context"
	"fmt"

	"github.com/risor-io/risor/builtins"
	"github.com/risor-io/risor/compiler"
	"github.com/risor-io/risor/importer"
	"github.com/risor-io/risor/internal/verifrt"
	"github.com/risor-io/risor/object"
	"github.com/risor-io/risor/parser"
)

// memImporter serves modules from memory and counts Import calls.
type memImporter struct {
	sources map[string]string
	names   []string
	calls   map[string]int
}

func (mi *memImporter) Import(ctx context.Context, name string) (*object.Module, error) {
	mi.calls[name]++
	src, ok := mi.sources[name]
	if !ok {
		return nil, fmt.Errorf("import error: module %q not found", name)
	}
	prog, err := parser.Parse(ctx, src)
	if err != nil {
		return nil, err
	}
	code, err := compiler.Compile(prog, compiler.WithGlobalNames(mi.names))
	if err != nil {
		return nil, err
	}
	return object.NewModule(name, code), nil
}

type c14Case struct {
	name    string
	modules map[string]string
	main    string
	// expectations given symbolic a, b
	want  func(a, b int64) int64
	ticks map[string]int // module body executions
}

var c14Cases = []c14Case{
	{"single-import", map[string]string{"m": "tick(\"m\")\nx := a + 1"}, "import m\nm.x", func(a, b int64) int64 { return a + 1 }, map[string]int{"m": 1}},
	{"repeated-import-runs-once", map[string]string{"m": "tick(\"m\")\nx := a"}, "import m\nimport m\nimport m as again\nm.x - again.x", func(a, b int64) int64 { return 0 }, map[string]int{"m": 1}},
	{"alias-sees-same-state", map[string]string{"m": "tick(\"m\")\nk := a\nfunc bump() { k = k + 1 }\nfunc get() { return k }"}, "import m\nimport m as n\nm.bump()\nn.bump()\nm.get() + n.get()", func(a, b int64) int64 { return 2 * (a + 2) }, map[string]int{"m": 1}},
	{"transitive", map[string]string{"lib": "tick(\"lib\")\nbase := a", "mid": "tick(\"mid\")\nimport lib\nv := lib.base + 1"}, "import mid\nimport lib\nmid.v + lib.base", func(a, b int64) int64 { return a + 1 + a }, map[string]int{"lib": 1, "mid": 1}},
	{"diamond", map[string]string{"lib": "tick(\"lib\")\nk := a", "l": "tick(\"l\")\nimport lib\nv := lib.k + 1", "r": "tick(\"r\")\nimport lib\nv := lib.k + 2"}, "import l\nimport r\nl.v + r.v", func(a, b int64) int64 { return 2*a + 3 }, map[string]int{"lib": 1, "l": 1, "r": 1}},
	{"module-globals-are-separate", map[string]string{"m": "tick(\"m\")\nx := a\nfunc getx() { return x }"}, "x := b\nimport m\nx = x + 100\nm.getx() - a + x", func(a, b int64) int64 { return b + 100 }, map[string]int{"m": 1}},
	{"writing-importer-variable-leaves-module", map[string]string{"m": "tick(\"m\")\ny := a\nfunc gety() { return y }"}, "import m\ny := b\ny = y + 1\nm.gety() + m.y", func(a, b int64) int64 { return 2 * a }, map[string]int{"m": 1}},
	{"two-modules-same-names", map[string]string{"p": "tick(\"p\")\nv := a", "q": "tick(\"q\")\nv := b"}, "import p\nimport q\np.v - q.v", func(a, b int64) int64 { return a - b }, map[string]int{"p": 1, "q": 1}},
	{"from-import-symbol", map[string]string{"m": "tick(\"m\")\nx := a + 5\nfunc f(p) { return p + x }"}, "from m import x, f as g\ng(x)", func(a, b int64) int64 { return 2 * (a + 5) }, map[string]int{"m": 1}},
	{"from-import-one-name-under-two-aliases", map[string]string{"m": "tick(\"m\")\nx := a\ny := b"}, "from m import x as p, y as q, x as r\np + q + r", func(a, b int64) int64 { return 2*a + b }, map[string]int{"m": 1}},
	{"from-import-and-import", map[string]string{"m": "tick(\"m\")\nx := a"}, "from m import x\nimport m\nx + m.x", func(a, b int64) int64 { return 2 * a }, map[string]int{"m": 1}},
	{"quoted-path-import", map[string]string{"dir/m": "tick(\"dir/m\")\nx := a"}, "import \"dir/m\"\nm.x", func(a, b int64) int64 { return a }, map[string]int{"dir/m": 1}},
	{"nested-module-imported-twice", map[string]string{"dir/m": "tick(\"dir/m\")\nk := a\nfunc bump() { k = k + 1 }\nfunc get() { return k }"}, "import \"dir/m\"\nimport \"dir/m\" as again\nm.bump()\nagain.bump()\nm.get() + again.get()", func(a, b int64) int64 { return 2 * (a + 2) }, map[string]int{"dir/m": 1}},
	{"nested-module-from-import-after-import", map[string]string{"dir/m": "tick(\"dir/m\")\nx := a"}, "import \"dir/m\"\nfrom dir.m import x\nx + m.x", func(a, b int64) int64 { return 2 * a }, map[string]int{"dir/m": 1}},
	{"nested-and-top-level-same-base-name", map[string]string{"dir/m": "tick(\"dir/m\")\nx := a", "m": "tick(\"m\")\nx := b"}, "import \"dir/m\" as inner\nimport m\ninner.x - m.x", func(a, b int64) int64 { return a - b }, map[string]int{"dir/m": 1, "m": 1}},
	{"module-attribute-follows-rebinding-by-module-function", map[string]string{"m": "tick(\"m\")\ncount := a\nfunc inc() { count = count + 1 }\nfunc get() { return count }"}, "import m\nm.inc()\nm.inc()\nm.count + m.get()", func(a, b int64) int64 { return 2 * (a + 2) }, map[string]int{"m": 1}},
	{"other-module-sees-rebinding", map[string]string{"m": "tick(\"m\")\ncount := a\nfunc inc() { count = count + b }", "u": "tick(\"u\")\nimport m\nfunc peek() { return m.count }"}, "import m\nimport u\nm.inc()\nu.peek() + m.count", func(a, b int64) int64 { return 2 * (a + b) }, map[string]int{"m": 1, "u": 1}},
	{"from-import-after-rebinding", map[string]string{"m": "tick(\"m\")\ncount := a\nfunc inc() { count = count + 1 }"}, "import m\nm.inc()\nfrom m import count\ncount", func(a, b int64) int64 { return a + 1 }, map[string]int{"m": 1}},
	{"spawned-function-imports-an-already-imported-module", map[string]string{"m": "tick(\"m\")\nk := a\nfunc bump() { k = k + 1; return k }\nfunc get() { return k }"}, "import m\nm.bump()\nr := spawn(func() { import m as again\n return again.bump() }).wait()\nr + m.get()", func(a, b int64) int64 { return 2 * (a + 2) }, map[string]int{"m": 1}},
	{"two-spawned-functions-import-the-same-module", map[string]string{"m": "tick(\"m\")\nk := a\nfunc bump() { k = k + 1; return k }"}, "func f() {\n import m\n return m.bump()\n}\nx := spawn(f).wait()\ny := spawn(f).wait()\nx + y", func(a, b int64) int64 { return 2*a + 3 }, map[string]int{"m": 1}},
	{"function-importing-a-module-called-twice", map[string]string{"m": "tick(\"m\")\nk := a\nfunc bump() { k = k + 1; return k }"}, "func f() {\n import m\n return m.bump()\n}\nx := f()\ny := f()\nx + y", func(a, b int64) int64 { return 2*a + 3 }, map[string]int{"m": 1}},
	{"spawned-function-uses-a-module-imported-by-main", map[string]string{"m": "tick(\"m\")\nk := a\nfunc bump() { k = k + 1; return k }\nfunc get() { return k }"}, "import m\nt := spawn(func() { return m.bump() })\nt.wait() + m.get()", func(a, b int64) int64 { return 2 * (a + 1) }, map[string]int{"m": 1}},
	{"module-attribute-is-the-module-level-variable-not-a-block-local", map[string]string{"m": "tick(\"m\")\nx := a\nif true { x := b\n x = x + 1 }\nfunc getx() { return x }"}, "import m\nm.x - m.getx()", func(a, b int64) int64 { return 0 }, map[string]int{"m": 1}},
	{"import-inside-function-twice", map[string]string{"m": "tick(\"m\")\nx := a"}, "f := func() { import m\n return m.x }\nf() + f()", func(a, b int64) int64 { return 2 * a }, map[string]int{"m": 1}},
}

// HarnessC14ModulesRunOnceSharedSeparate
func HarnessC14ModulesRunOnceSharedSeparate() {
	c := c14Cases[verifrt.Choose(len(c14Cases))]
	a, b := verifrt.Int64(), verifrt.Int64()
	ticks := map[string]int{}
	globals := map[string]any{"a": object.NewInt(a), "b": object.NewInt(b)}
	for name, bi := range builtins.Builtins() {
		globals[name] = bi
	}
	globals["tick"] = object.NewBuiltin("tick", func(ctx context.Context, args ...object.Object) object.Object {
		if len(args) == 1 {
			if s, ok := args[0].(*object.String); ok {
				ticks[s.Value()]++
			}
		}
		return object.Nil
	})
	names := make([]string, 0, len(globals))
	for n := range globals {
		names = append(names, n)
	}
	imp := &memImporter{sources: c.modules, names: names, calls: map[string]int{}}
	ctx := context.Background()
	prog, err := parser.Parse(ctx, c.main)
	verifrt.Assert(err == nil, c.name+":main-parses")
	if err != nil {
		return
	}
	code, err := compiler.Compile(prog, compiler.WithGlobalNames(names))
	verifrt.Assert(err == nil, c.name+":main-compiles")
	if err != nil {
		return
	}
	machine := New(code, WithGlobals(globals), WithImporter(imp), WithConcurrency())
	err = machine.Run(ctx)
	verifrt.Assert(err == nil, c.name+":runs")
	if err != nil {
		return
	}
	verifrt.Reach("ran")
	tos, _ := machine.TOS()
	iv, ok := asInt(tos)
	verifrt.Assert(ok && iv == c.want(a, b), c.name+":value")
	// an import leaves nothing of the module body's evaluation on the stack
	verifrt.Assert(machine.sp == 0, c.name+":import-leaves-no-operand-behind")
	for mod, want := range c.ticks {
		verifrt.Assert(ticks[mod] == want, c.name+":module-body-runs-exactly-once")
	}
	for mod, n := range imp.calls {
		_ = mod
		verifrt.Assert(n <= 1 || c.name == "from-import-symbol" || c.name == "from-import-and-import" || c.name == "from-import-one-name-under-two-aliases", c.name+":importer-asked-once-per-module")
	}
}

// HarnessC14ModulesAcrossPieces: in an incremental session (one compiler, one
// VM, a piece at a time) an imported module keeps its own globals: its
// functions keep working on the module's variables after later pieces added
// globals to the importer, and the importer's variables of the same names stay
// separate.
func HarnessC14ModulesAcrossPieces() {
	a, b := verifrt.Int64(), verifrt.Int64()
	s := newReplSession((&scriptEnv{}).addInt("a", a).addInt("b", b))
	names := make([]string, 0, len(s.globals))
	for n := range s.globals {
		names = append(names, n)
	}
	s.importer = &memImporter{
		sources: map[string]string{"m": "k := a\nfunc bump() { k = k + 1; return k }\nfunc get() { return k }"},
		names:   names, calls: map[string]int{},
	}
	pieces := []string{
		"import m",
		"x := m.bump()",
		"k := b",
		"y := 5",
		"r1 := m.bump()",
		"k = k + 100",
		"r2 := m.get()",
	}
	piece := ""
	for i, st := range pieces {
		if piece == "" {
			piece = st
		} else {
			piece += "\n" + st
		}
		if i == len(pieces)-1 || verifrt.Bool() {
			_, err, stage := s.eval(piece)
			verifrt.Assert(err == nil, "piece-runs:"+stage)
			if err != nil {
				return
			}
			piece = ""
		}
	}
	verifrt.Reach("session-done")
	x, okx := s.get("x")
	r1, ok1 := s.get("r1")
	r2, ok2 := s.get("r2")
	k, okk := s.get("k")
	verifrt.Assert(okx && x == a+1, "module-function-works-on-the-module-variable")
	verifrt.Assert(ok1 && r1 == a+2, "module-variable-survives-later-pieces")
	verifrt.Assert(ok2 && r2 == a+2, "module-variable-untouched-by-the-importer-variable-of-the-same-name")
	verifrt.Assert(okk && k == b+100, "importer-variable-untouched-by-the-module")
}

// HarnessC14LocalImporterTrees: the importer that reads files below a source
// directory keeps modules of the same base name in different directories
// apart, and an evaluation rooted at another directory gets that directory's
// files, whatever an earlier evaluation in the same process imported.
func HarnessC14LocalImporterTrees() {
	a, b, c, d := verifrt.Int64(), verifrt.Int64(), verifrt.Int64(), verifrt.Int64()
	globals := map[string]any{"a": object.NewInt(a), "b": object.NewInt(b), "c": object.NewInt(c), "d": object.NewInt(d)}
	for name, bi := range builtins.Builtins() {
		globals[name] = bi
	}
	names := make([]string, 0, len(globals))
	for n := range globals {
		names = append(names, n)
	}
	run := func(dir, src string) (int64, bool) {
		ctx := context.Background()
		prog, err := parser.Parse(ctx, src)
		if err != nil {
			return 0, false
		}
		code, err := compiler.Compile(prog, compiler.WithGlobalNames(names))
		if err != nil {
			return 0, false
		}
		im := importer.NewLocalImporter(importer.LocalImporterOptions{GlobalNames: names, SourceDir: dir})
		machine := New(code, WithGlobals(globals), WithImporter(im))
		if err := machine.Run(ctx); err != nil {
			return 0, false
		}
		tos, _ := machine.TOS()
		return asInt(tos)
	}
	dirA := verifrt.TempDirWithFiles(map[string]string{
		"conf.risor":     "v := a\n",
		"x/conf.risor":   "v := b\n",
		"y/conf.risor":   "v := c\n",
		"y/user.risor":   "from y import conf\nfunc get() { return conf.v }\n",
		"lib/util.risor": "v := a\n",
	})
	defer verifrt.RemoveTempDir(dirA)
	dirB := verifrt.TempDirWithFiles(map[string]string{
		"conf.risor":     "v := d\n",
		"lib/util.risor": "v := d\n",
	})
	defer verifrt.RemoveTempDir(dirB)
	verifrt.Assume(a != b && b != c && a != c && a != d)
	switch verifrt.Choose(3) {
	case 0:
		got, ok := run(dirA, "import conf\nfrom x import conf as xc\nimport \"y/conf\" as yc\nconf.v == a && xc.v == b && yc.v == c ? 1 : 0")
		verifrt.Reach("ran")
		verifrt.Assert(ok && got == 1, "same-base-name-in-different-directories-are-different-modules")
	case 1:
		got, ok := run(dirA, "from y import user\nimport conf\nuser.get() == c && conf.v == a ? 1 : 0")
		verifrt.Reach("ran")
		verifrt.Assert(ok && got == 1, "a-module-importing-a-sibling-gets-the-sibling")
	case 2:
		first, ok1 := run(dirA, "import conf\nimport \"lib/util\"\nconf.v == a && util.v == a ? 1 : 0")
		second, ok2 := run(dirB, "import conf\nimport \"lib/util\"\nconf.v == d && util.v == d ? 1 : 0")
		verifrt.Reach("ran")
		verifrt.Assert(ok1 && first == 1, "first-root-serves-its-own-files")
		verifrt.Assert(ok2 && second == 1, "another-root-serves-its-own-files")
	}
}
