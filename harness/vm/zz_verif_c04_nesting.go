//go:build verif

package vm

import (
	"strings"

	"github.com/risor-io/risor/internal/verifrt"
	"github.com/risor-io/risor/object"
)

// Statement contexts nested to depth 2 (quick) / 3 (thorough) around a leaf
// statement. Conditions, switch subjects and loop bounds are symbolic, so the
// engine explores every control path through the compiled bytecode. probe(id)
// samples the VM stack pointer: every visit of the same program point must see
// the same depth (no accumulation per iteration), and a finished evaluation
// leaves exactly its result.

type c04Ctx struct {
	name   string
	isLoop bool
	isFunc bool
	wrap   func(d string, body string) string // d = unique suffix for variable names
}

var c04Ctxs = []c04Ctx{
	{"if", false, false, func(d, body string) string { return "if c" + d + " > 0 {\n" + body + "\n}" }},
	{"else", false, false, func(d, body string) string { return "if c" + d + " > 0 {\n 0\n} else {\n" + body + "\n}" }},
	{"for3", true, false, func(d, body string) string {
		return "for i" + d + " := 0; i" + d + " < n; i" + d + "++ {\nprobe(1" + d + ")\n" + body + "\n}"
	}},
	{"forcond", true, false, func(d, body string) string {
		return "k" + d + " := 0\nfor k" + d + " < n {\nk" + d + "++\nprobe(2" + d + ")\n" + body + "\n}"
	}},
	{"forsimple", true, false, func(d, body string) string {
		return "m" + d + " := 0\nfor {\nm" + d + "++\nif m" + d + " > n {\n break\n}\nprobe(3" + d + ")\n" + body + "\n}"
	}},
	{"forrange", true, false, func(d, body string) string {
		return "for _, v" + d + " := range [1, 2, 3] {\nprobe(4" + d + ")\n" + body + "\n}"
	}},
	{"forrangeint", true, false, func(d, body string) string {
		return "for r" + d + " := range n {\nprobe(5" + d + ")\n" + body + "\n}"
	}},
	{"forin", true, false, func(d, body string) string {
		return "for w" + d + " in [1, 2, 3] {\nprobe(6" + d + ")\n" + body + "\n}"
	}},
	{"for3exprpost", true, false, func(d, body string) string {
		return "q" + d + " := 0\nst" + d + " := func() { q" + d + " = q" + d + " + 1; return q" + d + " }\nfor ; q" + d + " < n; st" + d + "() {\nprobe(7" + d + ")\n" + body + "\n}"
	}},
	{"switch", false, false, func(d, body string) string {
		return "switch c" + d + " {\ncase 1:\n" + body + "\ncase 2:\n 0\ndefault:\n 1\n}"
	}},
	{"switchdefault", false, false, func(d, body string) string {
		return "switch c" + d + " {\ncase 1:\n 0\ndefault:\n" + body + "\n}"
	}},
	{"func", false, true, func(d, body string) string {
		return "f" + d + " := func() {\n" + body + "\n}\nf" + d + "()"
	}},
	{"block-then-more", false, false, func(d, body string) string { return "if c" + d + " > 0 {\n" + body + "\n}\nprobe(9" + d + ")\na + 1" }},
}

type c04Leaf struct {
	name      string
	src       string
	needsLoop bool
	needsFunc bool
}

var c04Leaves = []c04Leaf{
	{"expr", "a + b", false, false},
	{"assign", "z := a", false, false},
	{"call", "probe(77)", false, false},
	{"break", "break", true, false},
	{"continue", "continue", true, false},
	{"cond-break", "if b > 0 {\n break\n}\nprobe(78)", true, false},
	{"cond-continue", "if b > 0 {\n continue\n}\nprobe(79)", true, false},
	{"return", "return a", false, true},
	{"cond-return", "if b > 0 {\n return 5\n}\nprobe(80)", false, true},
	{"named-func", "func g(x) { x + 1 }\ng(a)", false, false},
	{"switch-break", "switch b {\ncase 1:\n break\ncase 2:\n continue\n}\nprobe(81)", true, false},
	{"value-less", "x := 1", false, false},
	{"try-callee-fails-mid-expression", "try(func() { return a + [1][5] }, 0)\nprobe(83)", false, false},
	{"switch-switch-continue", "switch b {\ncase 1:\n switch a {\n case 2:\n  continue\n default:\n  break\n }\n}\nprobe(82)", true, false},
}

func c04Depth() int {
	if verifrt.Thorough() {
		return 3
	}
	return 2
}

// HarnessC04NestedControl
func HarnessC04NestedControl() {
	depth := c04Depth()
	ctxIdx := make([]int, depth)
	for i := range ctxIdx {
		ctxIdx[i] = verifrt.Choose(len(c04Ctxs))
	}
	leaf := c04Leaves[verifrt.Choose(len(c04Leaves))]
	inLoop, inFunc := false, false
	for _, ci := range ctxIdx {
		c := c04Ctxs[ci]
		if c.isFunc {
			// a function body starts a fresh loop scope
			inFunc, inLoop = true, false
		}
		if c.isLoop {
			inLoop = true
		}
	}
	if (leaf.needsLoop && !inLoop) || (leaf.needsFunc && !inFunc) {
		return // not a well-formed program
	}
	src := leaf.src
	for i := depth - 1; i >= 0; i-- {
		src = c04Ctxs[ctxIdx[i]].wrap(string(rune('0'+i)), src)
	}
	a, b := verifrt.Int64(), verifrt.Int64()
	n := int64(verifrt.Choose(3))
	env := (&scriptEnv{}).addInt("a", a).addInt("b", b).addInt("n", n)
	for i := 0; i < depth; i++ {
		env.addInt("c"+string(rune('0'+i)), verifrt.Int64())
	}
	// record (id, sp) pairs
	var ids []int64
	r := runScriptProbeIDs(src, env, &ids)
	verifrt.Assert(r.stage == "run" || r.stage == "ok", "well-formed-program-compiles:"+leaf.name)
	if r.stage != "ok" {
		verifrt.Assert(r.stage != "run", "runs-without-error:"+c04Shape(ctxIdx, leaf))
		return
	}
	verifrt.Reach("done")
	shape := c04Shape(ctxIdx, leaf)
	verifrt.Assert(r.finalSP == 0, "finished-evaluation-leaves-exactly-its-result:"+shape)
	// same program point => same stack depth on every visit
	for i := range ids {
		for j := i + 1; j < len(ids); j++ {
			if ids[i] == ids[j] {
				verifrt.Assert(r.sps[i] == r.sps[j], "same-depth-at-every-visit-of-a-program-point:"+shape)
			}
		}
	}
}

func c04Shape(ctxIdx []int, leaf c04Leaf) string {
	var parts []string
	for _, ci := range ctxIdx {
		parts = append(parts, c04Ctxs[ci].name)
	}
	return strings.Join(parts, "{") + "{" + leaf.name
}

// runScriptProbeIDs is runScript with probe(id) also recording its argument.
func runScriptProbeIDs(src string, env *scriptEnv, ids *[]int64) *scriptRun {
	env.add("probeid", object.Nil) // placeholder so the name exists
	r := runScriptWith(src, env, func(r *scriptRun, args []object.Object) {
		if len(args) == 1 {
			if iv, ok := args[0].(*object.Int); ok {
				*ids = append(*ids, iv.Value())
				return
			}
		}
		*ids = append(*ids, -1)
	})
	return r
}
