//go:build verif

package vm

import (
	"context"

	"github.com/risor-io/risor/builtins"
	"github.com/risor-io/risor/compiler"
	"github.com/risor-io/risor/object"
	"github.com/risor-io/risor/parser"
)

// scriptRun is one evaluation of source text through the real lexer, parser,
// compiler and VM (all executed symbolically by the engine).
type scriptRun struct {
	result  object.Object
	err     error
	emitted []object.Object // arguments of the recording builtin emit(x)
	sps     []int           // vm.sp sampled by the builtin probe()
	machine *VirtualMachine
	finalSP int
	stage   string // parse | compile | run | ok
}

type scriptEnv struct {
	names []string
	vals  []object.Object
	goVal map[string]any // raw Go values, converted by the VM (object.AsObjects)
}

func (e *scriptEnv) addGo(name string, v any) *scriptEnv {
	if e.goVal == nil {
		e.goVal = map[string]any{}
	}
	e.goVal[name] = v
	return e
}

func (e *scriptEnv) addInt(name string, v int64) *scriptEnv {
	e.names = append(e.names, name)
	e.vals = append(e.vals, object.NewInt(v))
	return e
}

func (e *scriptEnv) add(name string, v object.Object) *scriptEnv {
	e.names = append(e.names, name)
	e.vals = append(e.vals, v)
	return e
}

// runScript evaluates src with the given globals plus the default builtins
// (len, list, try, error, sorted, ...) and two recording builtins.
func runScript(src string, env *scriptEnv) *scriptRun { return runScriptWith(src, env, nil) }

func runScriptWith(src string, env *scriptEnv, onProbe func(r *scriptRun, args []object.Object)) *scriptRun {
	ctx := context.Background()
	r := &scriptRun{stage: "parse"}
	prog, err := parser.Parse(ctx, src)
	if err != nil {
		r.err = err
		return r
	}
	globals := map[string]any{}
	for name, b := range builtins.Builtins() {
		globals[name] = b
	}
	for i, n := range env.names {
		globals[n] = env.vals[i]
	}
	for n, v := range env.goVal {
		globals[n] = v
	}
	globals["emit"] = object.NewBuiltin("emit", func(ctx context.Context, args ...object.Object) object.Object {
		r.emitted = append(r.emitted, args...)
		return object.Nil
	})
	globals["probe"] = object.NewBuiltin("probe", func(ctx context.Context, args ...object.Object) object.Object {
		if r.machine != nil {
			r.sps = append(r.sps, r.machine.sp)
			if onProbe != nil {
				onProbe(r, args)
			}
		}
		return object.Nil
	})
	names := make([]string, 0, len(globals))
	for n := range globals {
		names = append(names, n)
	}
	r.stage = "compile"
	code, err := compiler.Compile(prog, compiler.WithGlobalNames(names))
	if err != nil {
		r.err = err
		return r
	}
	r.stage = "run"
	r.machine = New(code, WithGlobals(globals))
	if err := r.machine.Run(ctx); err != nil {
		r.err = err
		r.finalSP = r.machine.sp
		return r
	}
	r.stage = "ok"
	r.finalSP = r.machine.sp
	if tos, ok := r.machine.TOS(); ok {
		r.result = tos
	} else {
		r.result = object.Nil
	}
	return r
}

func asInt(o object.Object) (int64, bool) {
	if iv, ok := o.(*object.Int); ok {
		return iv.Value(), true
	}
	return 0, false
}

func asBool(o object.Object) (bool, bool) {
	if bv, ok := o.(*object.Bool); ok {
		return bv.Value(), true
	}
	return false, false
}
