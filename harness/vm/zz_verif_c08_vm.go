//go:build verif

package vm

import (
	"errors"

	"github.com/risor-io/risor/internal/verifrt"
	"github.com/risor-io/risor/object"
)

// Go values handed to a script as globals, used through the real compiler and
// VM (attribute loads and stores, method calls, indexing), C08.

type c08Note struct {
	Text string
	N    int
}

type c08Acct struct {
	Balance int
	Owner   string
	Small   int16
	Limits  []int
	Meta    map[string]string
	Note    *c08Note
	Inner   c08Note

	gotNote *c08Note
	gotN    int
	calls   int
}

func (a *c08Acct) Deposit(n int) int { a.calls++; a.gotN = n; a.Balance += n; return a.Balance }
func (a *c08Acct) Rename(s string)   { a.calls++; a.Owner = s }
func (a *c08Acct) Describe() string  { return a.Owner + "#" }
func (a *c08Acct) Link(n *c08Note)   { a.calls++; a.gotNote = n }
func (a *c08Acct) GetNote() *c08Note { return a.Note }
func (a *c08Acct) Total(xs []int) int {
	t := 0
	for _, x := range xs {
		t += x
	}
	a.gotN = len(xs)
	return t
}
func (a *c08Acct) Scale(f float64, names []string) float64 {
	a.calls++
	return f * float64(len(names))
}
func (a *c08Acct) Check(n int) (int, error) {
	a.calls++
	if n < 0 {
		return 0, errors.New("negative")
	}
	return n, nil
}

func c08Run(src string, env *scriptEnv) (r *scriptRun, panicked bool) {
	defer func() {
		if rec := recover(); rec != nil {
			panicked = true
		}
	}()
	return runScript(src, env), false
}

func HarnessC08ScriptUsesGoValues() {
	b, d := verifrt.Int(), verifrt.Int()
	s := verifrt.String(1)
	acct := &c08Acct{Balance: b, Owner: "o" + s, Limits: []int{b, 5}, Meta: map[string]string{"k": s},
		Note: &c08Note{Text: s, N: d}, Inner: c08Note{Text: "in", N: b}}
	env := (&scriptEnv{}).addGo("acct", acct).addGo("d", d).addGo("s", s)
	switch verifrt.Choose(12) {
	case 0:
		r, p := c08Run(`acct.Balance = acct.Balance + d; acct.Balance`, env)
		verifrt.Assert(!p, "eval-never-panics")
		if !p && r.err == nil {
			verifrt.Reach("field-rw")
			got, ok := asInt(r.result)
			verifrt.Assert(ok && got == int64(b+d) && acct.Balance == b+d, "field-written-from-the-script-reads-back-and-go-sees-it")
		}
	case 1:
		r, p := c08Run(`acct.Deposit(d)`, env)
		verifrt.Assert(!p, "eval-never-panics")
		if !p {
			verifrt.Reach("method")
			verifrt.Assert(r.err == nil && acct.calls == 1 && acct.gotN == d, "method-receives-exactly-the-argument")
			got, ok := asInt(r.result)
			verifrt.Assert(ok && got == int64(b+d), "method-result-arrives")
		}
	case 2:
		r, p := c08Run(`acct.Rename(s + "x"); acct.Describe()`, env)
		verifrt.Assert(!p, "eval-never-panics")
		if !p {
			verifrt.Reach("string-method")
			sv, ok := r.result.(*object.String)
			verifrt.Assert(r.err == nil && ok && sv.Value() == s+"x#" && acct.Owner == s+"x", "string-argument-and-result-arrive")
		}
	case 3:
		r, p := c08Run(`acct.Limits[0] + acct.Limits[1] + len(acct.Limits)`, env)
		verifrt.Assert(!p, "eval-never-panics")
		if !p {
			verifrt.Reach("slice-field")
			got, ok := asInt(r.result)
			verifrt.Assert(r.err == nil && ok && got == int64(b)+5+2, "slice-field-contents-equal")
		}
	case 4:
		r, p := c08Run(`acct.Meta["k"]`, env)
		verifrt.Assert(!p, "eval-never-panics")
		if !p {
			verifrt.Reach("map-field")
			sv, ok := r.result.(*object.String)
			verifrt.Assert(r.err == nil && ok && sv.Value() == s, "map-field-contents-equal")
		}
	case 5:
		r, p := c08Run(`acct.Note.N + acct.Inner.N`, env)
		verifrt.Assert(!p, "eval-never-panics")
		if !p {
			verifrt.Reach("nested")
			got, ok := asInt(r.result)
			verifrt.Assert(r.err == nil && ok && got == int64(d)+int64(b), "nested-struct-fields-equal")
		}
	case 6:
		r, p := c08Run(`acct.Note.N = d + 1; acct.Inner.N = d; acct.Note.N`, env)
		verifrt.Assert(!p, "eval-never-panics")
		if !p && r.err == nil {
			verifrt.Reach("nested-write")
			verifrt.Assert(acct.Note.N == d+1, "go-sees-a-write-through-a-pointer-field")
			verifrt.Assert(acct.Inner.N == d, "go-sees-a-write-into-an-embedded-struct-field")
		}
	case 7:
		r, p := c08Run(`acct.Link(acct.GetNote()); acct.Link(nil); 1`, env)
		verifrt.Assert(!p, "eval-never-panics")
		if !p {
			verifrt.Reach("pointer-args")
			verifrt.Assert(r.err == nil && acct.calls == 2 && acct.gotNote == nil, "nil-argument-arrives-as-nil")
		}
	case 8:
		r, p := c08Run(`acct.Link(acct.GetNote()); 1`, env)
		verifrt.Assert(!p, "eval-never-panics")
		if !p {
			verifrt.Reach("proxy-arg")
			verifrt.Assert(r.err == nil && acct.gotNote == acct.Note, "proxy-argument-arrives-as-the-same-go-pointer")
		}
	case 9:
		r, p := c08Run(`acct.Total([d, 2, 3])`, env)
		verifrt.Assert(!p, "eval-never-panics")
		if !p {
			verifrt.Reach("list-arg")
			got, ok := asInt(r.result)
			verifrt.Assert(r.err == nil && ok && got == int64(d+5) && acct.gotN == 3, "list-argument-arrives-as-a-slice")
		}
	case 10:
		r, p := c08Run(`try(func() { return acct.Check(d) }, func(e) { return -1 })`, env)
		verifrt.Assert(!p, "eval-never-panics")
		if !p {
			verifrt.Reach("error-result")
			got, ok := asInt(r.result)
			if d < 0 {
				verifrt.Assert(r.err == nil && ok && got == -1, "go-error-becomes-a-script-error")
			} else {
				verifrt.Assert(r.err == nil && ok && got == int64(d), "non-error-result-arrives")
			}
		}
	case 11:
		// a sized field: written value reads back, or the script gets an error
		r, p := c08Run(`acct.Small = d; acct.Small`, env)
		verifrt.Assert(!p, "eval-never-panics")
		if !p && r.err == nil {
			verifrt.Reach("sized-field")
			got, ok := asInt(r.result)
			verifrt.Assert(ok && got == int64(d) && int64(acct.Small) == int64(d), "sized-field-reads-back-as-written")
		}
	}
}

// HarnessC08GlobalsOfEveryShape: plain Go values as globals.
func HarnessC08GlobalsOfEveryShape() {
	a, b := verifrt.Int(), verifrt.Int()
	s := verifrt.String(1)
	env := (&scriptEnv{}).
		addGo("xs", []int{a, b}).
		addGo("m", map[string]int{"a": a, "b": b}).
		addGo("i8", verifrt.Int8()).
		addGo("u16", uint16(7)).
		addGo("f", 1.5).
		addGo("flag", verifrt.Bool()).
		addGo("str", s).
		addGo("arr", [2]string{s, "z"}).
		addGo("ptr", &a).
		addGo("nested", map[string][]int{"k": {a}})
	switch verifrt.Choose(6) {
	case 0:
		r, p := c08Run(`xs[0] - xs[1]`, env)
		verifrt.Assert(!p, "eval-never-panics")
		if !p {
			verifrt.Reach("slice")
			got, ok := asInt(r.result)
			verifrt.Assert(r.err == nil && ok && got == int64(a)-int64(b), "slice-global-contents")
		}
	case 1:
		r, p := c08Run(`m["a"] - m["b"]`, env)
		verifrt.Assert(!p, "eval-never-panics")
		if !p {
			verifrt.Reach("map")
			got, ok := asInt(r.result)
			verifrt.Assert(r.err == nil && ok && got == int64(a)-int64(b), "map-global-contents")
		}
	case 2:
		r, p := c08Run(`str + arr[0] + arr[1]`, env)
		verifrt.Assert(!p, "eval-never-panics")
		if !p {
			verifrt.Reach("array")
			sv, ok := r.result.(*object.String)
			verifrt.Assert(r.err == nil && ok && sv.Value() == s+s+"z", "array-global-contents")
		}
	case 3:
		r, p := c08Run(`ptr + 0`, env)
		verifrt.Assert(!p, "eval-never-panics")
		if !p {
			verifrt.Reach("pointer")
			got, ok := asInt(r.result)
			verifrt.Assert(r.err == nil && ok && got == int64(a), "pointer-global-contents")
		}
	case 4:
		r, p := c08Run(`nested["k"][0]`, env)
		verifrt.Assert(!p, "eval-never-panics")
		if !p {
			verifrt.Reach("nested")
			got, ok := asInt(r.result)
			verifrt.Assert(r.err == nil && ok && got == int64(a), "nested-global-contents")
		}
	case 5:
		r, p := c08Run(`if flag { i8 + u16 } else { i8 - u16 }`, env)
		verifrt.Assert(!p, "eval-never-panics")
		if !p {
			verifrt.Reach("scalars")
			_, ok := asInt(r.result)
			verifrt.Assert(r.err == nil && ok, "scalar-globals-usable")
		}
	}
}
