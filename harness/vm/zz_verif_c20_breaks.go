//go:build verif

package vm

import (
	"context"

	"github.com/risor-io/risor/internal/verifrt"
	"github.com/risor-io/risor/parser"
)

// single-line programs with places where the grammar accepts a line break:
// after a comma inside [] () {}, after a binary operator, after a pipe, after the dot of an attribute access
var c20BreakTemplates = []string{
	"l := [1, 2, 3]",
	"f(a, b, c)",
	"m := {a: 1, b: 2, c: 3}",
	"s := {1, 2, 3}",
	"x := a + b * c - d",
	"x := a && b || c",
	"x := a == b",
	"x := a < b",
	"a | f | g(1)",
	"y := [f(a, b), {k: [1, 2]}, a + b]",
	"g := func(a) { h(a, 1, 2) }",
	"z := a.b(c, d).e",
	"x := a ? b : c",
	"q := [[1, 2], [3, 4]]",
	"r := a | f(1, 2) | g",
	"if a && b { c }",
	"t := a % b ** c",
	"u := a << b >> c & d",
	"v := a <= b != c",
	"w := s.to_upper().trim_space().split(d)",
	"a.b.c = d.e",
	"o := l.map(f).filter(g)",
}

func isBreakable(src string, i int) bool {
	c := src[i]
	switch c {
	case ',':
		return true
	case '.':
		// attribute access / method chain (no floats in the templates)
		return true
	case '|':
		// pipe or '||' (break after the second '|')
		if i+1 < len(src) && src[i+1] == '|' {
			return false
		}
		return true
	case '+', '*', '/', '%', '&':
		if i+1 < len(src) && (src[i+1] == '=' || src[i+1] == c) {
			return false
		}
		return true
	case '-':
		// binary minus only (preceded by a blank and an operand)
		return i > 1 && src[i-1] == ' ' && i+1 < len(src) && src[i+1] == ' '
	case '=':
		// '==' '!=' '<=' '>=' : break after the '='; not after ':=' or plain '='
		return i > 0 && (src[i-1] == '=' || src[i-1] == '!' || src[i-1] == '<' || src[i-1] == '>')
	case '<', '>':
		if i+1 < len(src) && (src[i+1] == '=' || src[i+1] == c) {
			return false
		}
		return i > 0 && src[i-1] != '<' && src[i-1] != '>' || (i > 0 && src[i-1] == c)
	}
	return false
}

// HarnessC20LineBreaksWhereAllowed: inserting a line break (LF, CRLF, or LF
// followed by indentation) after a comma, a binary operator or a pipe never
// changes the syntax tree.
func HarnessC20LineBreaksWhereAllowed() {
	src := c20BreakTemplates[verifrt.Choose(len(c20BreakTemplates))]
	var places []int
	for i := 0; i < len(src); i++ {
		if isBreakable(src, i) {
			places = append(places, i)
		}
	}
	if len(places) == 0 {
		return
	}
	at := places[verifrt.Choose(len(places))]
	br := []string{"\n", "\r\n", "\n\t", "\n\n", " \n  "}[verifrt.Choose(5)]
	mod := src[:at+1] + br + src[at+1:]
	ctx := context.Background()
	p1, err1 := parser.Parse(ctx, src)
	verifrt.Assert(err1 == nil, "original-parses")
	if err1 != nil {
		return
	}
	p2, err2 := parser.Parse(ctx, mod)
	verifrt.Reach("compared")
	verifrt.Assert(err2 == nil, "line-break-accepted-where-the-grammar-allows-it")
	if err2 == nil {
		verifrt.Assert(p1.String() == p2.String(), "line-break-keeps-the-syntax-tree")
	}
}

// multi-line programs: statements separated by line breaks inside every kind of block
var c20LineTemplates = []string{
	"x := 1\ny := 2\nz := x + y",
	"switch x {\ncase 1:\n\ta := 1\n\tb := 2\ncase 2, 3:\n\tc := 3\ndefault:\n\td := 4\n\te := 5\n}",
	"func f(a) {\n\tb := a\n\treturn b\n}\nf(1)",
	"if a {\n\tb := 1\n\tc := 2\n} else if d {\n\te := 3\n} else {\n\tg := 4\n}",
	"for i := 0; i < 3; i++ {\n\tx := i\n\ty := x\n}",
	"for _, v := range l {\n\tx := v\n\tif x { break }\n}",
	"m := {\n\ta: 1,\n\tb: 2,\n}",
	"l := [\n\t1,\n\t2,\n]",
	"f(\n\ta,\n\tb,\n)",
	"g := func(p) {\n\tq := p\n\treturn func() {\n\t\treturn q\n\t}\n}",
	"try(func() {\n\terror(\"x\")\n}, func(e) {\n\treturn 1\n})",
}

// HarnessC20BlankAndCommentLines: an extra blank line or a comment-only line
// after any line break of a program leaves the syntax tree unchanged.
func HarnessC20BlankAndCommentLines() {
	src := c20LineTemplates[verifrt.Choose(len(c20LineTemplates))]
	var places []int
	for i := 0; i < len(src); i++ {
		if src[i] == '\n' {
			places = append(places, i)
		}
	}
	at := places[verifrt.Choose(len(places))]
	filler := []string{"\n", "// c\n", "# c\n", "\t \n", "/* c */\n", "\r\n", "// a\n\n# b\n"}[verifrt.Choose(7)]
	mod := src[:at+1] + filler + src[at+1:]
	ctx := context.Background()
	p1, err1 := parser.Parse(ctx, src)
	verifrt.Assert(err1 == nil, "original-parses")
	if err1 != nil {
		return
	}
	p2, err2 := parser.Parse(ctx, mod)
	verifrt.Reach("compared")
	verifrt.Assert(err2 == nil, "blank-or-comment-line-accepted")
	if err2 == nil {
		verifrt.Assert(p1.String() == p2.String(), "blank-or-comment-line-keeps-the-syntax-tree")
	}
}
