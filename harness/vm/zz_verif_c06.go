//go:build verif

package vm

import (
	"context"
	"errors"
	"strings"
	"time"

	"github.com/risor-io/risor/builtins"
	"github.com/risor-io/risor/compiler"
	"github.com/risor-io/risor/internal/verifrt"
	modtime "github.com/risor-io/risor/modules/time"
	"github.com/risor-io/risor/object"
	"github.com/risor-io/risor/parser"
)

// programs that never finish on their own (or block); n is large enough that the
// bounded ones outlive every cancellation instant explored
var c06Programs = []struct{ name, src string }{
	{"infinite-for", `for { }`},
	{"counting-loop", `i := 0; for i >= 0 { i = i + 1 }`},
	{"three-part-loop", `s := 0; for i := 0; i < 1000000; i++ { s += i }`},
	{"recursion", `func r(k) { if k == 0 { return 0 }; r(k - 1); return r(k - 1) }; r(40)`},
	{"callback-loop-in-map", `l := [1, 2, 3]; for { l.map(func(v) { return v + 1 }) }`},
	{"callback-loop-in-each", `l := [1, 2, 3]; for { l.each(func(v) { tick() }) }`},
	{"blocked-send", `ch := chan(0); ch <- 1`},
	{"blocked-receive", `ch := chan(1); <-ch`},
	{"blocked-send-on-full-buffer", `ch := chan(1); ch <- 1; ch <- 2`},
	{"blocked-send-on-full-buffer-2", `ch := chan(2); ch <- 1; ch <- 2; ch <- 3`},
	{"deep-recursion-without-loops", `func fib(k) { if k < 2 { return k }; return fib(k - 1) + fib(k - 2) }; fib(60)`},
	{"callback-recursion", `func walk(k) { return [k].map(func(v) { return walk(v + 1) }) }; walk(0)`},
	{"goroutine-blocked-main-waits", `ch := chan(0); go func() { for { tick() } }(); <-ch`},
	{"range-over-open-channel", `ch := chan(1); ch <- 1; for _, v := range ch { tick() }`},
	{"thread-wait", `ch := chan(0); t := spawn(func() { <-ch }); t.wait()`},
	{"sleep", `sleep(3600)`},
	// the waited thread sits in host code that does not look at the context
	{"wait-on-a-thread-stuck-in-a-host-call", `t := spawn(hostblock); t.wait()`},
}

type c06Run struct {
	err     error
	ticks   int
	machine *VirtualMachine
}

func c06Eval(ctx context.Context, label string, src string, ticks *int) (error, bool) {
	prog, err := parser.Parse(context.Background(), src)
	if err != nil {
		return err, false
	}
	globals := map[string]any{}
	for name, b := range builtins.Builtins() {
		globals[name] = b
	}
	globals["tick"] = object.NewBuiltin("tick", func(ctx context.Context, args ...object.Object) object.Object {
		*ticks++
		return object.Nil
	})
	globals["sleep"] = object.NewBuiltin("sleep", modtime.Sleep)
	never := make(chan struct{})
	globals["hostblock"] = object.NewBuiltin("hostblock", func(ctx context.Context, args ...object.Object) object.Object {
		<-never
		return object.Nil
	})
	names := make([]string, 0, len(globals))
	for n := range globals {
		names = append(names, n)
	}
	code, err := compiler.Compile(prog, compiler.WithGlobalNames(names))
	if err != nil {
		return err, false
	}
	machine := New(code, WithGlobals(globals), WithConcurrency())
	// the call must return: natively a watchdog turns a hang into a failed
	// assertion, under the engine running out of the step budget does
	var err2 error
	verifrt.RunWithDeadline(label+":returns-promptly", 600000, 3*time.Second, func() {
		err2 = machine.Run(ctx)
	})
	return err2, true
}

// HarnessC06CancellationStopsEvaluation: for every program shape and every
// cancellation instant (the k-th synchronisation point, k symbolic) the call
// returns the context's error.
func HarnessC06CancellationStopsEvaluation() {
	p := c06Programs[verifrt.Choose(len(c06Programs))]
	maxK := 24
	if verifrt.Thorough() {
		maxK = 96
	}
	k := verifrt.Choose(maxK)
	ctx, cancel := context.WithCancel(context.Background())
	defer cancel()
	// for the early instants also: a context with a (far) deadline cancelled
	// before it, directly or through its parent
	if k < 6 {
		switch verifrt.Choose(3) {
		case 1:
			dctx, dcancel := context.WithTimeout(context.Background(), 8*time.Second)
			defer dcancel()
			ctx, cancel = dctx, dcancel
		case 2:
			dctx, dcancel := context.WithTimeout(ctx, 8*time.Second)
			defer dcancel()
			ctx = dctx // cancelled through its parent
		}
	}
	verifrt.SchedBounds(1, 2)
	verifrt.AtYield(k+1, cancel)
	ticks := 0
	err, ran := c06Eval(ctx, p.name, p.src, &ticks)
	verifrt.Assert(ran, p.name+":compiles")
	if !ran {
		return
	}
	verifrt.Reach("returned")
	verifrt.Assert(err != nil, p.name+":cancelled-call-does-not-report-success")
	if err != nil {
		// the context's error itself, or an error that reports it
		verifrt.Assert(errors.Is(err, context.Canceled) || strings.Contains(err.Error(), context.Canceled.Error()), p.name+":returns-the-context-error")
	}
}

// HarnessC06NothingRunsAfterReturn: after the cancelled call has returned, code
// in goroutines the script started no longer executes.
func HarnessC06NothingRunsAfterReturn() {
	maxK := 12
	k := verifrt.Choose(maxK)
	ctx, cancel := context.WithCancel(context.Background())
	defer cancel()
	verifrt.SchedBounds(1, 2)
	verifrt.AtYield(k+1, cancel)
	ticks := 0
	src := `go func() { for { tick() } }()
for { }`
	switch verifrt.Choose(4) {
	case 1:
		// a goroutine started by a goroutine (three tasks: only fairness-driven switches)
		src = `go func() { go func() { for { tick() } }(); for { tick() } }()
for { }`
		verifrt.SchedBounds(0, 2)
	case 2:
		// the started callable is a builtin that runs a script callback
		src = `go try(func() { for { tick() } })
for { }`
	case 3:
		src = `spawn(try, func() { for { tick() } })
for { }`
	}
	err, ran := c06Eval(ctx, "spawned", src, &ticks)
	verifrt.Assert(ran, "compiles")
	if !ran {
		return
	}
	verifrt.Assert(err != nil, "cancelled-call-returns-an-error")
	// give the goroutine a moment to notice, then it must have stopped for good
	verifrt.QuiesceSteps(40)
	before := ticks
	verifrt.QuiesceSteps(40)
	verifrt.Reach("quiesced")
	verifrt.Assert(ticks == before, "spawned-goroutine-stops-with-the-evaluation")
}

// HarnessC06ReusedVMAndCall: cancellation also stops (a) RunCode on a VM that
// has run before — including a context that is already cancelled when RunCode
// is called — and (b) vm.Call of a script function.
func HarnessC06ReusedVMAndCall() {
	globals := map[string]any{}
	for name, b := range builtins.Builtins() {
		globals[name] = b
	}
	globals["sleep"] = object.NewBuiltin("sleep", modtime.Sleep)
	names := make([]string, 0, len(globals))
	for n := range globals {
		names = append(names, n)
	}
	compile := func(src string) *compiler.Code {
		prog, err := parser.Parse(context.Background(), src)
		if err != nil {
			return nil
		}
		code, err := compiler.Compile(prog, compiler.WithGlobalNames(names))
		if err != nil {
			return nil
		}
		return code
	}
	first := compile("func spin() { for { } }\nfunc nap() { sleep(5)\n return 7 }\n1")
	loop := compile("for { }")
	verifrt.Assert(first != nil && loop != nil, "setup-compiles")
	if first == nil || loop == nil {
		return
	}
	machine := New(first, WithGlobals(globals), WithConcurrency())
	verifrt.Assert(machine.Run(context.Background()) == nil, "first-run-succeeds")
	ctx, cancel := context.WithCancel(context.Background())
	defer cancel()
	verifrt.SchedBounds(2, 8)
	k := verifrt.Choose(8)
	if k == 0 {
		cancel() // already cancelled when the call is made
	} else {
		verifrt.AtYield(k, cancel)
	}
	var err error
	switch verifrt.Choose(3) {
	case 0:
		verifrt.RunWithDeadline("runcode-on-a-used-vm:returns-promptly", 600000, 3*time.Second, func() {
			err = machine.RunCode(ctx, loop)
		})
		verifrt.Reach("runcode")
		verifrt.Assert(err != nil, "runcode-on-a-used-vm:cancelled-call-does-not-report-success")
	case 1:
		fnObj, gerr := machine.Get("spin")
		fn, isFn := fnObj.(*object.Function)
		if gerr != nil || !isFn {
			return
		}
		verifrt.RunWithDeadline("call-of-a-spinning-function:returns-promptly", 600000, 3*time.Second, func() {
			_, err = machine.Call(ctx, fn, nil)
		})
		verifrt.Reach("call-spin")
		verifrt.Assert(err != nil, "call-of-a-spinning-function:cancelled-call-does-not-report-success")
	case 2:
		fnObj, gerr := machine.Get("nap")
		fn, isFn := fnObj.(*object.Function)
		if gerr != nil || !isFn {
			return
		}
		verifrt.RunWithDeadline("call-of-a-sleeping-function:returns-promptly", 600000, 3*time.Second, func() {
			_, err = machine.Call(ctx, fn, nil)
		})
		verifrt.Reach("call-nap")
		verifrt.Assert(err != nil, "call-of-a-sleeping-function:cancelled-call-does-not-report-success")
	}
}
