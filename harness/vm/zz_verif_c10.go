//go:build verif

package vm

import (
	"context"
	"time"

	"github.com/risor-io/risor/builtins"
	"github.com/risor-io/risor/compiler"
	"github.com/risor-io/risor/internal/verifrt"
	"github.com/risor-io/risor/object"
	"github.com/risor-io/risor/parser"
)

// runConcurrent evaluates src on a VM with concurrency enabled; goroutines the
// script starts are engine tasks, explored under every schedule within the
// preemption/fairness bounds.
func runConcurrent(src string, env *scriptEnv) (*scriptRun, []object.Object) {
	ctx := context.Background()
	r := &scriptRun{stage: "parse"}
	prog, err := parser.Parse(ctx, src)
	if err != nil {
		r.err = err
		return r, nil
	}
	globals := map[string]any{}
	for name, b := range builtins.Builtins() {
		globals[name] = b
	}
	for i, n := range env.names {
		globals[n] = env.vals[i]
	}
	var log []object.Object
	globals["emit"] = object.NewBuiltin("emit", func(ctx context.Context, args ...object.Object) object.Object {
		log = append(log, args...)
		return object.Nil
	})
	names := make([]string, 0, len(globals))
	for n := range globals {
		names = append(names, n)
	}
	r.stage = "compile"
	code, err := compiler.Compile(prog, compiler.WithGlobalNames(names))
	if err != nil {
		r.err = err
		return r, nil
	}
	r.stage = "run"
	r.machine = New(code, WithGlobals(globals), WithConcurrency())
	var runErr error
	// every program of this family finishes on its own: a run that blocks for
	// ever (deadlock) or spins is a failure
	verifrt.RunWithDeadline("run-terminates", 3000000, 3*time.Second, func() {
		runErr = r.machine.Run(ctx)
	})
	if runErr != nil {
		r.err = runErr
		return r, log
	}
	r.stage = "ok"
	if tos, ok := r.machine.TOS(); ok {
		r.result = tos
	} else {
		r.result = object.Nil
	}
	verifrt.Quiesce()
	return r, log
}

func listInts(o object.Object) ([]int64, bool) {
	l, ok := o.(*object.List)
	if !ok {
		return nil, false
	}
	var out []int64
	for _, it := range l.Value() {
		iv, isInt := it.(*object.Int)
		if !isInt {
			return nil, false
		}
		out = append(out, iv.Value())
	}
	return out, true
}

// HarnessC10OneProducerOneConsumer: every value sent is received exactly once
// and in order, for buffer sizes 0..2, iteration ends at close.
func HarnessC10OneProducerOneConsumer() {
	a, b, c := verifrt.Int64(), verifrt.Int64(), verifrt.Int64()
	capacity := int64(verifrt.Choose(3))
	env := (&scriptEnv{}).addInt("a", a).addInt("b", b).addInt("c", c).addInt("n", capacity)
	src := `ch := chan(n)
go func() { ch <- a; ch <- b; ch <- c; close(ch) }()
r := []
for _, v := range ch { r.append(v) }
r`
	run, _ := runConcurrent(src, env)
	verifrt.Assert(run.stage == "ok", "runs:"+run.stage)
	if run.stage != "ok" {
		return
	}
	got, ok := listInts(run.result)
	verifrt.Assert(ok && len(got) == 3, "every-value-received-exactly-once")
	if ok && len(got) == 3 {
		verifrt.Assert(got[0] == a && got[1] == b && got[2] == c, "sender-order-kept")
	}
	verifrt.Reach("done")
}

// HarnessC10TwoProducers: multiset of received values = multiset sent, and each
// sender's values arrive in that sender's order.
func HarnessC10TwoProducers() {
	verifrt.SchedPreemptBeforeChanOps(true)
	capacity := int64(verifrt.Choose(3))
	env := (&scriptEnv{}).addInt("n", capacity)
	// senders send tagged values: 10,11 and 20,21
	src := `ch := chan(n)
go func() { ch <- 10; ch <- 11 }()
go func() { ch <- 20; ch <- 21 }()
r := []
for i := 0; i < 4; i++ { r.append(<-ch) }
r`
	run, _ := runConcurrent(src, env)
	verifrt.Assert(run.stage == "ok", "runs:"+run.stage)
	if run.stage != "ok" {
		return
	}
	got, ok := listInts(run.result)
	verifrt.Assert(ok && len(got) == 4, "four-values-received")
	if !ok || len(got) != 4 {
		return
	}
	pos := map[int64]int{}
	for i, v := range got {
		_, dup := pos[v]
		verifrt.Assert(!dup, "no-value-received-twice")
		pos[v] = i
	}
	for _, v := range []int64{10, 11, 20, 21} {
		_, seen := pos[v]
		verifrt.Assert(seen, "no-value-lost")
	}
	verifrt.Assert(pos[10] < pos[11] && pos[20] < pos[21], "per-sender-order-kept")
	verifrt.Reach("done")
}

// HarnessC10ThreadsAndSpawnArguments: wait() returns the call's result or
// error; spawned calls see the argument values given at the spawn site.
func HarnessC10ThreadsAndSpawnArguments() {
	a, b := verifrt.Int64(), verifrt.Int64()
	env := (&scriptEnv{}).addInt("a", a).addInt("b", b)
	switch verifrt.Choose(13) {
	case 12:
		// a host function that spawns through object.Spawn and then reuses its
		// argument buffer: each call still receives what was given at its spawn
		env.add("fanout", object.NewBuiltin("fanout", func(ctx context.Context, args ...object.Object) object.Object {
			if len(args) != 1 {
				return object.Errorf("fanout: one argument")
			}
			buf := make([]object.Object, 1)
			var ts []object.Object
			for i := int64(0); i < 2; i++ {
				buf[0] = object.NewInt(a + i)
				t, err := object.Spawn(ctx, args[0], buf)
				if err != nil {
					return object.NewError(err)
				}
				ts = append(ts, t)
			}
			buf[0] = object.NewInt(b)
			return object.NewList(ts)
		}))
		verifrt.Assume(a != b && a+1 != b)
		run, _ := runConcurrent(`ts := fanout(func(p) { return p }); x := ts[0].wait(); y := ts[1].wait(); (x == a && y == a + 1) ? 1 : 0`, env)
		verifrt.Assert(run.stage == "ok", "runs:"+run.stage)
		if run.stage == "ok" {
			iv, ok := asInt(run.result)
			verifrt.Assert(ok && iv == 1, "spawn-through-the-host-api-fixes-its-arguments")
		}
	case 5:
		// wait() may be called more than once and by more than one goroutine
		run, _ := runConcurrent(`t := spawn(func(p) { return p + 1 }, a); x := t.wait(); y := t.wait(); x + y`, env)
		verifrt.Assert(run.stage == "ok", "runs:"+run.stage)
		if run.stage == "ok" {
			iv, ok := asInt(run.result)
			verifrt.Assert(ok && iv == 2*(a+1), "second-wait-returns-the-same-result")
		}
	case 6:
		run, _ := runConcurrent(`t := spawn(func(p) { return p + 1 }, a); u := spawn(func() { return t.wait() }); t.wait() + u.wait()`, env)
		verifrt.Assert(run.stage == "ok", "runs:"+run.stage)
		if run.stage == "ok" {
			iv, ok := asInt(run.result)
			verifrt.Assert(ok && iv == 2*(a+1), "two-waiters-both-get-the-result")
		}
	case 7:
		// the error a spawned call raised arrives unchanged, also when its text contains '%'
		run, _ := runConcurrent(`t := spawn(func() { error("50%%d off %%s") }); try(func() { t.wait(); return "no error" }, func(e) { return e.message() })`, env)
		verifrt.Assert(run.stage == "ok", "runs:"+run.stage)
		if run.stage == "ok" {
			sv, ok := run.result.(*object.String)
			verifrt.Assert(ok && sv.Value() == "50%d off %s", "wait-returns-the-call-error-unchanged")
		}
	case 0:
		run, _ := runConcurrent(`t := spawn(func(p) { return p + 1 }, a); t.wait()`, env)
		verifrt.Assert(run.stage == "ok", "runs:"+run.stage)
		if run.stage == "ok" {
			iv, ok := asInt(run.result)
			verifrt.Assert(ok && iv == a+1, "wait-returns-the-result")
		}
	case 1:
		run, _ := runConcurrent(`x := a; t := spawn(func(p) { return p }, x); x = b; t.wait()`, env)
		verifrt.Assert(run.stage == "ok", "runs:"+run.stage)
		if run.stage == "ok" {
			iv, ok := asInt(run.result)
			verifrt.Assert(ok && iv == a, "spawn-argument-fixed-at-spawn-site")
		}
	case 2:
		run, _ := runConcurrent(`ch := chan(1); f := func(p) { ch <- p }; x := a; go f(x); x = b; <-ch`, env)
		verifrt.Assert(run.stage == "ok", "runs:"+run.stage)
		if run.stage == "ok" {
			iv, ok := asInt(run.result)
			verifrt.Assert(ok && iv == a, "go-argument-fixed-at-spawn-site")
		}
	case 3:
		run, _ := runConcurrent(`t := spawn(func() { error("boom") }); r := try(func() { return t.wait() }, "caught"); r`, env)
		verifrt.Assert(run.stage == "ok", "runs:"+run.stage)
		if run.stage == "ok" {
			_, isErr := run.result.(*object.Error)
			s, isStr := run.result.(*object.String)
			verifrt.Assert(isErr || (isStr && s.Value() == "caught"), "wait-surfaces-the-error")
		}
	case 10:
		// a spawned call that panics in Go (division by zero): wait() raises an error
		run, _ := runConcurrent(`z := 0; t := spawn(func() { return 1 / z }); try(func() { t.wait(); return "no error" }, func(e) { return "caught" })`, env)
		verifrt.Assert(run.stage == "ok", "runs:"+run.stage)
		if run.stage == "ok" {
			sv, isStr := run.result.(*object.String)
			verifrt.Assert(isStr && sv.Value() == "caught", "wait-surfaces-a-panic-of-the-spawned-call-as-an-error")
		}
	case 11:
		// go statements are stack-neutral (C04) also under concurrency
		run, _ := runConcurrent(`ch := chan(3); for i := 0; i < 3; i++ { go func(v) { ch <- v }(a) }; x := <-ch; y := <-ch; z := <-ch; x + y + z`, env)
		verifrt.Assert(run.stage == "ok", "runs:"+run.stage)
		if run.stage == "ok" {
			iv, ok := asInt(run.result)
			verifrt.Assert(ok && iv == 3*a, "values-sent-by-go-statements-arrive")
			verifrt.Assert(run.machine.sp == 0, "go-statements-leave-nothing-on-the-stack")
		}
	case 8:
		// a goroutine started by a goroutine outlives its starter
		run, _ := runConcurrent(`ch := chan(0); launcher := spawn(func() { return spawn(func() { ch <- a; return 7 }) }); w := launcher.wait(); x := <-ch; w.wait() + x`, env)
		verifrt.Assert(run.stage == "ok", "runs:"+run.stage)
		if run.stage == "ok" {
			iv, ok := asInt(run.result)
			verifrt.Assert(ok && iv == a+7, "goroutine-started-by-a-goroutine-outlives-its-starter")
		}
	case 9:
		run, _ := runConcurrent(`ch := chan(0); go func() { go func() { ch <- a }() }(); <-ch`, env)
		verifrt.Assert(run.stage == "ok", "runs:"+run.stage)
		if run.stage == "ok" {
			iv, ok := asInt(run.result)
			verifrt.Assert(ok && iv == a, "goroutine-started-by-a-goroutine-outlives-its-starter")
		}
	case 4:
		run, _ := runConcurrent(`t1 := spawn(func(p) { return p * 2 }, a); t2 := spawn(func(p) { return p - 1 }, b); [t1.wait(), t2.wait()]`, env)
		verifrt.Assert(run.stage == "ok", "runs:"+run.stage)
		if run.stage == "ok" {
			got, ok := listInts(run.result)
			verifrt.Assert(ok && len(got) == 2 && got[0] == a*2 && got[1] == b-1, "each-wait-returns-its-own-result")
		}
	}
	verifrt.Reach("done")
}

// HarnessC10ClosedChannels: receive on closed-and-drained yields nil; close of
// closed and send on closed surface as errors, not panics.
func HarnessC10ClosedChannels() {
	a := verifrt.Int64()
	env := (&scriptEnv{}).addInt("a", a)
	switch verifrt.Choose(3) {
	case 0:
		run, _ := runConcurrent(`ch := chan(1); ch <- a; close(ch); x := <-ch; y := <-ch; [x, y == nil]`, env)
		verifrt.Assert(run.stage == "ok", "runs:"+run.stage)
		if run.stage == "ok" {
			l, ok := run.result.(*object.List)
			verifrt.Assert(ok && len(l.Value()) == 2, "two-receives")
			if ok && len(l.Value()) == 2 {
				iv, isInt := asInt(l.Value()[0])
				bv, isBool := asBool(l.Value()[1])
				verifrt.Assert(isInt && iv == a, "buffered-value-survives-close")
				verifrt.Assert(isBool && bv, "drained-closed-channel-yields-nil")
			}
		}
	case 1:
		run, _ := runConcurrent(`ch := chan(1); close(ch); close(ch)`, env)
		verifrt.Assert(run.err != nil && run.stage == "run", "close-of-closed-is-an-error")
	case 2:
		run, _ := runConcurrent(`ch := chan(1); close(ch); ch <- a`, env)
		verifrt.Assert(run.err != nil && run.stage == "run", "send-on-closed-is-an-error")
	}
	verifrt.Reach("done")
}


// HarnessC10TwoReceiversAndClose: two goroutines receive (with <-) from a
// buffered channel that holds one value and is then closed: one gets the value,
// the other gets nil, and both return.
func HarnessC10TwoReceiversAndClose() {
	verifrt.SchedPreemptBeforeChanOps(true)
	// the receivers may start late (after the send and the close): a wide fairness window
	verifrt.SchedBounds(2, 200)
	a := verifrt.Int64()
	verifrt.Assume(a != 0)
	env := (&scriptEnv{}).addInt("a", a)
	src := `ch := chan(2)
out := chan(2)
go func() { out <- [<-ch] }()
go func() { out <- [<-ch] }()
ch <- a
close(ch)
r1 := <-out
r2 := <-out
[r1[0], r2[0]]`
	run, _ := runConcurrent(src, env)
	verifrt.Assert(run.stage == "ok", "runs:"+run.stage)
	if run.stage != "ok" {
		return
	}
	verifrt.Reach("done")
	l, ok := run.result.(*object.List)
	verifrt.Assert(ok && len(l.Value()) == 2, "two-results")
	if !ok || len(l.Value()) != 2 {
		return
	}
	x, y := l.Value()[0], l.Value()[1]
	xi, xIsInt := asInt(x)
	yi, yIsInt := asInt(y)
	valueOnce := (xIsInt && xi == a && y == object.Nil) || (yIsInt && yi == a && x == object.Nil)
	verifrt.Assert(valueOnce, "one-receiver-gets-the-value-the-other-nil")
}

// HarnessC10NilValues: nil is an ordinary value on a channel and does not end iteration.
// (Two goroutines ranging over one channel lose/duplicate values on the pinned tree
// because Next() and Entry() race on Chan.lastReceived inside one VM instruction; the
// engine interleaves at synchronisation points only and cannot see that, see DESIGN §6.)
func HarnessC10NilValues() {
	a := verifrt.Int64()
	capacity := int64(verifrt.Choose(2))
	env := (&scriptEnv{}).addInt("a", a).addInt("n", capacity)
	switch verifrt.Choose(2) {
	case 0:
		src := `ch := chan(n)
go func() { ch <- a; ch <- nil; ch <- 7; ch <- nil; close(ch) }()
k := 0
s := 0
for _, v := range ch { k++; if v != nil { s += v } }
[k, s]`
		run, _ := runConcurrent(src, env)
		verifrt.Assert(run.stage == "ok", "runs:"+run.stage)
		if run.stage == "ok" {
			got, ok := listInts(run.result)
			verifrt.Assert(ok && len(got) == 2 && got[0] == 4, "nil-values-are-delivered-and-do-not-end-iteration")
			if ok && len(got) == 2 {
				verifrt.Assert(got[1] == a+7, "values-around-nil-arrive")
			}
		}
	case 1:
		// nil as the first and the only value
		src := `ch := chan(n)
go func() { ch <- nil; close(ch) }()
k := 0
for _, v := range ch { k++ }
k`
		run, _ := runConcurrent(src, env)
		verifrt.Assert(run.stage == "ok", "runs:"+run.stage)
		if run.stage == "ok" {
			iv, ok := asInt(run.result)
			verifrt.Assert(ok && iv == 1, "a-single-nil-value-is-delivered")
		}
	}
	verifrt.Reach("done")
}

// HarnessC04GoStatements (C04): `go` statements, spawn expressions used as
// statements and defer statements are stack-neutral also when goroutines run.
func HarnessC04GoStatements() {
	a := verifrt.Int64()
	env := (&scriptEnv{}).addInt("a", a)
	var run *scriptRun
	switch verifrt.Choose(3) {
	case 0:
		run, _ = runConcurrent(`ch := chan(3); for i := 0; i < 3; i++ { go func(v) { ch <- v }(a) }; x := <-ch; y := <-ch; z := <-ch; x + y + z`, env)
		if run.stage == "ok" {
			iv, ok := asInt(run.result)
			verifrt.Assert(ok && iv == 3*a, "values-sent-by-go-statements-arrive")
		}
	case 1:
		run, _ = runConcurrent(`ts := []; for i := 0; i < 3; i++ { spawn(func(v) { return v }, a); ts.append(spawn(func(v) { return v + 1 }, a)) }; ts[0].wait() + ts[2].wait()`, env)
		if run.stage == "ok" {
			iv, ok := asInt(run.result)
			verifrt.Assert(ok && iv == 2*(a+1), "thread-results-arrive")
		}
	case 2:
		run, _ = runConcurrent(`f := func() { ch := chan(1); defer close(ch); go func() { ch <- a }(); return <-ch }; f() + f()`, env)
		if run.stage == "ok" {
			iv, ok := asInt(run.result)
			verifrt.Assert(ok && iv == 2*a, "value-through-a-deferred-close")
		}
	}
	verifrt.Assert(run.stage == "ok", "runs:"+run.stage)
	if run.stage == "ok" {
		verifrt.Reach("done")
		verifrt.Assert(run.machine.sp == 0, "finished-evaluation-leaves-exactly-its-result")
	}
}
