//go:build verif

package vm

import (
	"bytes"
	"context"

	"github.com/risor-io/risor/builtins"
	"github.com/risor-io/risor/compiler"
	"github.com/risor-io/risor/internal/verifrt"
	"github.com/risor-io/risor/object"
	"github.com/risor-io/risor/parser"
)

var c17Progs = []string{
	`x := a + 1; x * 2`,
	`f := func(p, q=10, r="s", t=nil, u=true, v=1.5) { return p + q }; f(a) + f(a, b)`,
	`func fact(k) { if k <= 1 { return 1 }; return k * fact(k - 1) }; fact(3) + a`,
	`mk := func() { k := a; return func() { k = k + 1; return k } }; g := mk(); g(); g()`,
	`outer := func() { x := a; mid := func() { inner := func() { return x + b }; return inner() }; return mid() }; outer()`,
	`l := [1, 2.5, "three", nil, true, false]; m := {k: a, "j": b}; len(l) + m.k + m["j"]`,
	`s := 0; for i, v := range [a, b, 3] { if v == 0 { continue }; s += i + v }; s`,
	`t := 0; switch a { case 1: t = 10 case 2, 3: t = 20 default: t = 30 }; t + b`,
	`func __main__() { return 7 }; __main__() + a`,
	`func helper(p) { return p - 1 }; h := func(q) { return helper(q) * 2 }; h(a)`,
	`c := a > b ? "x" : "y"; c == "x" ? a : b`,
	`try(func() { error("boom") }, func(e) { return a })`,
	`const K = 5; f := func() { return K + a }; f()`,
	`f0 := func(p) { q := p + 0; return q }; f1 := func(p) { q := p + 1; return q }; f2 := func(p) { q := p + 2; return q }; f3 := func(p) { q := p + 3; return q }; f4 := func(p) { q := p + 4; return q }; f5 := func(p) { q := p + 5; return q }; f6 := func(p) { q := p + 6; return q }; f7 := func(p) { q := p + 7; return q }; f8 := func(p) { q := p + 8; return q }; f9 := func(p) { q := p + 9; return q }; f10 := func(p) { q := p + 10; return q }; f11 := func(p) { q := p + 11; return q }; f0(a) + f10(a) + f11(b)`,
	`outer := func(n) { func fact(k) { if k <= 1 { return 1 }; return k * fact(k - 1) }; return fact(n) }; outer(4) + a`,
	`mk := func() { func walk(k) { if k == 0 { return a }; return walk(k - 1) + 1 }; return walk }; mk()(3)`,
	`f := func(x, y=7, z="", w=false, v=0) { return x + y + v }; f(a) + f(a, b)`,
	`s := 0; for i := 0; i < 3; i++ { if i == 1 { continue }; s += i }; g := func() { }; g(); s + a`,
	// constants at the edges of their types
	`big := 9007199254740993; (big % 2) + a`,
	`mx := 9223372036854775807; mn := -9223372036854775807; f := func(p=1234567890123456789) { return p % 10 }; (mx % 7) + (mn % 7) + f() + a`,
	`fl := 0.1; g := 3.0; h := 1000000000000000000000.0; (fl < g && g < h) ? a : b`,
	`s := "tab\there \"quoted\" \\ done"; len(s) + a`,
	// closures over a const / a named function of the enclosing function
	`func scaler() { const factor = 3; return func(x) { return x * factor } }; scaler()(a)`,
	`func outer(k) { func helper(x) { return x * 2 }; return func(y) { return helper(y) + k } }; outer(a)(b)`,
	// more than ten functions in one scope (string ids .10 .11 sort before .2)
	`f1 := func() { return 1 }; f2 := func() { return 2 }; f3 := func() { return 3 }; f4 := func() { return 4 }; f5 := func() { return 5 }; f6 := func() { return 6 }; f7 := func() { return 7 }; f8 := func() { return 8 }; f9 := func() { return 9 }; f10 := func() { return 10 }; f11 := func() { return 11 }; f12 := func() { return 12 }; f2() + f10() + f12() + a`,
	// sibling functions in one scope, and siblings nested in a function
	`func one(p) { return p + 1 }; func two(p) { return p * 2 }; func three(p) { return p - 3 }; one(a) + two(b) + three(a)`,
	`mk := func() { inc := func(p) { return p + 1 }; dbl := func(p) { return p * 2 }; return [inc, dbl] }; fs := mk(); fs[0](a) + fs[1](b)`,
}

func c17SameCode(x, y *compiler.Code, depth int) bool {
	if depth > 6 {
		return true
	}
	if x.InstructionCount() != y.InstructionCount() || x.ConstantsCount() != y.ConstantsCount() ||
		x.NameCount() != y.NameCount() || x.LocalsCount() != y.LocalsCount() || x.GlobalsCount() != y.GlobalsCount() ||
		x.IsNamed() != y.IsNamed() || x.FunctionID() != y.FunctionID() || x.CodeName() != y.CodeName() {
		return false
	}
	for i := 0; i < x.InstructionCount(); i++ {
		if x.Instruction(i) != y.Instruction(i) {
			return false
		}
	}
	for i := 0; i < x.NameCount(); i++ {
		if x.Name(i) != y.Name(i) {
			return false
		}
	}
	for i := 0; i < x.ConstantsCount(); i++ {
		cx, cy := x.Constant(i), y.Constant(i)
		fx, isFx := cx.(*compiler.Function)
		fy, isFy := cy.(*compiler.Function)
		if isFx != isFy {
			return false
		}
		if isFx {
			if fx.Name() != fy.Name() || fx.ID() != fy.ID() || fx.ParametersCount() != fy.ParametersCount() ||
				fx.RequiredArgsCount() != fy.RequiredArgsCount() || fx.LocalsCount() != fy.LocalsCount() {
				return false
			}
			for k := 0; k < fx.ParametersCount(); k++ {
				if fx.Parameter(k) != fy.Parameter(k) {
					return false
				}
			}
			if fx.DefaultsCount() != fy.DefaultsCount() {
				return false
			}
			for k := 0; k < fx.DefaultsCount(); k++ {
				if fx.Default(k) != fy.Default(k) {
					return false
				}
			}
			if !c17SameCode(fx.Code(), fy.Code(), depth+1) {
				return false
			}
		} else if cx != cy {
			return false
		}
	}
	return true
}

type c17Out struct {
	val  object.Object
	err  bool
	emit []object.Object
}

func c17Run(code *compiler.Code, globals map[string]any) c17Out {
	var out c17Out
	g := map[string]any{}
	for k, v := range globals {
		g[k] = v
	}
	g["emit"] = object.NewBuiltin("emit", func(ctx context.Context, args ...object.Object) object.Object {
		out.emit = append(out.emit, args...)
		return object.Nil
	})
	machine := New(code, WithGlobals(g))
	if err := machine.Run(context.Background()); err != nil {
		out.err = true
		return out
	}
	if tos, ok := machine.TOS(); ok {
		out.val = tos
	}
	return out
}

// HarnessC17MarshalRoundTrip: code reloaded from its marshalled form has the
// same observable structure and evaluates to the same result.
func HarnessC17MarshalRoundTrip() {
	src := c17Progs[verifrt.Choose(len(c17Progs))]
	a, b := verifrt.Int64(), verifrt.Int64()
	globals := map[string]any{"a": object.NewInt(a), "b": object.NewInt(b)}
	for name, bi := range builtins.Builtins() {
		globals[name] = bi
	}
	names := []string{"emit"}
	for n := range globals {
		names = append(names, n)
	}
	prog, err := parser.Parse(context.Background(), src)
	verifrt.Assert(err == nil, "parses")
	if err != nil {
		return
	}
	code, err := compiler.Compile(prog, compiler.WithGlobalNames(names))
	verifrt.Assert(err == nil, "compiles")
	if err != nil {
		return
	}
	data, err := compiler.MarshalCode(code)
	verifrt.Assert(err == nil, "marshal-succeeds")
	if err != nil {
		return
	}
	loaded, err := compiler.UnmarshalCode(data)
	verifrt.Assert(err == nil, "unmarshal-of-marshaller-output-succeeds")
	if err != nil {
		return
	}
	verifrt.Reach("reloaded")
	verifrt.Assert(c17SameCode(code, loaded, 0), "reloaded-code-has-the-same-structure")
	// marshalling the reloaded code reproduces the same bytes
	data2, err2 := compiler.MarshalCode(loaded)
	verifrt.Assert(err2 == nil && bytes.Equal(data, data2), "marshalling-the-reloaded-code-reproduces-the-same-bytes")
	// the code objects come in the same order
	fl1, fl2 := code.Flatten(), loaded.Flatten()
	verifrt.Assert(len(fl1) == len(fl2), "same-number-of-code-objects")
	if len(fl1) == len(fl2) {
		for i := range fl1 {
			verifrt.Assert(fl1[i].FunctionID() == fl2[i].FunctionID() && fl1[i].CodeName() == fl2[i].CodeName(), "code-objects-in-the-same-order")
		}
	}
	o1 := c17Run(code, globals)
	o2 := c17Run(loaded, globals)
	verifrt.Assert(o1.err == o2.err, "same-error-outcome")
	if !o1.err && !o2.err {
		i1, ok1 := asInt(o1.val)
		i2, ok2 := asInt(o2.val)
		verifrt.Assert(ok1 == ok2 && (!ok1 || i1 == i2), "same-result")
	}
}
