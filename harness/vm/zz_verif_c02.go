//go:build verif

package vm

import (
	"context"

	"github.com/risor-io/risor/internal/verifrt"
	"github.com/risor-io/risor/object"
)

var c02Templates = []tmpl{
	{"depth1-escaped-counter", `mk := func() { k := a; return func() { k = k + 1; return k } }; f := mk(); f(); f()`, func(a, b, c, n int64) tOut { return outInt(a + 2) }},
	{"many-locals-two-instances-in-a-row", `mk := func(s) { l1 := 1; l2 := 2; l3 := 3; l4 := 4; l5 := 5; l6 := 6; l7 := 7; l8 := 8; count := s; return func() { count = count + 1; return count + l1 + l8 - 9 } }; c1 := mk(a); c2 := mk(b); r1 := c1(); r2 := c1(); r3 := c2(); r4 := c1(); (r1 - a) * 1000 + (r2 - a) * 100 + (r3 - b) * 10 + (r4 - a)`, func(a, b, c, n int64) tOut {
		return outInt(1213)
	}},
	{"many-locals-instance-then-other-big-function", `mk := func(s) { l1 := 1; l2 := 2; l3 := 3; l4 := 4; l5 := 5; l6 := 6; l7 := 7; l8 := 8; count := s; return func() { count = count + l8; return count } }; other := func(t) { m1 := t; m2 := t; m3 := t; m4 := t; m5 := t; m6 := t; m7 := t; m8 := t; m9 := t; m10 := t; return m1 + m10 }; g := mk(a); other(b); g()`, func(a, b, c, n int64) tOut { return outInt(a + 8) }},
	{"compound-assign-to-captured-at-a-later-slot", `mk := func() { p := 1; q := 2; total := a; add := func(v) { total += v; return total }; return add }; f := mk(); f(b); f(c)`, func(a, b, c, n int64) tOut { return outInt(a + b + c) }},
	{"compound-minus-and-times-on-captured", `mk := func() { p := 7; q := 9; acc := a; step := func(v) { acc -= v; acc *= 2; return acc + p - 7 }; return step }; f := mk(); f(b)`, func(a, b, c, n int64) tOut { return outInt((a - b) * 2) }},
	{"compound-assign-captured-two-levels-up", `mk := func() { u := 5; total := a; mid := func() { w := 6; return func(v) { total += v + w - 6; return total } }; return mid() }; f := mk(); f(b); f(c) + 0`, func(a, b, c, n int64) tOut { return outInt(a + b + c) }},
	{"closure-in-a-block-captures-the-block-variable-that-shadows-an-outer-one", `mk := func() { x := a; f := nil; if true { x := b; f = func() { x = x + 1; return x } }; return [f, x] }; p := mk(); p[0]() * 1000 + p[0]() - p[1]`, func(a, b, c, n int64) tOut {
		return outInt((b+1)*1000 + (b + 2) - a)
	}},
	{"closure-recursion-through-its-own-captured-name", `mk := func() { fact := nil; fact = func(k) { if k <= 1 { return 1 }; return k * fact(k - 1) }; return fact }; mk()(4) + a`, func(a, b, c, n int64) tOut { return outInt(24 + a) }},
	{"closure-over-a-const", `mk := func() { const k = 7; return func() { return k + a } }; mk()()`, func(a, b, c, n int64) tOut { return outInt(7 + a) }},
	{"closure-in-a-switch-case", `mk := func(s) { f := nil; switch s { case 1: y := a; f = func() { y = y + 1; return y } default: y := b; f = func() { y = y - 1; return y } }; return f }; g := mk(1); h := mk(2); g() + g() + h()`, func(a, b, c, n int64) tOut {
		return outInt((a + 1) + (a + 2) + (b - 1))
	}},
	{"depth1-by-reference", `mk := func() { x := a; g := func() { return x }; x = b; return g }; mk()()`, func(a, b, c, n int64) tOut { return outInt(b) }},
	{"depth1-write-visible-to-definer", `mk := func() { x := a; set := func() { x = b }; set(); return x }; mk()`, func(a, b, c, n int64) tOut { return outInt(b) }},
	{"depth1-param-capture", `mk := func(p) { return func(q) { return p - q } }; mk(a)(b)`, func(a, b, c, n int64) tOut { return outInt(a - b) }},
	{"two-instances-are-independent", `mk := func(s) { k := s; return func() { k = k + 1; return k } }; f := mk(a); g := mk(b); f(); f(); g(); f() - g()`, func(a, b, c, n int64) tOut {
		return outInt((a + 3) - (b + 2))
	}},
	{"shared-binding-two-closures", `mk := func() { k := a; inc := func() { k += 1 }; get := func() { return k }; return [inc, get] }; p := mk(); p[0](); p[0](); p[1]()`, func(a, b, c, n int64) tOut { return outInt(a + 2) }},
	{"depth2-inplace", `mk := func() { x := a; mid := func() { inner := func() { return x + 1 }; return inner() }; return mid() }; mk()`, func(a, b, c, n int64) tOut { return outInt(a + 1) }},
	{"depth2-escaped-after-return", `mk := func() { x := a; return func() { return func() { x = x + 1; return x } } }; g := mk()(); g(); g()`, func(a, b, c, n int64) tOut { return outInt(a + 2) }},
	{"depth2-middle-binding", `mk := func() { return func() { y := b; return func() { y = y + 1; return y } } }; g := mk()(); g(); g()`, func(a, b, c, n int64) tOut { return outInt(b + 2) }},
	{"depth2-created-under-foreign-frame", `mk := func() { x := a; return func() { return func() { return x } } }; mid := mk(); wrapper := func() { y := b; return mid() }; wrapper()()`, func(a, b, c, n int64) tOut { return outInt(a) }},
	{"many-locals-capture-write-both-ways", `outer := func() { l1 := 1; l2 := 2; l3 := 3; l4 := 4; l5 := 5; l6 := 6; l7 := 7; l8 := 8; l9 := 9; k := a; inc := func() { k = k + 1; return k }; get := func() { return k }; k = b; inc(); seen := k; return get() + seen + l1 + l9 }; outer()`, func(a, b, c, n int64) tOut {
		return outInt((b + 1) + (b + 1) + 10)
	}},
	{"many-locals-escaped", `mk := func() { l1 := 1; l2 := 2; l3 := 3; l4 := 4; l5 := 5; l6 := 6; l7 := 7; l8 := 8; l9 := 9; l10 := 10; k := a; return [func() { k = k + l10; return k }, func() { return k + l1 }] }; p := mk(); p[0](); p[0](); p[1]()`, func(a, b, c, n int64) tOut {
		return outInt(a + 20 + 1)
	}},
	{"eight-locals-boundary", `outer := func() { l1 := 1; l2 := 2; l3 := 3; l4 := 4; l5 := 5; l6 := 6; k := a; set := func() { k = b }; set(); k = k + 1; g := func() { return k }; return g() + l6 }; outer()`, func(a, b, c, n int64) tOut {
		return outInt(b + 1 + 6)
	}},
	{"shadow-captured-in-nested-block", `outer := func() { x := a; inner := func() { seen := x; r := 0; if true { x := b; if true { x = x + 5 }; r = x }; return seen + r }; v := inner(); return v - x }; outer()`, func(a, b, c, n int64) tOut {
		return outInt(a + (b + 5) - a)
	}},
	{"shadow-captured-then-read-outer", `outer := func() { x := a; inner := func() { y := x; if c > 0 { x := b; y = y + x }; return y + x }; return inner() }; outer()`, func(a, b, c, n int64) tOut {
		if c > 0 {
			return outInt(a + b + a)
		}
		return outInt(a + a)
	}},
	{"tuple-assign-to-captured", `mk := func() { p := a; q := b; swap := func() { p, q = [q, p] }; get := func() { return p - q }; return [swap, get] }; fs := mk(); fs[0](); fs[1]()`, func(a, b, c, n int64) tOut {
		return outInt(b - a)
	}},
	{"tuple-assign-to-captured-in-callback", `mk := func() { p := a; q := b; swap := func(ignored) { p, q = [q, p] }; get := func() { return p - q }; return [swap, get] }; fs := mk(); [0, 0, 0].each(fs[0]); fs[1]()`, func(a, b, c, n int64) tOut {
		return outInt(b - a)
	}},
	{"compound-and-postfix-on-captured", `mk := func() { k := a; return [func() { k += b; k++; k -= 1 }, func() { return k }] }; fs := mk(); fs[0](); fs[0](); fs[1]()`, func(a, b, c, n int64) tOut {
		return outInt(a + 2*b)
	}},
	{"second-free-variable", `mk := func() { u := a; v := b; w := c; return func() { v = v + 1; w = w + 2; return u + v + w } }; g := mk(); g(); g()`, func(a, b, c, n int64) tOut {
		return outInt(a + b + 2 + c + 4)
	}},
	{"closure-with-default-argument", `mk := func() { base := a; return func(x, y=5) { return base + x + y } }; g := mk(); g(b) + g(b, c)`, func(a, b, c, n int64) tOut {
		return outInt((a + b + 5) + (a + b + c))
	}},
	{"closure-with-default-via-callback", `mk := func() { base := a; return func(x, y=7) { return base + x + y } }; r := 0; g := mk(); [b].each(func(v) { r = g(v) }); r`, func(a, b, c, n int64) tOut {
		return outInt(a + b + 7)
	}},
	{"depth3-curried", `f := func(p) { return func(q) { return func(r) { return p - q - r } } }; f(a)(b)(c)`, func(a, b, c, n int64) tOut { return outInt(a - b - c) }},
	{"depth3-curried-stepwise", `f := func(p) { return func(q) { return func(r) { return p - q - r } } }; g := f(a); h := g(b); h(c)`, func(a, b, c, n int64) tOut { return outInt(a - b - c) }},
	{"depth3-inplace", `f := func(p) { g := func(q) { h := func(r) { return p - q - r }; return h(c) }; return g(b) }; f(a)`, func(a, b, c, n int64) tOut { return outInt(a - b - c) }},
	{"different-call-chain", `apply := func(h) { return h() }; mk := func() { x := a; return apply(func() { return x + 1 }) }; mk()`, func(a, b, c, n int64) tOut { return outInt(a + 1) }},
	{"different-call-chain-escaped", `apply := func(h) { return h() }; mk := func() { x := a; return func() { x = x + 1; return x } }; g := mk(); apply(g); apply(g)`, func(a, b, c, n int64) tOut { return outInt(a + 2) }},
	{"callback-in-list-map", `mk := func() { k := a; return [1, 2].map(func(v) { return v + k }) }; mk()[1]`, func(a, b, c, n int64) tOut { return outInt(2 + a) }},
	{"callback-in-list-map-writes", `mk := func() { k := 0; [a, b, c].each(func(v) { k = k + v }); return k }; mk()`, func(a, b, c, n int64) tOut { return outInt(a + b + c) }},
	{"callback-in-list-filter", `mk := func() { lim := a; return len([1, 2, 3].filter(func(v) { return v > lim })) }; mk()`, func(a, b, c, n int64) tOut {
		k := int64(0)
		for _, v := range []int64{1, 2, 3} {
			if v > a {
				k++
			}
		}
		return outInt(k)
	}},
	{"callback-in-try", `mk := func() { k := a; return try(func() { return k + 1 }, 0) }; mk()`, func(a, b, c, n int64) tOut { return outInt(a + 1) }},
	{"callback-in-try-handler", `mk := func() { k := a; return try(func() { error("x") }, func(e) { return k + 2 }) }; mk()`, func(a, b, c, n int64) tOut { return outInt(a + 2) }},
	{"stored-in-list-called-later", `fs := []; mk := func(s) { k := s; fs.append(func() { k = k + 1; return k }) }; mk(a); mk(b); fs[0](); fs[1](); fs[0]() - fs[1]()`, func(a, b, c, n int64) tOut {
		return outInt((a + 2) - (b + 2))
	}},
	{"stored-in-map-called-later", `mk := func() { k := a; return {rd: func() { return k }, up: func() { k = k + 1 }} }; m := mk(); m.up(); m.up(); m.rd()`, func(a, b, c, n int64) tOut { return outInt(a + 2) }},
	{"recursive-closure-over-local", `mk := func() { base := a; func sum(k) { if k <= 0 { return base }; return k + sum(k-1) }; return sum }; mk()(n)`, func(a, b, c, n int64) tOut {
		s := a
		for k := n; k > 0; k-- {
			s += k
		}
		return outInt(s)
	}},
	{"global-and-local-same-name", `x := a; mk := func() { x := b; return func() { return x } }; mk()() - x`, func(a, b, c, n int64) tOut { return outInt(b - a) }},
	{"closure-reads-global-updates", `x := a; g := func() { return x }; x = b; g()`, func(a, b, c, n int64) tOut { return outInt(b) }},
	// loops between the creation of closures over one variable
	{"getter-made-before-a-range-loop-sees-the-loop-writes", `mk := func() { x := 0; get := func() { return x }; for _, v := range [a, b] { x = x + v }; return get() }; mk()`, func(a, b, c, n int64) tOut { return outInt(a + b) }},
	{"getter-before-and-setter-after-a-for-in-loop-share", `mk := func() { x := a; get := func() { return x }; for i in [1, 2] { x = x + i }; set := func(k) { x = k }; set(b); return get() }; mk()`, func(a, b, c, n int64) tOut { return outInt(b) }},
	{"closures-made-in-successive-iterations-share-an-outer-variable", `mk := func() { x := 0; fs := []; for _, v := range [1, 2] { fs.append(func(d) { x = x + d; return x }) }; fs[0](a); return fs[1](b) }; mk()`, func(a, b, c, n int64) tOut { return outInt(a + b) }},
	{"getter-made-before-a-range-over-int-loop", `mk := func() { x := a; get := func() { return x }; for i := range 3 { x = x + 1 }; return get() }; mk()`, func(a, b, c, n int64) tOut { return outInt(a + 3) }},
	{"getter-made-before-a-three-clause-loop", `mk := func() { x := a; get := func() { return x }; for i := 0; i < 3; i++ { x = x + 1 }; return get() }; mk()`, func(a, b, c, n int64) tOut { return outInt(a + 3) }},
	{"getter-made-inside-a-loop-sees-later-iterations", `mk := func() { x := a; g := nil; for _, v := range [1, 2, 3] { if v == 1 { g = func() { return x } }; x = x + v }; return g() }; mk()`, func(a, b, c, n int64) tOut { return outInt(a + 6) }},
}

// HarnessC02Closures: lexical capture at depth 1..3 through several escape routes.
func HarnessC02Closures() {
	ti := verifrt.Choose(len(c02Templates))
	t := c02Templates[ti]
	a, b, c := verifrt.Int64(), verifrt.Int64(), verifrt.Int64()
	n := int64(verifrt.Choose(3))
	env := (&scriptEnv{}).addInt("a", a).addInt("b", b).addInt("c", c).addInt("n", n)
	r := runScript(t.src, env)
	verifrt.Reach("done")
	c01CheckResult(r, t.ref(a, b, c, n).val, t.name)
}

// HarnessC02CallFromGo: closures fetched with vm.Get and invoked with vm.Call,
// in a symbolic order, share their binding.
func HarnessC02CallFromGo() {
	a := verifrt.Int64()
	env := (&scriptEnv{}).addInt("a", a)
	src := `mk := func() { k := a; inc := func() { k = k + 1; return k }; get := func() { return k }; return [inc, get] }
p := mk()
inc := p[0]
get := p[1]
0`
	r := runScript(src, env)
	verifrt.Assert(r.stage == "ok", "setup-runs")
	if r.stage != "ok" {
		return
	}
	ctx := context.Background()
	incObj, err1 := r.machine.Get("inc")
	getObj, err2 := r.machine.Get("get")
	verifrt.Assert(err1 == nil && err2 == nil, "globals-available")
	if err1 != nil || err2 != nil {
		return
	}
	inc, ok1 := incObj.(*object.Function)
	get, ok2 := getObj.(*object.Function)
	verifrt.Assert(ok1 && ok2, "globals-are-functions")
	if !ok1 || !ok2 {
		return
	}
	want := a
	for i := 0; i < 3; i++ {
		if verifrt.Bool() {
			want++
			res, err := r.machine.Call(ctx, inc, nil)
			verifrt.Assert(err == nil, "call-inc-succeeds")
			if err == nil {
				iv, ok := res.(*object.Int)
				verifrt.Assert(ok && iv.Value() == want, "inc-sees-shared-binding")
			}
		} else {
			res, err := r.machine.Call(ctx, get, nil)
			verifrt.Assert(err == nil, "call-get-succeeds")
			if err == nil {
				iv, ok := res.(*object.Int)
				verifrt.Assert(ok && iv.Value() == want, "get-sees-shared-binding")
			}
		}
	}
	verifrt.Reach("done")
}

// HarnessC02ClosuresAcrossPieces: a closure made by a function defined in an
// earlier piece of an incremental session (one compiler, one VM, as the REPL
// drives them) refers to the top-level variables themselves, also after later
// pieces added more globals and reassigned them.
func HarnessC02ClosuresAcrossPieces() {
	a, b := verifrt.Int64(), verifrt.Int64()
	s := newReplSession((&scriptEnv{}).addInt("a", a).addInt("b", b))
	pieces := []string{
		"x := a",
		"mk := func() { return func() { x = x + 10; return x } }",
		"g := mk()",
		"y := b",
		"r1 := g()",
		"x = x + y",
		"r2 := g()",
	}
	piece := ""
	for i, st := range pieces {
		if piece == "" {
			piece = st
		} else {
			piece += "\n" + st
		}
		if i == len(pieces)-1 || verifrt.Bool() {
			_, err, stage := s.eval(piece)
			verifrt.Assert(err == nil, "piece-runs:"+stage)
			if err != nil {
				return
			}
			piece = ""
		}
	}
	verifrt.Reach("session-done")
	r1, ok1 := s.get("r1")
	r2, ok2 := s.get("r2")
	x, okx := s.get("x")
	verifrt.Assert(ok1 && r1 == a+10, "closure-reads-and-writes-the-top-level-variable")
	verifrt.Assert(ok2 && r2 == a+10+b+10, "closure-sees-later-reassignment-of-the-top-level-variable")
	verifrt.Assert(okx && x == a+10+b+10, "top-level-variable-sees-the-closure-write")
}
