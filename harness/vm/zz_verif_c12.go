//go:build verif

package vm

import (
	"context"

	"github.com/risor-io/risor/internal/verifrt"
	modfilepath "github.com/risor-io/risor/modules/filepath"
	modfmt "github.com/risor-io/risor/modules/fmt"
	modos "github.com/risor-io/risor/modules/os"
	"github.com/risor-io/risor/object"
	ros "github.com/risor-io/risor/os"
)

func newRecOS() *recOS {
	mfs := ros.NewMockFS()
	vos := ros.NewVirtualOS(context.Background(),
		ros.WithMounts(map[string]*ros.Mount{"/": {Source: mfs, Target: "/", Type: "mock"}}),
		ros.WithCwd("/"), ros.WithTmp("/tmp"),
		ros.WithEnvironment(map[string]string{"K": "V"}),
		ros.WithStdout(ros.NewInMemoryFile(nil)), ros.WithStderr(ros.NewInMemoryFile(nil)),
		ros.WithStdin(ros.NewInMemoryFile([]byte("in"))),
		ros.WithExitHandler(func(int) {}),
		ros.WithUserHomeDir("/home"), ros.WithUserCacheDir("/cache"), ros.WithUserConfigDir("/cfg"),
	)
	vos.WriteFile("/f", []byte("data"), 0o644)
	vos.Mkdir("/d", 0o755)
	return &recOS{VirtualOS: vos}
}

type c12Entry struct {
	name string
	fn   object.BuiltinFunction
	args func() []object.Object
	want string // the OS method that must have served the call
}

// c12ArgMethods: entries whose script arguments must reach the host OS method
// unchanged: entry name -> list of (method, indices of the script arguments
// that form the method's string parameters).
type c12ArgSpec struct {
	method string
	idx    []int
}

var c12ArgMethods = map[string][]c12ArgSpec{
	"os.chdir":                  {{"Chdir", []int{0}}},
	"os.mkdir":                  {{"Mkdir", []int{0}}},
	"os.mkdir_all":              {{"MkdirAll", []int{0}}},
	"os.remove":                 {{"Remove", []int{0}}},
	"os.remove_all":             {{"RemoveAll", []int{0}}},
	"os.open":                   {{"Open", []int{0}}},
	"os.create":                 {{"Create", []int{0}}},
	"os.rename":                 {{"Rename", []int{0, 1}}},
	"os.symlink":                {{"Symlink", []int{0, 1}}},
	"os.stat":                   {{"Stat", []int{0}}},
	"os.getenv":                 {{"Getenv", []int{0}}},
	"os.setenv":                 {{"Setenv", []int{0, 1}}},
	"os.unsetenv":               {{"Unsetenv", []int{0}}},
	"os.read_file":              {{"ReadFile", []int{0}}},
	"os.write_file":             {{"WriteFile", []int{0}}},
	"os.read_dir":               {{"ReadDir", []int{0}}},
	"os.mkdir_temp":             {{"MkdirTemp", []int{0, 1}}},
	"os.mkdir_temp-default-dir": {{"MkdirTemp", []int{0, 1}}},
	"os.lookup_user":            {{"LookupUser", []int{0}}},
	"os.lookup_uid":             {{"LookupUid", []int{0}}},
	"os.lookup_group":           {{"LookupGroup", []int{0}}},
	"os.lookup_gid":             {{"LookupGid", []int{0}}},
	"cat":                       {{"ReadFile", []int{0}}},
	"cp":                        {{"ReadFile", []int{0}}, {"WriteFile", []int{1}}},
}

func strArg(s string) object.Object { return object.NewString(s) }

// symPath: "/" followed by one symbolic byte, or a fixed existing path
func c12Path() object.Object {
	if verifrt.Bool() {
		return object.NewString("/f")
	}
	return object.NewString("/" + verifrt.String(1))
}

var c12Entries = []c12Entry{
	{"os.args", modos.Args, func() []object.Object { return nil }, "Args"},
	{"os.chdir", modos.Chdir, func() []object.Object { return []object.Object{strArg("/d")} }, "Chdir"},
	{"os.getwd", modos.Getwd, func() []object.Object { return nil }, "Getwd"},
	{"os.mkdir", modos.Mkdir, func() []object.Object { return []object.Object{c12Path()} }, "Mkdir"},
	{"os.mkdir_all", modos.MkdirAll, func() []object.Object { return []object.Object{c12Path()} }, "MkdirAll"},
	{"os.remove", modos.Remove, func() []object.Object { return []object.Object{c12Path()} }, "Remove"},
	{"os.remove_all", modos.RemoveAll, func() []object.Object { return []object.Object{c12Path()} }, "RemoveAll"},
	{"os.open", modos.Open, func() []object.Object { return []object.Object{c12Path()} }, "Open"},
	{"os.create", modos.Create, func() []object.Object { return []object.Object{c12Path()} }, "Create"},
	{"os.rename", modos.Rename, func() []object.Object { return []object.Object{strArg("/f"), c12Path()} }, "Rename"},
	{"os.symlink", modos.Symlink, func() []object.Object { return []object.Object{strArg("/f"), c12Path()} }, "Symlink"},
	{"os.stat", modos.Stat, func() []object.Object { return []object.Object{c12Path()} }, "Stat"},
	{"os.temp_dir", modos.TempDir, func() []object.Object { return nil }, "TempDir"},
	{"os.getenv", modos.Getenv, func() []object.Object { return []object.Object{strArg(verifrt.String(1))} }, "Getenv"},
	{"os.setenv", modos.Setenv, func() []object.Object { return []object.Object{strArg("A"), strArg(verifrt.String(1))} }, "Setenv"},
	{"os.unsetenv", modos.Unsetenv, func() []object.Object { return []object.Object{strArg("K")} }, "Unsetenv"},
	{"os.environ", modos.Environ, func() []object.Object { return nil }, "Environ"},
	{"os.read_file", modos.ReadFile, func() []object.Object { return []object.Object{c12Path()} }, "ReadFile"},
	{"os.write_file", modos.WriteFile, func() []object.Object { return []object.Object{c12Path(), strArg("x")} }, "WriteFile"},
	{"os.read_dir", modos.ReadDir, func() []object.Object { return []object.Object{strArg("/")} }, "ReadDir"},
	{"os.read_dir-no-argument", modos.ReadDir, func() []object.Object { return nil }, "Getwd"},
	{"ls-no-argument-lists-host-cwd", modos.ReadDir, func() []object.Object { return nil }, "ReadDir"},
	{"os.stdin", c12Attr("stdin"), func() []object.Object { return nil }, "Stdin"},
	{"os.stdout", c12Attr("stdout"), func() []object.Object { return nil }, "Stdout"},
	{"os.stderr", c12Attr("stderr"), func() []object.Object { return nil }, "Stderr"},
	{"os.user_cache_dir", modos.UserCacheDir, func() []object.Object { return nil }, "UserCacheDir"},
	{"os.user_config_dir", modos.UserConfigDir, func() []object.Object { return nil }, "UserConfigDir"},
	{"os.user_home_dir", modos.UserHomeDir, func() []object.Object { return nil }, "UserHomeDir"},
	{"os.getpid", modos.Getpid, func() []object.Object { return nil }, "Getpid"},
	{"os.getuid", modos.Getuid, func() []object.Object { return nil }, "Getuid"},
	{"os.hostname", modos.Hostname, func() []object.Object { return nil }, "Hostname"},
	{"os.mkdir_temp", modos.MkdirTemp, func() []object.Object { return []object.Object{strArg("/d"), strArg("p")} }, "MkdirTemp"},
	{"os.mkdir_temp-default-dir", modos.MkdirTemp, func() []object.Object { return []object.Object{strArg(""), strArg("p" + verifrt.String(1))} }, "MkdirTemp"},
	{"os.exit", modos.Exit, func() []object.Object { return []object.Object{object.NewInt(verifrt.Int64())} }, "Exit"},
	{"os.current_user", modos.CurrentUser, func() []object.Object { return nil }, "CurrentUser"},
	{"os.lookup_user", modos.LookupUser, func() []object.Object { return []object.Object{strArg("u")} }, "LookupUser"},
	{"os.lookup_uid", modos.LookupUid, func() []object.Object { return []object.Object{strArg("1")} }, "LookupUid"},
	{"os.lookup_group", modos.LookupGroup, func() []object.Object { return []object.Object{strArg("g")} }, "LookupGroup"},
	{"os.lookup_gid", modos.LookupGid, func() []object.Object { return []object.Object{strArg("1")} }, "LookupGid"},
	{"cat", modos.Cat, func() []object.Object { return []object.Object{strArg("/f")} }, "ReadFile"},
	{"cp", modos.Copy, func() []object.Object { return []object.Object{strArg("/f"), c12Path()} }, "ReadFile"},
	{"fmt.println-no-arguments", modfmt.Println, func() []object.Object { return nil }, "Stdout"},
	{"os.mkdir-with-mode", modos.Mkdir, func() []object.Object { return []object.Object{strArg("/newdir"), object.NewInt(0o750)} }, "Mkdir"},
	{"os.mkdir_all-with-mode", modos.MkdirAll, func() []object.Object { return []object.Object{strArg("/n1/n2"), object.NewInt(0o750)} }, "MkdirAll"},
	{"os.write_file-with-mode", modos.WriteFile, func() []object.Object {
		return []object.Object{strArg("/newfile"), strArg("x"), object.NewInt(0o600)}
	}, "WriteFile"},
	{"fmt.println", modfmt.Println, func() []object.Object { return []object.Object{strArg("x")} }, "Stdout"},
	{"fmt.printf", modfmt.Printf, func() []object.Object { return []object.Object{strArg("%s"), strArg(verifrt.String(1))} }, "Stdout"},
	{"printf-int", modfmt.Printf, func() []object.Object { return []object.Object{strArg("%d"), object.NewInt(verifrt.Int64())} }, "Stdout"},
	{"filepath.abs", modfilepath.Abs, func() []object.Object { return []object.Object{strArg("rel")} }, "Getwd"},
}

// c12Attr resolves a dynamic attribute of the os module (os.stdin/stdout/stderr)
// and writes/reads through the file object it yields.
func c12Attr(name string) object.BuiltinFunction {
	return func(ctx context.Context, args ...object.Object) object.Object {
		attr, ok := modos.Module().GetAttr(name)
		if !ok {
			return object.Errorf("no such attribute")
		}
		if d, isDyn := attr.(*object.DynamicAttr); isDyn {
			v, err := d.ResolveAttr(ctx, name)
			if err != nil {
				return object.NewError(err)
			}
			attr = v
		}
		f, isFile := attr.(*object.File)
		if !isFile {
			return object.Errorf("not a file")
		}
		if name != "stdin" {
			if w, found := f.GetAttr("write"); found {
				w.(*object.Builtin).Call(ctx, object.NewString("x"))
			}
		}
		return f
	}
}

// HarnessC12HostOSMediatesEverything: each OS-facing builtin, called with a
// context prepared by the real VM (WithOS, a clone, or an OS in the context),
// is served by the host-supplied OS. Reaching a Go os/syscall function is an
// engine trap (reported as inconclusive, since native replay cannot observe it).
func HarnessC12HostOSMediatesEverything() {
	rec := newRecOS()
	base := context.Background()
	var ctx context.Context
	switch verifrt.Choose(3) {
	case 0:
		machine, err := NewEmpty()
		verifrt.Assume(err == nil)
		WithOS(rec)(machine)
		ctx = machine.initContext(base)
	case 1:
		machine, err := NewEmpty()
		verifrt.Assume(err == nil)
		WithOS(rec)(machine)
		clone, cerr := machine.Clone()
		verifrt.Assert(cerr == nil, "clone-succeeds")
		if cerr != nil {
			return
		}
		ctx = clone.initContext(base)
	case 2:
		machine, err := NewEmpty()
		verifrt.Assume(err == nil)
		ctx = machine.initContext(ros.WithOS(base, rec))
	}
	got, found := ros.GetOS(ctx)
	verifrt.Assert(found && got == ros.OS(rec), "context-carries-the-host-os")
	e := c12Entries[verifrt.Choose(len(c12Entries))]
	rec.calls, rec.args, rec.argv = nil, nil, nil
	args := e.args()
	res := e.fn(ctx, args...)
	_ = res
	verifrt.Reach("called")
	verifrt.Assert(rec.used(e.want), e.name+":served-by-host-os")
	// what the in-memory host OS can do succeeds for the script: an error here
	// means something other than the host OS was consulted
	switch e.name {
	case "os.mkdir-with-mode", "os.mkdir_all-with-mode", "os.write_file-with-mode":
		_, isErr := res.(*object.Error)
		verifrt.Assert(!isErr, e.name+":succeeds-on-the-host-os")
	}
	// the host OS is handed exactly the script's arguments
	for _, spec := range c12ArgMethods[e.name] {
		var wantArgs []string
		for _, i := range spec.idx {
			sv, _ := args[i].(*object.String)
			if sv != nil {
				wantArgs = append(wantArgs, sv.Value())
			} else {
				wantArgs = append(wantArgs, "")
			}
		}
		verifrt.Assert(rec.gotPaths(spec.method, wantArgs), e.name+":host-os-"+spec.method+"-receives-the-script-arguments")
	}
}

// HarnessC12FileObjectsUseHostFiles: file objects handed out by open() read
// and write through the host's File.
func HarnessC12FileObjectsUseHostFiles() {
	rec := newRecOS()
	machine, err := NewEmpty()
	verifrt.Assume(err == nil)
	WithOS(rec)(machine)
	ctx := machine.initContext(context.Background())
	fobj := modos.Open(ctx, object.NewString("/f"))
	f, ok := fobj.(*object.File)
	verifrt.Assert(ok, "open-returns-file")
	if !ok {
		return
	}
	rd, found := f.GetAttr("read")
	verifrt.Assert(found, "file-has-read")
	if !found {
		return
	}
	res := rd.(*object.Builtin).Call(ctx)
	bs, isBS := res.(*object.ByteSlice)
	verifrt.Assert(isBS && string(bs.Value()) == "data", "read-returns-host-file-content")
	verifrt.Reach("done")
}
