//go:build verif

package vm

import (
	ros "github.com/risor-io/risor/os"
)

// recOS is a host-supplied OS that records which of its methods were used. It
// serves everything from an in-memory VirtualOS so that no call needs the real
// operating system.
type recOS struct {
	*ros.VirtualOS
	calls []string
	args  []string // "Method:arg|arg" for the string parameters of each call
}

func (o *recOS) got(entry string) bool {
	for _, c := range o.args {
		if c == entry {
			return true
		}
	}
	return false
}

func (o *recOS) used(name string) bool {
	for _, c := range o.calls {
		if c == name {
			return true
		}
	}
	return false
}

func (o *recOS) Args() []string {
	o.calls = append(o.calls, "Args")
	o.args = append(o.args, "Args:")
	return o.VirtualOS.Args()
}

func (o *recOS) Chdir(dir string) error {
	o.calls = append(o.calls, "Chdir")
	o.args = append(o.args, "Chdir:"+dir)
	return o.VirtualOS.Chdir(dir)
}

func (o *recOS) Create(name string) (ros.File, error) {
	o.calls = append(o.calls, "Create")
	o.args = append(o.args, "Create:"+name)
	return o.VirtualOS.Create(name)
}

func (o *recOS) Environ() []string {
	o.calls = append(o.calls, "Environ")
	o.args = append(o.args, "Environ:")
	return o.VirtualOS.Environ()
}

func (o *recOS) Exit(code int) {
	o.calls = append(o.calls, "Exit")
	o.args = append(o.args, "Exit:")
	o.VirtualOS.Exit(code)
}

func (o *recOS) Getenv(key string) string {
	o.calls = append(o.calls, "Getenv")
	o.args = append(o.args, "Getenv:"+key)
	return o.VirtualOS.Getenv(key)
}

func (o *recOS) Getpid() int {
	o.calls = append(o.calls, "Getpid")
	o.args = append(o.args, "Getpid:")
	return o.VirtualOS.Getpid()
}

func (o *recOS) Getuid() int {
	o.calls = append(o.calls, "Getuid")
	o.args = append(o.args, "Getuid:")
	return o.VirtualOS.Getuid()
}

func (o *recOS) Getwd() (string, error) {
	o.calls = append(o.calls, "Getwd")
	o.args = append(o.args, "Getwd:")
	return o.VirtualOS.Getwd()
}

func (o *recOS) Hostname() (string, error) {
	o.calls = append(o.calls, "Hostname")
	o.args = append(o.args, "Hostname:")
	return o.VirtualOS.Hostname()
}

func (o *recOS) LookupEnv(key string) (string, bool) {
	o.calls = append(o.calls, "LookupEnv")
	o.args = append(o.args, "LookupEnv:"+key)
	return o.VirtualOS.LookupEnv(key)
}

func (o *recOS) Mkdir(name string, perm ros.FileMode) error {
	o.calls = append(o.calls, "Mkdir")
	o.args = append(o.args, "Mkdir:"+name)
	return o.VirtualOS.Mkdir(name, perm)
}

func (o *recOS) MkdirAll(path string, perm ros.FileMode) error {
	o.calls = append(o.calls, "MkdirAll")
	o.args = append(o.args, "MkdirAll:"+path)
	return o.VirtualOS.MkdirAll(path, perm)
}

func (o *recOS) MkdirTemp(dir, pattern string) (string, error) {
	o.calls = append(o.calls, "MkdirTemp")
	o.args = append(o.args, "MkdirTemp:"+dir+"|"+pattern)
	return o.VirtualOS.MkdirTemp(dir, pattern)
}

func (o *recOS) Open(name string) (ros.File, error) {
	o.calls = append(o.calls, "Open")
	o.args = append(o.args, "Open:"+name)
	return o.VirtualOS.Open(name)
}

func (o *recOS) OpenFile(name string, flag int, perm ros.FileMode) (ros.File, error) {
	o.calls = append(o.calls, "OpenFile")
	o.args = append(o.args, "OpenFile:"+name)
	return o.VirtualOS.OpenFile(name, flag, perm)
}

func (o *recOS) ReadFile(name string) ([]byte, error) {
	o.calls = append(o.calls, "ReadFile")
	o.args = append(o.args, "ReadFile:"+name)
	return o.VirtualOS.ReadFile(name)
}

func (o *recOS) Remove(name string) error {
	o.calls = append(o.calls, "Remove")
	o.args = append(o.args, "Remove:"+name)
	return o.VirtualOS.Remove(name)
}

func (o *recOS) RemoveAll(path string) error {
	o.calls = append(o.calls, "RemoveAll")
	o.args = append(o.args, "RemoveAll:"+path)
	return o.VirtualOS.RemoveAll(path)
}

func (o *recOS) Rename(oldpath, newpath string) error {
	o.calls = append(o.calls, "Rename")
	o.args = append(o.args, "Rename:"+oldpath+"|"+newpath)
	return o.VirtualOS.Rename(oldpath, newpath)
}

func (o *recOS) Setenv(key, value string) error {
	o.calls = append(o.calls, "Setenv")
	o.args = append(o.args, "Setenv:"+key+"|"+value)
	return o.VirtualOS.Setenv(key, value)
}

func (o *recOS) Stat(name string) (ros.FileInfo, error) {
	o.calls = append(o.calls, "Stat")
	o.args = append(o.args, "Stat:"+name)
	return o.VirtualOS.Stat(name)
}

func (o *recOS) Symlink(oldname, newname string) error {
	o.calls = append(o.calls, "Symlink")
	o.args = append(o.args, "Symlink:"+oldname+"|"+newname)
	return o.VirtualOS.Symlink(oldname, newname)
}

func (o *recOS) TempDir() string {
	o.calls = append(o.calls, "TempDir")
	o.args = append(o.args, "TempDir:")
	return o.VirtualOS.TempDir()
}

func (o *recOS) Unsetenv(key string) error {
	o.calls = append(o.calls, "Unsetenv")
	o.args = append(o.args, "Unsetenv:"+key)
	return o.VirtualOS.Unsetenv(key)
}

func (o *recOS) UserCacheDir() (string, error) {
	o.calls = append(o.calls, "UserCacheDir")
	o.args = append(o.args, "UserCacheDir:")
	return o.VirtualOS.UserCacheDir()
}

func (o *recOS) UserConfigDir() (string, error) {
	o.calls = append(o.calls, "UserConfigDir")
	o.args = append(o.args, "UserConfigDir:")
	return o.VirtualOS.UserConfigDir()
}

func (o *recOS) UserHomeDir() (string, error) {
	o.calls = append(o.calls, "UserHomeDir")
	o.args = append(o.args, "UserHomeDir:")
	return o.VirtualOS.UserHomeDir()
}

func (o *recOS) WriteFile(name string, data []byte, perm ros.FileMode) error {
	o.calls = append(o.calls, "WriteFile")
	o.args = append(o.args, "WriteFile:"+name)
	return o.VirtualOS.WriteFile(name, data, perm)
}

func (o *recOS) ReadDir(name string) ([]ros.DirEntry, error) {
	o.calls = append(o.calls, "ReadDir")
	o.args = append(o.args, "ReadDir:"+name)
	return o.VirtualOS.ReadDir(name)
}

func (o *recOS) WalkDir(root string, fn ros.WalkDirFunc) error {
	o.calls = append(o.calls, "WalkDir")
	o.args = append(o.args, "WalkDir:"+root)
	return o.VirtualOS.WalkDir(root, fn)
}

func (o *recOS) Stdin() ros.File {
	o.calls = append(o.calls, "Stdin")
	o.args = append(o.args, "Stdin:")
	return o.VirtualOS.Stdin()
}

func (o *recOS) Stdout() ros.File {
	o.calls = append(o.calls, "Stdout")
	o.args = append(o.args, "Stdout:")
	return o.VirtualOS.Stdout()
}

func (o *recOS) Stderr() ros.File {
	o.calls = append(o.calls, "Stderr")
	o.args = append(o.args, "Stderr:")
	return o.VirtualOS.Stderr()
}

func (o *recOS) CurrentUser() (ros.User, error) {
	o.calls = append(o.calls, "CurrentUser")
	o.args = append(o.args, "CurrentUser:")
	return o.VirtualOS.CurrentUser()
}

func (o *recOS) LookupUser(name string) (ros.User, error) {
	o.calls = append(o.calls, "LookupUser")
	o.args = append(o.args, "LookupUser:"+name)
	return o.VirtualOS.LookupUser(name)
}

func (o *recOS) LookupUid(uid string) (ros.User, error) {
	o.calls = append(o.calls, "LookupUid")
	o.args = append(o.args, "LookupUid:"+uid)
	return o.VirtualOS.LookupUid(uid)
}

func (o *recOS) LookupGroup(name string) (ros.Group, error) {
	o.calls = append(o.calls, "LookupGroup")
	o.args = append(o.args, "LookupGroup:"+name)
	return o.VirtualOS.LookupGroup(name)
}

func (o *recOS) LookupGid(gid string) (ros.Group, error) {
	o.calls = append(o.calls, "LookupGid")
	o.args = append(o.args, "LookupGid:"+gid)
	return o.VirtualOS.LookupGid(gid)
}
