//go:build verif

package vm

import (
	"path/filepath"

	ros "github.com/risor-io/risor/os"
)

// recOS is a host-supplied OS that records which of its methods were used. It
// serves everything from an in-memory VirtualOS so that no call needs the real
// operating system.
type recOS struct {
	*ros.VirtualOS
	calls []string
	args  []string   // unused
	argv  [][]string // {method, string args...} of each call
}

func (o *recOS) got(entry string) bool {
	for _, c := range o.args {
		if c == entry {
			return true
		}
	}
	return false
}

// gotPaths: was method called with these path arguments, up to lexical
// normalisation (a builtin may clean a path before handing it to the OS)?
func (o *recOS) gotPaths(method string, paths []string) bool {
	for _, c := range o.argv {
		if c[0] != method || len(c)-1 != len(paths) {
			continue
		}
		same := true
		for i, want := range paths {
			got := c[i+1]
			if got != want && (want == "" || filepath.Clean(got) != filepath.Clean(want)) {
				same = false
			}
		}
		if same {
			return true
		}
	}
	return false
}

func (o *recOS) used(name string) bool {
	for _, c := range o.calls {
		if c == name {
			return true
		}
	}
	return false
}

func (o *recOS) Args() []string {
	o.calls = append(o.calls, "Args")
	o.argv = append(o.argv, []string{"Args"})
	return o.VirtualOS.Args()
}

func (o *recOS) Chdir(dir string) error {
	o.calls = append(o.calls, "Chdir")
	o.argv = append(o.argv, []string{"Chdir", dir})
	return o.VirtualOS.Chdir(dir)
}

func (o *recOS) Create(name string) (ros.File, error) {
	o.calls = append(o.calls, "Create")
	o.argv = append(o.argv, []string{"Create", name})
	return o.VirtualOS.Create(name)
}

func (o *recOS) Environ() []string {
	o.calls = append(o.calls, "Environ")
	o.argv = append(o.argv, []string{"Environ"})
	return o.VirtualOS.Environ()
}

func (o *recOS) Exit(code int) {
	o.calls = append(o.calls, "Exit")
	o.argv = append(o.argv, []string{"Exit"})
	o.VirtualOS.Exit(code)
}

func (o *recOS) Getenv(key string) string {
	o.calls = append(o.calls, "Getenv")
	o.argv = append(o.argv, []string{"Getenv", key})
	return o.VirtualOS.Getenv(key)
}

func (o *recOS) Getpid() int {
	o.calls = append(o.calls, "Getpid")
	o.argv = append(o.argv, []string{"Getpid"})
	return o.VirtualOS.Getpid()
}

func (o *recOS) Getuid() int {
	o.calls = append(o.calls, "Getuid")
	o.argv = append(o.argv, []string{"Getuid"})
	return o.VirtualOS.Getuid()
}

func (o *recOS) Getwd() (string, error) {
	o.calls = append(o.calls, "Getwd")
	o.argv = append(o.argv, []string{"Getwd"})
	return o.VirtualOS.Getwd()
}

func (o *recOS) Hostname() (string, error) {
	o.calls = append(o.calls, "Hostname")
	o.argv = append(o.argv, []string{"Hostname"})
	return o.VirtualOS.Hostname()
}

func (o *recOS) LookupEnv(key string) (string, bool) {
	o.calls = append(o.calls, "LookupEnv")
	o.argv = append(o.argv, []string{"LookupEnv", key})
	return o.VirtualOS.LookupEnv(key)
}

func (o *recOS) Mkdir(name string, perm ros.FileMode) error {
	o.calls = append(o.calls, "Mkdir")
	o.argv = append(o.argv, []string{"Mkdir", name})
	return o.VirtualOS.Mkdir(name, perm)
}

func (o *recOS) MkdirAll(path string, perm ros.FileMode) error {
	o.calls = append(o.calls, "MkdirAll")
	o.argv = append(o.argv, []string{"MkdirAll", path})
	return o.VirtualOS.MkdirAll(path, perm)
}

func (o *recOS) MkdirTemp(dir, pattern string) (string, error) {
	o.calls = append(o.calls, "MkdirTemp")
	o.argv = append(o.argv, []string{"MkdirTemp", dir, pattern})
	return o.VirtualOS.MkdirTemp(dir, pattern)
}

func (o *recOS) Open(name string) (ros.File, error) {
	o.calls = append(o.calls, "Open")
	o.argv = append(o.argv, []string{"Open", name})
	return o.VirtualOS.Open(name)
}

func (o *recOS) OpenFile(name string, flag int, perm ros.FileMode) (ros.File, error) {
	o.calls = append(o.calls, "OpenFile")
	o.argv = append(o.argv, []string{"OpenFile", name})
	return o.VirtualOS.OpenFile(name, flag, perm)
}

func (o *recOS) ReadFile(name string) ([]byte, error) {
	o.calls = append(o.calls, "ReadFile")
	o.argv = append(o.argv, []string{"ReadFile", name})
	return o.VirtualOS.ReadFile(name)
}

func (o *recOS) Remove(name string) error {
	o.calls = append(o.calls, "Remove")
	o.argv = append(o.argv, []string{"Remove", name})
	return o.VirtualOS.Remove(name)
}

func (o *recOS) RemoveAll(path string) error {
	o.calls = append(o.calls, "RemoveAll")
	o.argv = append(o.argv, []string{"RemoveAll", path})
	return o.VirtualOS.RemoveAll(path)
}

func (o *recOS) Rename(oldpath, newpath string) error {
	o.calls = append(o.calls, "Rename")
	o.argv = append(o.argv, []string{"Rename", oldpath, newpath})
	return o.VirtualOS.Rename(oldpath, newpath)
}

func (o *recOS) Setenv(key, value string) error {
	o.calls = append(o.calls, "Setenv")
	o.argv = append(o.argv, []string{"Setenv", key, value})
	return o.VirtualOS.Setenv(key, value)
}

func (o *recOS) Stat(name string) (ros.FileInfo, error) {
	o.calls = append(o.calls, "Stat")
	o.argv = append(o.argv, []string{"Stat", name})
	return o.VirtualOS.Stat(name)
}

func (o *recOS) Symlink(oldname, newname string) error {
	o.calls = append(o.calls, "Symlink")
	o.argv = append(o.argv, []string{"Symlink", oldname, newname})
	return o.VirtualOS.Symlink(oldname, newname)
}

func (o *recOS) TempDir() string {
	o.calls = append(o.calls, "TempDir")
	o.argv = append(o.argv, []string{"TempDir"})
	return o.VirtualOS.TempDir()
}

func (o *recOS) Unsetenv(key string) error {
	o.calls = append(o.calls, "Unsetenv")
	o.argv = append(o.argv, []string{"Unsetenv", key})
	return o.VirtualOS.Unsetenv(key)
}

func (o *recOS) UserCacheDir() (string, error) {
	o.calls = append(o.calls, "UserCacheDir")
	o.argv = append(o.argv, []string{"UserCacheDir"})
	return o.VirtualOS.UserCacheDir()
}

func (o *recOS) UserConfigDir() (string, error) {
	o.calls = append(o.calls, "UserConfigDir")
	o.argv = append(o.argv, []string{"UserConfigDir"})
	return o.VirtualOS.UserConfigDir()
}

func (o *recOS) UserHomeDir() (string, error) {
	o.calls = append(o.calls, "UserHomeDir")
	o.argv = append(o.argv, []string{"UserHomeDir"})
	return o.VirtualOS.UserHomeDir()
}

func (o *recOS) WriteFile(name string, data []byte, perm ros.FileMode) error {
	o.calls = append(o.calls, "WriteFile")
	o.argv = append(o.argv, []string{"WriteFile", name})
	return o.VirtualOS.WriteFile(name, data, perm)
}

func (o *recOS) ReadDir(name string) ([]ros.DirEntry, error) {
	o.calls = append(o.calls, "ReadDir")
	o.argv = append(o.argv, []string{"ReadDir", name})
	return o.VirtualOS.ReadDir(name)
}

func (o *recOS) WalkDir(root string, fn ros.WalkDirFunc) error {
	o.calls = append(o.calls, "WalkDir")
	o.argv = append(o.argv, []string{"WalkDir", root})
	return o.VirtualOS.WalkDir(root, fn)
}

func (o *recOS) Stdin() ros.File {
	o.calls = append(o.calls, "Stdin")
	o.argv = append(o.argv, []string{"Stdin"})
	return o.VirtualOS.Stdin()
}

func (o *recOS) Stdout() ros.File {
	o.calls = append(o.calls, "Stdout")
	o.argv = append(o.argv, []string{"Stdout"})
	return o.VirtualOS.Stdout()
}

func (o *recOS) Stderr() ros.File {
	o.calls = append(o.calls, "Stderr")
	o.argv = append(o.argv, []string{"Stderr"})
	return o.VirtualOS.Stderr()
}

func (o *recOS) CurrentUser() (ros.User, error) {
	o.calls = append(o.calls, "CurrentUser")
	o.argv = append(o.argv, []string{"CurrentUser"})
	return o.VirtualOS.CurrentUser()
}

func (o *recOS) LookupUser(name string) (ros.User, error) {
	o.calls = append(o.calls, "LookupUser")
	o.argv = append(o.argv, []string{"LookupUser", name})
	return o.VirtualOS.LookupUser(name)
}

func (o *recOS) LookupUid(uid string) (ros.User, error) {
	o.calls = append(o.calls, "LookupUid")
	o.argv = append(o.argv, []string{"LookupUid", uid})
	return o.VirtualOS.LookupUid(uid)
}

func (o *recOS) LookupGroup(name string) (ros.Group, error) {
	o.calls = append(o.calls, "LookupGroup")
	o.argv = append(o.argv, []string{"LookupGroup", name})
	return o.VirtualOS.LookupGroup(name)
}

func (o *recOS) LookupGid(gid string) (ros.Group, error) {
	o.calls = append(o.calls, "LookupGid")
	o.argv = append(o.argv, []string{"LookupGid", gid})
	return o.VirtualOS.LookupGid(gid)
}
