//go:build verif

package vm

import (
	ros "github.com/risor-io/risor/os"
)

// recOS is a host-supplied OS that records which of its methods were used. It
// serves everything from an in-memory VirtualOS so that no call needs the real
// operating system.
type recOS struct {
	*ros.VirtualOS
	calls []string
}

func (o *recOS) used(name string) bool {
	for _, c := range o.calls {
		if c == name {
			return true
		}
	}
	return false
}

func (o *recOS) Args() []string {
	o.calls = append(o.calls, "Args")
	return o.VirtualOS.Args()
}

func (o *recOS) Chdir(dir string) error {
	o.calls = append(o.calls, "Chdir")
	return o.VirtualOS.Chdir(dir)
}

func (o *recOS) Create(name string) (ros.File, error) {
	o.calls = append(o.calls, "Create")
	return o.VirtualOS.Create(name)
}

func (o *recOS) Environ() []string {
	o.calls = append(o.calls, "Environ")
	return o.VirtualOS.Environ()
}

func (o *recOS) Exit(code int) {
	o.calls = append(o.calls, "Exit")
	o.VirtualOS.Exit(code)
}

func (o *recOS) Getenv(key string) string {
	o.calls = append(o.calls, "Getenv")
	return o.VirtualOS.Getenv(key)
}

func (o *recOS) Getpid() int {
	o.calls = append(o.calls, "Getpid")
	return o.VirtualOS.Getpid()
}

func (o *recOS) Getuid() int {
	o.calls = append(o.calls, "Getuid")
	return o.VirtualOS.Getuid()
}

func (o *recOS) Getwd() (string, error) {
	o.calls = append(o.calls, "Getwd")
	return o.VirtualOS.Getwd()
}

func (o *recOS) Hostname() (string, error) {
	o.calls = append(o.calls, "Hostname")
	return o.VirtualOS.Hostname()
}

func (o *recOS) LookupEnv(key string) (string, bool) {
	o.calls = append(o.calls, "LookupEnv")
	return o.VirtualOS.LookupEnv(key)
}

func (o *recOS) Mkdir(name string, perm ros.FileMode) error {
	o.calls = append(o.calls, "Mkdir")
	return o.VirtualOS.Mkdir(name, perm)
}

func (o *recOS) MkdirAll(path string, perm ros.FileMode) error {
	o.calls = append(o.calls, "MkdirAll")
	return o.VirtualOS.MkdirAll(path, perm)
}

func (o *recOS) MkdirTemp(dir, pattern string) (string, error) {
	o.calls = append(o.calls, "MkdirTemp")
	return o.VirtualOS.MkdirTemp(dir, pattern)
}

func (o *recOS) Open(name string) (ros.File, error) {
	o.calls = append(o.calls, "Open")
	return o.VirtualOS.Open(name)
}

func (o *recOS) OpenFile(name string, flag int, perm ros.FileMode) (ros.File, error) {
	o.calls = append(o.calls, "OpenFile")
	return o.VirtualOS.OpenFile(name, flag, perm)
}

func (o *recOS) ReadFile(name string) ([]byte, error) {
	o.calls = append(o.calls, "ReadFile")
	return o.VirtualOS.ReadFile(name)
}

func (o *recOS) Remove(name string) error {
	o.calls = append(o.calls, "Remove")
	return o.VirtualOS.Remove(name)
}

func (o *recOS) RemoveAll(path string) error {
	o.calls = append(o.calls, "RemoveAll")
	return o.VirtualOS.RemoveAll(path)
}

func (o *recOS) Rename(oldpath, newpath string) error {
	o.calls = append(o.calls, "Rename")
	return o.VirtualOS.Rename(oldpath, newpath)
}

func (o *recOS) Setenv(key, value string) error {
	o.calls = append(o.calls, "Setenv")
	return o.VirtualOS.Setenv(key, value)
}

func (o *recOS) Stat(name string) (ros.FileInfo, error) {
	o.calls = append(o.calls, "Stat")
	return o.VirtualOS.Stat(name)
}

func (o *recOS) Symlink(oldname, newname string) error {
	o.calls = append(o.calls, "Symlink")
	return o.VirtualOS.Symlink(oldname, newname)
}

func (o *recOS) TempDir() string {
	o.calls = append(o.calls, "TempDir")
	return o.VirtualOS.TempDir()
}

func (o *recOS) Unsetenv(key string) error {
	o.calls = append(o.calls, "Unsetenv")
	return o.VirtualOS.Unsetenv(key)
}

func (o *recOS) UserCacheDir() (string, error) {
	o.calls = append(o.calls, "UserCacheDir")
	return o.VirtualOS.UserCacheDir()
}

func (o *recOS) UserConfigDir() (string, error) {
	o.calls = append(o.calls, "UserConfigDir")
	return o.VirtualOS.UserConfigDir()
}

func (o *recOS) UserHomeDir() (string, error) {
	o.calls = append(o.calls, "UserHomeDir")
	return o.VirtualOS.UserHomeDir()
}

func (o *recOS) WriteFile(name string, data []byte, perm ros.FileMode) error {
	o.calls = append(o.calls, "WriteFile")
	return o.VirtualOS.WriteFile(name, data, perm)
}

func (o *recOS) ReadDir(name string) ([]ros.DirEntry, error) {
	o.calls = append(o.calls, "ReadDir")
	return o.VirtualOS.ReadDir(name)
}

func (o *recOS) WalkDir(root string, fn ros.WalkDirFunc) error {
	o.calls = append(o.calls, "WalkDir")
	return o.VirtualOS.WalkDir(root, fn)
}

func (o *recOS) Stdin() ros.File {
	o.calls = append(o.calls, "Stdin")
	return o.VirtualOS.Stdin()
}

func (o *recOS) Stdout() ros.File {
	o.calls = append(o.calls, "Stdout")
	return o.VirtualOS.Stdout()
}

func (o *recOS) Stderr() ros.File {
	o.calls = append(o.calls, "Stderr")
	return o.VirtualOS.Stderr()
}

func (o *recOS) CurrentUser() (ros.User, error) {
	o.calls = append(o.calls, "CurrentUser")
	return o.VirtualOS.CurrentUser()
}

func (o *recOS) LookupUser(name string) (ros.User, error) {
	o.calls = append(o.calls, "LookupUser")
	return o.VirtualOS.LookupUser(name)
}

func (o *recOS) LookupUid(uid string) (ros.User, error) {
	o.calls = append(o.calls, "LookupUid")
	return o.VirtualOS.LookupUid(uid)
}

func (o *recOS) LookupGroup(name string) (ros.Group, error) {
	o.calls = append(o.calls, "LookupGroup")
	return o.VirtualOS.LookupGroup(name)
}

func (o *recOS) LookupGid(gid string) (ros.Group, error) {
	o.calls = append(o.calls, "LookupGid")
	return o.VirtualOS.LookupGid(gid)
}

