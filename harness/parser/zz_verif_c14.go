//go:build verif

package parser

import (
	"io/fs"
	"path/filepath"
	"strings"

	"github.com/risor-io/risor/internal/verifrt"
)

// HarnessC14ImportPathStaysInRoot: no text accepted by validateImportPath names
// a file outside the import root, for both importers' ways of building the
// file name (filepath.Join(dir, name+ext) and an fs.FS path).
func HarnessC14ImportPathStaysInRoot() {
	maxN := 6
	if verifrt.Thorough() {
		maxN = 8
	}
	n := verifrt.Choose(maxN + 1)
	s := verifrt.String(n)
	if err := validateImportPath(s); err != nil {
		verifrt.Reach("rejected")
		return
	}
	verifrt.Reach("accepted")
	verifrt.Assert(n > 0, "empty-path-rejected")
	ext := []string{".risor", ".rsr"}[verifrt.Choose(2)]
	name := s + ext
	switch verifrt.Choose(3) {
	case 0:
		full := filepath.Join("/r", name)
		verifrt.Assert(strings.HasPrefix(full, "/r/"), "inside-absolute-root")
	case 1:
		full := filepath.Join("r", name)
		verifrt.Assert(strings.HasPrefix(full, "r/"), "inside-relative-root")
	case 2:
		full := filepath.Join(".", name)
		verifrt.Assert(!filepath.IsAbs(full) && full != ".." && !strings.HasPrefix(full, "../"), "inside-dot-root")
	}
	verifrt.Assert(fs.ValidPath(name), "valid-fs-path")
	verifrt.Assert(!strings.Contains(s, ".."), "no-dotdot")
	verifrt.Assert(!strings.HasPrefix(s, "/"), "not-absolute")
}
