//go:build verif

package parser

import (
	"context"
	"io/fs"
	"path/filepath"
	"strings"

	"github.com/risor-io/risor/ast"
	"github.com/risor-io/risor/internal/verifrt"
)

// HarnessC14ImportPathStaysInRoot: no text accepted by validateImportPath names
// a file outside the import root, for both importers' ways of building the
// file name (filepath.Join(dir, name+ext) and an fs.FS path).
func HarnessC14ImportPathStaysInRoot() {
	maxN := 6
	if verifrt.Thorough() {
		maxN = 8
	}
	n := verifrt.Choose(maxN + 1)
	s := verifrt.String(n)
	if err := validateImportPath(s); err != nil {
		verifrt.Reach("rejected")
		return
	}
	verifrt.Reach("accepted")
	verifrt.Assert(n > 0, "empty-path-rejected")
	ext := []string{".risor", ".rsr"}[verifrt.Choose(2)]
	name := s + ext
	switch verifrt.Choose(3) {
	case 0:
		full := filepath.Join("/r", name)
		verifrt.Assert(strings.HasPrefix(full, "/r/"), "inside-absolute-root")
	case 1:
		full := filepath.Join("r", name)
		verifrt.Assert(strings.HasPrefix(full, "r/"), "inside-relative-root")
	case 2:
		full := filepath.Join(".", name)
		verifrt.Assert(!filepath.IsAbs(full) && full != ".." && !strings.HasPrefix(full, "../"), "inside-dot-root")
	}
	verifrt.Assert(fs.ValidPath(name), "valid-fs-path")
	verifrt.Assert(!strings.Contains(s, ".."), "no-dotdot")
	verifrt.Assert(!strings.HasPrefix(s, "/"), "not-absolute")
}

// HarnessC14ParsedImportsStayInRoot: whatever text stands between the quotes
// of `import "…"`, `from "…" import x` or `from "…" import (x, y as z)`, a
// statement the parser accepts names a module file inside the import root.
func HarnessC14ParsedImportsStayInRoot() {
	maxN := 4
	if verifrt.Thorough() {
		maxN = 5 // 6 exceeds the path cap
	}
	n := verifrt.Choose(maxN + 1)
	s := verifrt.String(n)
	for i := 0; i < n; i++ {
		// keep the text inside one string literal
		verifrt.Assume(s[i] != '"' && s[i] != '\\' && s[i] != '\n' && s[i] != '\r')
	}
	form := verifrt.Choose(3)
	src := ""
	switch form {
	case 0:
		src = "import \"" + s + "\""
	case 1:
		src = "from \"" + s + "\" import x"
	case 2:
		src = "from \"" + s + "\" import (x, y as z)"
	}
	prog, err := Parse(context.Background(), src)
	if err != nil {
		verifrt.Reach("rejected")
		return
	}
	verifrt.Reach("accepted")
	stmts := prog.Statements()
	verifrt.Assert(len(stmts) == 1, "one-statement")
	if len(stmts) != 1 {
		return
	}
	name := ""
	switch st := stmts[0].(type) {
	case *ast.Import:
		name = st.Path().Value()
	case *ast.FromImport:
		for i, p := range st.Parents() {
			if i > 0 {
				name += "/"
			}
			name += p.Literal()
		}
	default:
		verifrt.Fail("import-statement-parsed-as-import")
		return
	}
	verifrt.Assert(verifrt.EqString(name, s), "module-path-is-the-quoted-text")
	full := filepath.Join("/r", name+".risor")
	verifrt.Assert(strings.HasPrefix(full, "/r/"), "inside-absolute-root")
	verifrt.Assert(fs.ValidPath(name+".risor"), "valid-fs-path")
	verifrt.Assert(!strings.Contains(name, ".."), "no-dotdot")
}
