//go:build verif

package strings

import (
	"context"
	gostrings "strings"

	"github.com/risor-io/risor/internal/verifrt"
	"github.com/risor-io/risor/object"
)

func c19Str(o object.Object) (string, bool) {
	s, ok := o.(*object.String)
	if !ok {
		return "", false
	}
	return s.Value(), true
}

func c19Int(o object.Object) (int64, bool) {
	i, ok := o.(*object.Int)
	if !ok {
		return 0, false
	}
	return i.Value(), true
}

func c19Bool(o object.Object) (bool, bool) {
	b, ok := o.(*object.Bool)
	if !ok {
		return false, false
	}
	return b.Value(), true
}

// HarnessC19StringsWrappers: each wrapper returns exactly what the Go function
// returns, for every argument (strings up to 2 / 1 bytes, all byte values).
func HarnessC19StringsWrappers() {
	ctx := context.Background()
	a := verifrt.String(verifrt.Choose(3))
	b := verifrt.String(verifrt.Choose(2))
	A, B := object.NewString(a), object.NewString(b)
	switch verifrt.Choose(12) {
	case 0:
		r, ok := c19Bool(Contains(ctx, A, B))
		verifrt.Assert(ok && r == gostrings.Contains(a, b), "contains")
	case 1:
		r, ok := c19Bool(HasPrefix(ctx, A, B))
		verifrt.Assert(ok && r == gostrings.HasPrefix(a, b), "has_prefix")
	case 2:
		r, ok := c19Bool(HasSuffix(ctx, A, B))
		verifrt.Assert(ok && r == gostrings.HasSuffix(a, b), "has_suffix")
	case 3:
		r, ok := c19Int(Count(ctx, A, B))
		verifrt.Assert(ok && r == int64(gostrings.Count(a, b)), "count")
	case 4:
		r, ok := c19Int(Compare(ctx, A, B))
		verifrt.Assert(ok && r == int64(gostrings.Compare(a, b)), "compare")
	case 5:
		r, ok := c19Int(Index(ctx, A, B))
		verifrt.Assert(ok && r == int64(gostrings.Index(a, b)), "index")
	case 6:
		r, ok := c19Int(LastIndex(ctx, A, B))
		verifrt.Assert(ok && r == int64(gostrings.LastIndex(a, b)), "last_index")
	case 7:
		r, ok := c19Str(TrimPrefix(ctx, A, B))
		verifrt.Assert(ok && r == gostrings.TrimPrefix(a, b), "trim_prefix")
	case 8:
		r, ok := c19Str(TrimSuffix(ctx, A, B))
		verifrt.Assert(ok && r == gostrings.TrimSuffix(a, b), "trim_suffix")
	case 9:
		c := verifrt.String(1)
		r, ok := c19Str(ReplaceAll(ctx, A, B, object.NewString(c)))
		verifrt.Assert(ok && r == gostrings.ReplaceAll(a, b, c), "replace_all")
	case 10:
		r, ok := c19Str(Trim(ctx, A, B))
		verifrt.Assert(ok && r == gostrings.Trim(a, b), "trim")
	case 11:
		// wrong arity and wrong types are errors, not panics
		verifrt.Assert(object.IsError(Contains(ctx, A)), "arity-error")
		verifrt.Assert(object.IsError(Index(ctx, A, object.NewInt(1))), "type-error")
	}
	verifrt.Reach("done")
}

// HarnessC19StringsRepeat: repeat agrees with Go where Go is defined and
// reports an error (never a Go panic) elsewhere.
func HarnessC19StringsRepeat() {
	ctx := context.Background()
	s := verifrt.String(verifrt.Choose(3))
	n := verifrt.Int64()
	verifrt.Assume(n <= 3) // larger counts only make longer strings
	res := Repeat(ctx, object.NewString(s), object.NewInt(n))
	if n >= 0 {
		verifrt.Reach("defined")
		r, ok := c19Str(res)
		verifrt.Assert(ok && r == gostrings.Repeat(s, int(n)), "repeat-agrees-with-go")
	} else {
		verifrt.Reach("undefined")
		verifrt.Assert(object.IsError(res), "negative-count-is-an-error")
	}
}
