//go:build verif

package strings

import (
	gobytes "bytes"
	"context"

	"github.com/risor-io/risor/internal/verifrt"
	"github.com/risor-io/risor/object"
)

func c19Call(fn func(context.Context, ...object.Object) object.Object, args ...object.Object) (res object.Object, panicked bool) {
	defer func() {
		if r := recover(); r != nil {
			panicked = true
		}
	}()
	return fn(context.Background(), args...), false
}

func c19Bool(o object.Object, want bool) bool {
	b, ok := o.(*object.Bool)
	return ok && b.Value() == want
}

func c19Int(o object.Object, want int) bool {
	i, ok := o.(*object.Int)
	return ok && i.Value() == int64(want)
}

func c19Bytes(o object.Object, want []byte) bool {
	b, ok := o.(*object.ByteSlice)
	return ok && gobytes.Equal(b.Value(), want)
}

// HarnessC19BytesWrappers: every function of the bytes module returns what the
// Go function of the same name returns (byte slices up to 3 / 2 bytes, all
// byte values), and reports bad arguments as errors, never a panic.
func HarnessC19BytesWrappers() {
	a := verifrt.Bytes(verifrt.Choose(4))
	b := verifrt.Bytes(verifrt.Choose(3))
	A, B := object.NewByteSlice(a), object.NewByteSlice(b)
	k := verifrt.Choose(15)
	var r object.Object
	var p bool
	name := ""
	switch k {
	case 0:
		name = "contains"
		r, p = c19Call(Contains, A, B)
		verifrt.Assert(p || c19Bool(r, gobytes.Contains(a, b)), "agrees-with-go:"+name)
	case 1:
		name = "count"
		r, p = c19Call(Count, A, B)
		verifrt.Assert(p || c19Int(r, gobytes.Count(a, b)), "agrees-with-go:"+name)
	case 2:
		name = "has_prefix"
		r, p = c19Call(HasPrefix, A, B)
		verifrt.Assert(p || c19Bool(r, gobytes.HasPrefix(a, b)), "agrees-with-go:"+name)
	case 3:
		name = "has_suffix"
		r, p = c19Call(HasSuffix, A, B)
		verifrt.Assert(p || c19Bool(r, gobytes.HasSuffix(a, b)), "agrees-with-go:"+name)
	case 4:
		name = "index"
		r, p = c19Call(Index, A, B)
		verifrt.Assert(p || c19Int(r, gobytes.Index(a, b)), "agrees-with-go:"+name)
	case 5:
		name = "equals"
		r, p = c19Call(Equals, A, B)
		verifrt.Assert(p || c19Bool(r, gobytes.Equal(a, b)), "agrees-with-go:"+name)
	case 6:
		name = "contains_any"
		chars := verifrt.String(verifrt.Choose(3))
		r, p = c19Call(ContainsAny, A, object.NewString(chars))
		verifrt.Assert(p || c19Bool(r, gobytes.ContainsAny(a, chars)), "agrees-with-go:"+name)
	case 7:
		name = "index_any"
		chars := verifrt.String(verifrt.Choose(3))
		r, p = c19Call(IndexAny, A, object.NewString(chars))
		verifrt.Assert(p || c19Int(r, gobytes.IndexAny(a, chars)), "agrees-with-go:"+name)
	case 8:
		name = "index_byte"
		c := verifrt.Uint8()
		r, p = c19Call(IndexByte, A, object.NewByteSlice([]byte{c}))
		verifrt.Assert(p || c19Int(r, gobytes.IndexByte(a, c)), "agrees-with-go:"+name)
	case 9:
		name = "clone"
		r, p = c19Call(Clone, A)
		verifrt.Assert(p || c19Bytes(r, a), "agrees-with-go:"+name)
		if cl, ok := r.(*object.ByteSlice); ok && len(a) > 0 {
			cl.Value()[0] ^= 0xff
			verifrt.Assert(A.Value()[0] == a[0], "clone-is-independent")
		}
	case 10:
		name = "repeat"
		n := verifrt.Int64()
		verifrt.Assume(n < 4)
		r, p = c19Call(Repeat, A, object.NewInt(n))
		if !p && n >= 0 {
			verifrt.Assert(c19Bytes(r, gobytes.Repeat(a, int(n))), "agrees-with-go:"+name)
		}
		if !p && n < 0 {
			_, isErr := r.(*object.Error)
			verifrt.Assert(isErr, "negative-repeat-count-is-an-error")
		}
	case 11:
		name = "replace_all"
		c := verifrt.Bytes(verifrt.Choose(2))
		r, p = c19Call(ReplaceAll, A, B, object.NewByteSlice(c))
		verifrt.Assert(p || c19Bytes(r, gobytes.ReplaceAll(a, b, c)), "agrees-with-go:"+name)
	case 12:
		name = "replace"
		c := verifrt.Bytes(verifrt.Choose(2))
		n := int64(verifrt.Choose(4)) - 1
		r, p = c19Call(Replace, A, B, object.NewByteSlice(c), object.NewInt(n))
		verifrt.Assert(p || c19Bytes(r, gobytes.Replace(a, b, c, int(n))), "agrees-with-go:"+name)
	case 13:
		name = "contains_rune"
		c := verifrt.Uint8()
		r, p = c19Call(ContainsRune, A, object.NewString(string([]byte{c})))
		if !p && c < 0x80 {
			verifrt.Assert(c19Bool(r, gobytes.ContainsRune(a, rune(c))), "agrees-with-go:"+name)
		}
	case 14:
		name = "index_rune"
		c := verifrt.Uint8()
		r, p = c19Call(IndexRune, A, object.NewString(string([]byte{c})))
		if !p && c < 0x80 {
			verifrt.Assert(c19Int(r, gobytes.IndexRune(a, rune(c))), "agrees-with-go:"+name)
		}
	}
	verifrt.Assert(!p, "wrapper-never-panics:"+name)
	// wrong arity / wrong types are errors
	r2, p2 := c19Call(Contains, A)
	_, isErr := r2.(*object.Error)
	verifrt.Assert(!p2 && isErr, "wrong-arity-is-an-error")
	r3, p3 := c19Call(Index, object.NewInt(1), B)
	_, isErr3 := r3.(*object.Error)
	verifrt.Assert(!p3 && isErr3, "wrong-type-is-an-error")
	verifrt.Reach("done")
}
