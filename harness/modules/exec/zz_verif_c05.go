//go:build verif

package exec

import (
	osexec "os/exec"

	"github.com/risor-io/risor/internal/verifrt"
	"github.com/risor-io/risor/object"
)

// HarnessC05ExecOptionsUnderEveryMapOrder: what exec() makes of its options map
// (the rejected key it names, the environment it hands to the process) is the
// same under every Go-map iteration order.
func HarnessC05ExecOptionsUnderEveryMapOrder() {
	which := verifrt.Choose(2)
	params := object.NewMap(map[string]object.Object{})
	switch which {
	case 0:
		// several keys that are not options
		for i := 0; i < 3; i++ {
			k := verifrt.String(1)
			verifrt.Assume(len(k) == 1 && k[0] >= 'A' && k[0] <= 'Z')
			params.Set(k, object.NewInt(int64(i)))
		}
	case 1:
		env := object.NewMap(map[string]object.Object{})
		for i := 0; i < 3; i++ {
			k := verifrt.String(1)
			verifrt.Assume(len(k) == 1 && k[0] >= 'A' && k[0] <= 'Z')
			env.Set(k, object.NewString("v"))
		}
		params.Set("env", env)
	}
	do := func() string {
		cmd := &osexec.Cmd{}
		if err := configureCommand(cmd, params); err != nil {
			return "error:" + err.Error()
		}
		s := ""
		for _, e := range cmd.Env {
			s += e + ";"
		}
		return s
	}
	first := do()
	verifrt.MapOrderAll(true)
	second := do()
	verifrt.MapOrderAll(false)
	verifrt.Reach("compared")
	verifrt.Assert(verifrt.EqString(first, second), "exec-options-independent-of-map-iteration-order")
}
