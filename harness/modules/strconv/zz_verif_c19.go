//go:build verif

package strconv

import (
	"context"
	gostrconv "strconv"

	"github.com/risor-io/risor/internal/verifrt"
	"github.com/risor-io/risor/object"
)

// HarnessC19StrconvWrappers: atoi / parse_int / parse_bool agree with Go for
// every digit string up to 3 bytes plus a family of long numerals around the
// int32 and int64 boundaries with one symbolic digit.
func HarnessC19StrconvWrappers() {
	ctx := context.Background()
	var s string
	switch verifrt.Choose(3) {
	case 0:
		s = verifrt.String(verifrt.Choose(4))
	case 1:
		// around 2^31 and 2^63 with a symbolic last digit and optional sign
		bases := []string{"214748364", "429496729", "922337203685477580", "1844674407370955161", "99999999999999999999"}
		b := bases[verifrt.Choose(len(bases))]
		d := verifrt.Uint8()
		verifrt.Assume(verifrt.And(d >= '0', d <= '9'))
		s = b + string([]byte{d})
		if verifrt.Bool() {
			s = "-" + s
		}
	case 2:
		s = []string{"0x1f", "017", "1_000", "+5", " 5", "5 ", "", "-", "0b11"}[verifrt.Choose(9)]
	}
	S := object.NewString(s)
	switch verifrt.Choose(4) {
	case 0:
		want, werr := gostrconv.ParseInt(s, 10, 64)
		got := ParseInt(ctx, S)
		if werr != nil {
			verifrt.Assert(object.IsError(got), "parse_int-reports-go-errors")
		} else {
			iv, ok := got.(*object.Int)
			verifrt.Assert(ok && iv.Value() == want, "parse_int-agrees-with-go")
		}
	case 1:
		want, werr := gostrconv.Atoi(s)
		got := Atoi(ctx, S)
		if werr != nil {
			verifrt.Assert(object.IsError(got), "atoi-reports-go-errors")
		} else {
			iv, ok := got.(*object.Int)
			verifrt.Assert(ok && iv.Value() == int64(want), "atoi-agrees-with-go")
		}
	case 2:
		want, werr := gostrconv.ParseInt(s, 16, 32)
		got := ParseInt(ctx, S, object.NewInt(16), object.NewInt(32))
		if werr != nil {
			verifrt.Assert(object.IsError(got), "parse_int-base16-reports-go-errors")
		} else {
			iv, ok := got.(*object.Int)
			verifrt.Assert(ok && iv.Value() == want, "parse_int-base16-agrees-with-go")
		}
	case 3:
		want, werr := gostrconv.ParseBool(s)
		got := ParseBool(ctx, S)
		if werr != nil {
			verifrt.Assert(object.IsError(got), "parse_bool-reports-go-errors")
		} else {
			bv, ok := got.(*object.Bool)
			verifrt.Assert(ok && bv.Value() == want, "parse_bool-agrees-with-go")
		}
	}
	verifrt.Reach("done")
}
