//go:build verif

package filepath

import (
	"context"
	gofilepath "path/filepath"

	"github.com/risor-io/risor/internal/verifrt"
	"github.com/risor-io/risor/object"
)

func c19Call(fn func(context.Context, ...object.Object) object.Object, args ...object.Object) (res object.Object, panicked bool) {
	defer func() {
		if r := recover(); r != nil {
			panicked = true
		}
	}()
	return fn(context.Background(), args...), false
}

func c19Str(o object.Object, want string) bool {
	s, ok := o.(*object.String)
	return ok && s.Value() == want
}

// HarnessC19FilepathWrappers: the pure functions of the filepath module agree
// with path/filepath for every path string up to 4 bytes (all byte values).
func HarnessC19FilepathWrappers() {
	maxN := 3
	if verifrt.Thorough() {
		maxN = 4
	}
	a := verifrt.String(verifrt.Choose(maxN + 1))
	A := object.NewString(a)
	var r object.Object
	var p bool
	name := ""
	switch verifrt.Choose(9) {
	case 0:
		name = "base"
		r, p = c19Call(Base, A)
		verifrt.Assert(p || c19Str(r, gofilepath.Base(a)), "agrees-with-go:"+name)
	case 1:
		name = "clean"
		r, p = c19Call(Clean, A)
		verifrt.Assert(p || c19Str(r, gofilepath.Clean(a)), "agrees-with-go:"+name)
	case 2:
		name = "dir"
		r, p = c19Call(Dir, A)
		verifrt.Assert(p || c19Str(r, gofilepath.Dir(a)), "agrees-with-go:"+name)
	case 3:
		name = "ext"
		r, p = c19Call(Ext, A)
		verifrt.Assert(p || c19Str(r, gofilepath.Ext(a)), "agrees-with-go:"+name)
	case 4:
		name = "is_abs"
		r, p = c19Call(IsAbs, A)
		b, ok := r.(*object.Bool)
		verifrt.Assert(p || (ok && b.Value() == gofilepath.IsAbs(a)), "agrees-with-go:"+name)
	case 5:
		name = "join"
		b := verifrt.String(verifrt.Choose(3))
		r, p = c19Call(Join, A, object.NewString(b), object.NewString("z"))
		verifrt.Assert(p || c19Str(r, gofilepath.Join(a, b, "z")), "agrees-with-go:"+name)
	case 6:
		name = "split"
		r, p = c19Call(Split, A)
		d, f := gofilepath.Split(a)
		l, ok := r.(*object.List)
		verifrt.Assert(p || (ok && len(l.Value()) == 2 && c19Str(l.Value()[0], d) && c19Str(l.Value()[1], f)), "agrees-with-go:"+name)
	case 7:
		name = "rel"
		b := verifrt.String(verifrt.Choose(3))
		r, p = c19Call(Rel, object.NewString(b), A)
		want, err := gofilepath.Rel(b, a)
		if !p {
			if err != nil {
				_, isErr := r.(*object.Error)
				verifrt.Assert(isErr, "go-error-is-a-script-error:"+name)
			} else {
				verifrt.Assert(c19Str(r, want), "agrees-with-go:"+name)
			}
		}
	case 8:
		name = "match"
		pat := verifrt.String(verifrt.Choose(3))
		r, p = c19Call(Match, object.NewString(pat), A)
		want, err := gofilepath.Match(pat, a)
		if !p {
			if err != nil {
				_, isErr := r.(*object.Error)
				verifrt.Assert(isErr, "go-error-is-a-script-error:"+name)
			} else {
				b, ok := r.(*object.Bool)
				verifrt.Assert(ok && b.Value() == want, "agrees-with-go:"+name)
			}
		}
	}
	verifrt.Assert(!p, "wrapper-never-panics:"+name)
	verifrt.Reach("done")
}
