//go:build verif

package math

import (
	"context"
	gomath "math"

	"github.com/risor-io/risor/internal/verifrt"
	"github.com/risor-io/risor/object"
)

// C19: every math wrapper returns exactly what the Go function it wraps
// returns, for every float64 / int64 argument (symbolic; IEEE semantics by the
// FP solver, transcendental functions as congruent uninterpreted functions, so
// what is decided is that the wrapper passes the right arguments in the right
// order to the right function and returns its result unchanged).

func c19Same(o object.Object, want float64) bool {
	f, ok := o.(*object.Float)
	if !ok {
		return false
	}
	v := f.Value()
	if v != v || want != want {
		return v != v && want != want
	}
	// equal, and the same zero: -0.0 and 0.0 are different results
	return v == want && gomath.Signbit(v) == gomath.Signbit(want)
}

func c19Call(fn func(context.Context, ...object.Object) object.Object, args ...object.Object) (res object.Object, panicked bool) {
	defer func() {
		if r := recover(); r != nil {
			panicked = true
		}
	}()
	return fn(context.Background(), args...), false
}

func HarnessC19MathWrappersFP() {
	x, y := verifrt.Float64(), verifrt.Float64()
	fx, fy := object.NewFloat(x), object.NewFloat(y)
	type one struct {
		name string
		w    func(context.Context, ...object.Object) object.Object
		g    func(float64) float64
	}
	type two struct {
		name string
		w    func(context.Context, ...object.Object) object.Object
		g    func(float64, float64) float64
	}
	ones := []one{
		{"sqrt", Sqrt, gomath.Sqrt}, {"ceil", Ceil, gomath.Ceil}, {"floor", Floor, gomath.Floor},
		{"sin", Sin, gomath.Sin}, {"cos", Cos, gomath.Cos}, {"tan", Tan, gomath.Tan},
		{"log", Log, gomath.Log}, {"log10", Log10, gomath.Log10}, {"log2", Log2, gomath.Log2},
		{"round", Round, gomath.Round},
	}
	twos := []two{
		{"atan2", Atan2, gomath.Atan2}, {"max", Max, gomath.Max}, {"min", Min, gomath.Min},
		{"mod", Mod, gomath.Mod}, {"pow", Pow, gomath.Pow},
	}
	k := verifrt.Choose(len(ones) + len(twos) + 3)
	switch {
	case k < len(ones):
		c := ones[k]
		r, p := c19Call(c.w, fx)
		verifrt.Assert(!p, "wrapper-never-panics:"+c.name)
		if !p {
			verifrt.Assert(c19Same(r, c.g(x)), "wrapper-agrees-with-go:"+c.name)
		}
	case k < len(ones)+len(twos):
		c := twos[k-len(ones)]
		r, p := c19Call(c.w, fx, fy)
		verifrt.Assert(!p, "wrapper-never-panics:"+c.name)
		if !p {
			verifrt.Assert(c19Same(r, c.g(x, y)), "wrapper-agrees-with-go:"+c.name)
		}
	case k == len(ones)+len(twos):
		r, p := c19Call(IsInf, fx)
		verifrt.Assert(!p, "wrapper-never-panics:is_inf")
		if !p {
			b, ok := r.(*object.Bool)
			verifrt.Assert(ok && b.Value() == gomath.IsInf(x, 0), "wrapper-agrees-with-go:is_inf")
		}
	case k == len(ones)+len(twos)+1:
		r, p := c19Call(Abs, fx)
		verifrt.Assert(!p, "wrapper-never-panics:abs")
		if !p {
			verifrt.Assert(c19Same(r, gomath.Abs(x)), "wrapper-agrees-with-go:abs")
		}
	default:
		// integer arguments: converted with float64(v)
		n := verifrt.Int64()
		r, p := c19Call(Sqrt, object.NewInt(n))
		verifrt.Assert(!p, "wrapper-never-panics:sqrt-int")
		if !p {
			verifrt.Assert(c19Same(r, gomath.Sqrt(float64(n))), "wrapper-agrees-with-go:sqrt-int")
		}
		r, p = c19Call(Abs, object.NewInt(n))
		verifrt.Assert(!p, "wrapper-never-panics:abs-int")
		if !p && n != -9223372036854775808 {
			iv, ok := r.(*object.Int)
			want := n
			if want < 0 {
				want = -want
			}
			verifrt.Assert(ok && iv.Value() == want, "wrapper-agrees-with-go:abs-int")
		}
		s := verifrt.Int64()
		r, p = c19Call(Inf, object.NewInt(s))
		verifrt.Assert(!p, "wrapper-never-panics:inf")
		if !p {
			if f, ok := r.(*object.Float); ok {
				verifrt.Assert(f.Value() == gomath.Inf(int(s)), "wrapper-agrees-with-go:inf")
			}
		}
	}
	verifrt.Reach("done")
}

// HarnessC05MathSumOverSetFP (C05): math.sum of a set does not depend on the
// iteration order of the Go map behind the set (float addition is not
// associative, so an order that follows the map would show in the result).
func HarnessC05MathSumOverSetFP() {
	x, y, z := verifrt.Float64(), verifrt.Float64(), verifrt.Float64()
	verifrt.Assume(x == x && y == y && z == z) // NaN is never equal to itself: keep the comparison meaningful
	set := object.NewSet([]object.Object{object.NewFloat(x), object.NewFloat(y), object.NewFloat(z)})
	r1, p1 := c19Call(Sum, set)
	verifrt.MapOrderAll(true)
	r2, p2 := c19Call(Sum, set)
	verifrt.MapOrderAll(false)
	verifrt.Assert(!p1 && !p2, "sum-never-panics")
	if p1 || p2 {
		return
	}
	verifrt.Reach("summed")
	f1, ok1 := r1.(*object.Float)
	f2, ok2 := r2.(*object.Float)
	if ok1 && ok2 {
		a, b := f1.Value(), f2.Value()
		verifrt.Assert(a == b || (a != a && b != b), "sum-of-a-set-independent-of-map-iteration-order")
	} else {
		_, e1 := r1.(*object.Error)
		_, e2 := r2.(*object.Error)
		verifrt.Assert(e1 == e2, "sum-of-a-set-independent-of-map-iteration-order")
	}
}
